// vcheck is the driver for all property monitors.
//
//	vcheck run <Cnn> <quick|thorough>       parent: spawn workers, aggregate, decide
//	vcheck replay <Cnn> <path>              re-run one witness
//	vcheck worker ...                       child (internal)
package main

import (
	"fmt"
	"os"

	"verif/internal/core"
	_ "verif/internal/props"
)

func main() {
	if len(os.Args) < 2 {
		fmt.Fprintln(os.Stderr, "usage: vcheck run <Cnn> <quick|thorough> | replay <Cnn> <path> | list")
		os.Exit(3)
	}
	switch os.Args[1] {
	case "worker":
		os.Exit(core.WorkerMain(os.Args[2:]))
	case "run":
		if len(os.Args) < 4 {
			os.Exit(3)
		}
		os.Exit(core.ParentMain(os.Args[2], os.Args[3], ""))
	case "replay":
		if len(os.Args) < 4 {
			os.Exit(3)
		}
		os.Exit(core.ParentMain(os.Args[2], "quick", os.Args[3]))
	case "list":
		for _, id := range core.IDs() {
			fmt.Println(id)
		}
	default:
		os.Exit(3)
	}
}
