package props

import (
	"bytes"
	"encoding/binary"
	"encoding/gob"
	"sort"

	"github.com/ozanh/ugo"
	"github.com/ozanh/ugo/encoder"
)

// Deterministic re-implementation of the encoder's wire format (C18 only).
//
// The real encoder iterates Go maps (Map.MarshalBinary, CompiledFunction
// SourceMap), so two processes produce different byte strings for the same
// Bytecode. Corruptions are enumerated by byte offset, the case log and the
// replay files name a case as (seed, mutation), so the seed bytes must be
// identical in every process. This encoder writes exactly the same format
// with sorted keys; c18selfCheck verifies at seed construction time that the
// real decoder reads it back to the same value as the real encoder's output.

func c18vi(v int64) []byte {
	var b [1 + binary.MaxVarintLen64]byte
	n := binary.PutVarint(b[1:], v)
	b[0] = byte(n)
	return append([]byte(nil), b[:n+1]...)
}

func c18must(b []byte, err error) []byte {
	if err != nil {
		panic("c18 encoder: " + err.Error())
	}
	return b
}

// c18encObj encodes one object in DecodeObject format.
func c18encObj(o ugo.Object) []byte {
	switch v := o.(type) {
	case ugo.Bool:
		return c18must(encoder.Bool(v).MarshalBinary())
	case ugo.Int:
		return c18must(encoder.Int(v).MarshalBinary())
	case ugo.Uint:
		return c18must(encoder.Uint(v).MarshalBinary())
	case ugo.Char:
		return c18must(encoder.Char(v).MarshalBinary())
	case ugo.Float:
		return c18must(encoder.Float(v).MarshalBinary())
	case ugo.String:
		return c18must(encoder.String(v).MarshalBinary())
	case ugo.Bytes:
		return c18must(encoder.Bytes(v).MarshalBinary())
	case ugo.Array:
		return c18encArray(v)
	case ugo.Map:
		return c18encMap(10, v)
	case *ugo.SyncMap:
		if v.Value == nil {
			return []byte{11, 0}
		}
		return c18encMap(11, v.Value)
	case *ugo.CompiledFunction:
		return c18encFunc(v)
	case *ugo.Function:
		return c18must((*encoder.Function)(v).MarshalBinary())
	case *ugo.BuiltinFunction:
		return c18must((*encoder.BuiltinFunction)(v).MarshalBinary())
	case *ugo.UndefinedType:
		return []byte{0}
	}
	var buf bytes.Buffer
	buf.WriteByte(255)
	if err := gob.NewEncoder(&buf).Encode(&o); err != nil {
		panic("c18 encoder: gob: " + err.Error())
	}
	return buf.Bytes()
}

func c18encArray(a ugo.Array) []byte {
	if len(a) == 0 {
		return []byte{9, 0}
	}
	var tmp bytes.Buffer
	tmp.Write(c18vi(int64(len(a))))
	for _, e := range a {
		tmp.Write(c18encObj(e))
	}
	out := []byte{9}
	out = append(out, c18vi(int64(tmp.Len()))...)
	return append(out, tmp.Bytes()...)
}

func c18encMap(tag byte, m ugo.Map) []byte {
	keys := make([]string, 0, len(m))
	for k := range m {
		keys = append(keys, k)
	}
	sort.Strings(keys)
	var tmp bytes.Buffer
	for _, k := range keys {
		tmp.Write(c18vi(int64(len(k))))
		tmp.WriteString(k)
		tmp.Write(c18encObj(m[k]))
	}
	out := []byte{tag}
	out = append(out, c18vi(int64(tmp.Len()))...)
	return append(out, tmp.Bytes()...)
}

func c18encFunc(f *ugo.CompiledFunction) []byte {
	var tmp bytes.Buffer
	if f.NumParams > 0 {
		tmp.WriteByte(0)
		tmp.Write(c18vi(int64(f.NumParams)))
	}
	if f.NumLocals > 0 {
		tmp.WriteByte(1)
		tmp.Write(c18vi(int64(f.NumLocals)))
	}
	if f.Instructions != nil {
		tmp.WriteByte(2)
		tmp.Write(c18must(encoder.Bytes(f.Instructions).MarshalBinary()))
	}
	if f.Variadic {
		tmp.WriteByte(3)
	}
	if f.SourceMap != nil {
		tmp.WriteByte(5)
		tmp.Write(c18vi(int64(len(f.SourceMap) * 2)))
		keys := make([]int, 0, len(f.SourceMap))
		for k := range f.SourceMap {
			keys = append(keys, k)
		}
		sort.Ints(keys)
		for _, k := range keys {
			tmp.Write(c18vi(int64(k)))
			tmp.Write(c18vi(int64(f.SourceMap[k])))
		}
	}
	out := []byte{12}
	out = append(out, c18vi(int64(tmp.Len()))...)
	return append(out, tmp.Bytes()...)
}

func c18header(version uint16) []byte {
	b := binary.BigEndian.AppendUint32(nil, encoder.BytecodeSignature)
	return binary.BigEndian.AppendUint16(b, version)
}

// c18encBytecode writes the bytecode with the given header version.
func c18encBytecode(bc *ugo.Bytecode, version uint16) []byte {
	out := c18header(version)
	if bc.FileSet != nil {
		out = append(out, 0)
		data := c18must((*encoder.SourceFileSet)(bc.FileSet).MarshalBinary())
		out = append(out, c18must(encoder.Int(len(data)).MarshalBinary())...)
		out = append(out, data...)
	}
	if bc.Main != nil {
		out = append(out, 1)
		out = append(out, c18encFunc(bc.Main)...)
	}
	if bc.Constants != nil {
		out = append(out, 2)
		out = append(out, c18encArray(bc.Constants)...)
	}
	if bc.NumModules > 0 {
		out = append(out, 3)
		out = append(out, c18must(encoder.Int(bc.NumModules).MarshalBinary())...)
	}
	return out
}

// c18downConvert rewrites a v2 instruction stream in v1 layout (2-byte jump
// operands). Jump targets are not re-based: only the structure matters here.
func c18downConvert(ins []byte) []byte {
	var out []byte
	ugo.IterateInstructions(ins, func(pos int, op ugo.Opcode, operands []int, offset int) bool {
		out = append(out, op)
		switch op {
		case ugo.OpJump, ugo.OpJumpFalsy, ugo.OpAndJump, ugo.OpOrJump, ugo.OpSetupTry:
			for _, o := range operands {
				out = append(out, byte(o>>8), byte(o))
			}
		default:
			out = append(out, ins[pos+1:pos+1+offset]...)
		}
		return true
	})
	return out
}

// c18toV1 returns a structurally valid version-1 copy of bc.
func c18toV1(bc *ugo.Bytecode) *ugo.Bytecode {
	cp := *bc
	conv := func(f *ugo.CompiledFunction) *ugo.CompiledFunction {
		if f == nil {
			return nil
		}
		g := *f
		g.Instructions = c18downConvert(f.Instructions)
		return &g
	}
	cp.Main = conv(bc.Main)
	if bc.Constants != nil {
		cp.Constants = make([]ugo.Object, len(bc.Constants))
		for i, c := range bc.Constants {
			if f, ok := c.(*ugo.CompiledFunction); ok {
				cp.Constants[i] = conv(f)
			} else {
				cp.Constants[i] = c
			}
		}
	}
	return &cp
}
