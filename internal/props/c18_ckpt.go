package props

import (
	"bufio"
	"encoding/json"
	"fmt"
	"os"
	"path/filepath"

	"verif/internal/core"
)

// Checkpointing of the batch result (C18 only).
//
// On the pinned tree a few hundred inputs per run kill the child with a fatal
// out-of-memory error. The driver attributes the crash and restarts the child
// after the crashed case, but a child only writes its result at the very end,
// so everything observed before a crash would be lost (including violations at
// sites that were seen only there). c18rec mirrors every observation the
// monitor reports and saves the mirror next to the case log every few thousand
// cases; a restarted child (it finds the file) feeds it back into its Ctx.
// Cases between the last checkpoint and the crash are lost (<= c18ckptEvery; the
// first 1500 cases, where the crash-prone probes run, are saved one by one).
// With no crash the file is written and never read.

const c18ckptEvery = 250

type c18viol struct {
	Fp   string          `json:"fp"`
	What string          `json:"what"`
	Wit  json.RawMessage `json:"wit"`
}

type c18ckpt struct {
	Cases    int64               `json:"cases"` // cases begun (executed or skipped) when saved
	Evals    int64               `json:"evals"`
	Counters map[string]int64    `json:"counters"`
	Sets     map[string][]string `json:"sets"`
	Viol     []c18viol           `json:"viol"`
	NtBytes  int64               `json:"nt_bytes"` // valid prefix of the identity file
}

type c18rec struct {
	c      *core.Ctx
	dir    string // "" = checkpointing disabled
	st     c18ckpt
	vseen  map[string]int
	setmem map[string]map[string]bool
	nt     *os.File
	ntw    *bufio.Writer
	ntSeen map[string]bool
	since  int
}

// c18findOutdir locates the driver's work directory through the open case log.
func c18findOutdir(batch int) string {
	ents, err := os.ReadDir("/proc/self/fd")
	if err != nil {
		return ""
	}
	want := fmt.Sprintf("cases.%d.log", batch)
	for _, e := range ents {
		l, err := os.Readlink(filepath.Join("/proc/self/fd", e.Name()))
		if err == nil && filepath.Base(l) == want {
			return filepath.Dir(l)
		}
	}
	return ""
}

func c18newRec(c *core.Ctx) *c18rec {
	r := &c18rec{c: c, vseen: map[string]int{}, setmem: map[string]map[string]bool{}, ntSeen: map[string]bool{}}
	r.st.Counters = map[string]int64{}
	r.st.Sets = map[string][]string{}
	if c.Replay != nil {
		return r
	}
	r.dir = c18findOutdir(c.Batch)
	if r.dir == "" {
		return r
	}
	ntPath := filepath.Join(r.dir, fmt.Sprintf("c18nt.%d.txt", c.Batch))
	if b, err := os.ReadFile(r.ckptPath()); err == nil {
		var old c18ckpt
		if json.Unmarshal(b, &old) == nil {
			// restarted after a crash: restore
			for k, v := range old.Counters {
				r.CountN(k, v)
			}
			for k, ms := range old.Sets {
				for _, m := range ms {
					r.SetAdd(k, m)
				}
			}
			// a driver that journals violations itself (viol.<batch>.<skip>.jsonl) has already kept
			// those of the dead child: only remember them so that the 3-witness cap stays global
			journaled, _ := filepath.Glob(filepath.Join(r.dir, fmt.Sprintf("viol.%d.*.jsonl", c.Batch)))
			for _, v := range old.Viol {
				if len(journaled) > 0 {
					r.vseen[v.Fp]++
					r.st.Viol = append(r.st.Viol, v)
				} else {
					r.Violation(v.Fp, v.What, v.Wit)
				}
			}
			c.Eval(int(old.Evals))
			r.st.Evals = old.Evals
			if f, err := os.Open(ntPath); err == nil {
				sc := bufio.NewScanner(f)
				var n int64
				for sc.Scan() {
					n += int64(len(sc.Bytes())) + 1
					if n > old.NtBytes {
						break
					}
					c.Nontrivial(sc.Text())
				}
				f.Close()
			}
			_ = os.Truncate(ntPath, old.NtBytes)
			r.st.NtBytes = old.NtBytes
			r.CountN("restored_from_checkpoint_after_crash", 1)
		}
	}
	f, err := os.OpenFile(ntPath, os.O_CREATE|os.O_WRONLY|os.O_APPEND, 0o644)
	if err == nil {
		r.nt = f
		r.ntw = bufio.NewWriterSize(f, 1<<16)
	}
	return r
}

func (r *c18rec) ckptPath() string {
	return filepath.Join(r.dir, fmt.Sprintf("c18ckpt.%d.json", r.c.Batch))
}

func (r *c18rec) Count(k string) { r.CountN(k, 1) }
func (r *c18rec) CountN(k string, n int64) {
	r.st.Counters[k] += n
	r.c.CountN(k, n)
}
func (r *c18rec) Eval(n int) {
	r.st.Evals += int64(n)
	r.c.Eval(n)
}
func (r *c18rec) SetAdd(set, m string) {
	if r.setmem[set] == nil {
		r.setmem[set] = map[string]bool{}
	}
	if r.setmem[set][m] {
		return
	}
	r.setmem[set][m] = true
	if len(r.st.Sets[set]) < 4096 {
		r.st.Sets[set] = append(r.st.Sets[set], m)
	}
	r.c.SetAdd(set, m)
}
func (r *c18rec) Violation(fp, what string, wit any) {
	r.vseen[fp]++
	if r.vseen[fp] <= 3 {
		var raw json.RawMessage
		if b, ok := wit.(json.RawMessage); ok {
			raw = b
		} else {
			raw, _ = json.Marshal(wit)
		}
		r.st.Viol = append(r.st.Viol, c18viol{fp, what, raw})
		r.c.Violation(fp, what, raw)
		return
	}
	r.CountN("violations_beyond_3_witnesses_per_fingerprint", 1)
}
func (r *c18rec) Nontrivial(id string) {
	if r.ntSeen[id] {
		return
	}
	r.ntSeen[id] = true
	r.c.Nontrivial(id)
	if r.ntw != nil {
		_, _ = r.ntw.WriteString(id)
		_ = r.ntw.WriteByte('\n')
		r.st.NtBytes += int64(len(id)) + 1
	}
}

// Begin wraps Ctx.Begin and saves a checkpoint every c18ckptEvery executed cases.
func (r *c18rec) Begin(desc func() string) bool {
	r.st.Cases++
	if r.since >= c18ckptEvery || (r.st.Cases < 1500 && r.since > 0) {
		r.save()
	}
	if !r.c.Begin(desc) {
		return false
	}
	r.st.Evals++
	r.since++
	return true
}

func (r *c18rec) save() {
	r.since = 0
	if r.dir == "" {
		return
	}
	if r.ntw != nil {
		_ = r.ntw.Flush()
	}
	b, err := json.Marshal(&r.st)
	if err != nil {
		return
	}
	tmp := r.ckptPath() + ".tmp"
	if os.WriteFile(tmp, b, 0o644) == nil {
		_ = os.Rename(tmp, r.ckptPath())
	}
}
