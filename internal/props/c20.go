package props

import (
	"encoding/json"
	"fmt"
	"math"
	"reflect"
	"runtime/debug"
	"strconv"
	"strings"
	"time"

	"github.com/ozanh/ugo"
	ujson "github.com/ozanh/ugo/stdlib/json"
	utime "github.com/ozanh/ugo/stdlib/time"

	"verif/internal/canon"
	"verif/internal/core"
)

// C20 — values cross the Go boundary without change.
//
// The stdlib packages time, json and fmt are imported by name (their types are
// used below); importing them also runs their init() which registers the
// process-wide converters in /repo/registry — the same way a host program gets
// them.
//
// Deliberately NOT flagged (correct per the property text):
//   - ToObject(byte) and ToObject(rune) yield Char (same numeric value), only
//     ToObjectAlt yields Uint / Int.
//   - ToObject rejects int8/int16/uint16/uint32 with an error: "unsupported =>
//     error" is allowed. The acceptance matrix is recorded in the evidence
//     (observed set "table_accept"), not judged.
//   - Under ToObjectAlt a Char (rune) comes back as Int (int64) of the same
//     code point (documented "always convert signed integers to Int").
//   - nil and empty containers are interchangeable in both directions.
//   - NaN payload bits are not compared (NaN == NaN); every other float is
//     compared by bits in the round trips (a lost sign of -0 would be a change)
//     and by numeric value in the width table (the statement says "same
//     numeric value" there).
//   - *SyncMap, *Function, *Error etc. are not "plain" values: they are only
//     used for the no-panic rule, their round trip is not judged.
//   - A typed-nil error whose own Error method dereferences the receiver is
//     not fed to ToObject: that panic would originate in the caller's type.
//   - *time.Time comes back from ToInterface as time.Time (value), the only
//     reverse mapping that exists; the instant/zone are compared.
type c20 struct{}

func init() { core.Register(c20{}) }

func (c20) ID() string    { return "C20" }
func (c20) Level() string { return "exploration" }
func (c20) Race() bool    { return false }
func (c20) Rule() string {
	return "seeded (splitmix64 sub-seed per case, drawn from c.Rng) random nested values, depth<=5, <=48 nodes: " +
		"(1) plain uGO values (Int Uint Float Bool Char String Bytes Array Map Undefined, nil/empty containers, boundary leaves) -> ToInterface -> ToObject and ToObjectAlt, compared by type-exact canon.Value (Char->Int under Alt); " +
		"(2) canonical Go values (int64 uint64 float64 bool rune string []byte []any map[string]any nil) -> ToObject/ToObjectAlt -> ToInterface, type-exact deep equality modulo nil==empty container and NaN==NaN (rune->int64 under Alt); " +
		"(3) exhaustive table: every Go basic numeric type x {0,1,max,min,-1,(floats: -0,NaN,Inf,smallest)} x {ToObject,ToObjectAlt} x {scalar, inside []any, inside map[string]any} plus random values per width: same numeric value or (nil object, non-nil error); " +
		"(4) unsupported Go types (fixed list + planted at a random position of a random tree) -> nil object and non-nil error; " +
		"(5) registry types (time.Time, *time.Time, time.Duration, *time.Location, json.RawMessage, typed nil pointers; fixed list + planted in random trees) convert and come back equal via ToInterface; " +
		"(6) no panic in any call (every ugo call is recovered and judged), incl. a fixed list of odd inputs (nil *SyncMap, nil Object in containers, typed-nil Objects, map[string]Object(nil), error values, scanArg). " +
		"non-trivial = nesting depth >= 2 or a boundary leaf / nil container; distinct by direction + type-exact rendering of the input"
}
func (c20) Batches(tier string) int {
	if tier == "thorough" {
		return 32
	}
	return 16
}
func (c20) Required(string) []string {
	return []string{
		"ugo_roundtrip_ToObject", "ugo_roundtrip_ToObjectAlt",
		"go_roundtrip_ToObject", "go_roundtrip_ToObjectAlt",
		"nested_depth_ge2", "edge_leaf_values", "char_to_int_under_alt",
		"table_rows", "table_accepted_value_checked", "table_rejected_with_error", "table_random_rows",
		"unsupported_fixed_rejected", "unsupported_planted_rejected",
		"registry_fixed", "registry_fixed_roundtrip_ToObject", "registry_fixed_roundtrip_ToObjectAlt",
		"registry_planted_roundtrips_ToObject", "registry_planted_roundtrips_ToObjectAlt", "registry_typed_nil",
		"alias_probes_ToObject", "alias_probes_ToObjectAlt", "deep_ToInterface", "deep_roundtrip_ToObject", "deep_roundtrip_ToObjectAlt", "go_deep_ToObject", "go_deep_ToObjectAlt",
		"nopanic_cases", "calls_ToObject", "calls_ToObjectAlt", "calls_ToInterface",
	}
}
func (c20) Assumptions() []string {
	return []string{
		"canon.Value renders uGO values type-exactly (shared, trusted)",
		"the ~80-line type-exact Go comparator c20goEq and renderer c20goRender in c20.go",
		"math/big exact comparison for the numeric width table",
		"Go's reflect-free type switches / time.Time.Equal",
	}
}

// ---------------------------------------------------------------- PRNG

// c20rng is splitmix64: a case is fully determined by one 64-bit sub-seed.
type c20rng struct{ s uint64 }

func (r *c20rng) u64() uint64 {
	r.s += 0x9e3779b97f4a7c15
	z := r.s
	z = (z ^ (z >> 30)) * 0xbf58476d1ce4e5b9
	z = (z ^ (z >> 27)) * 0x94d049bb133111eb
	return z ^ (z >> 31)
}
func (r *c20rng) n(n int) int { return int(r.u64() % uint64(n)) }

// ---------------------------------------------------------------- leaf pools

var c20i64 = []int64{0, 1, -1, math.MaxInt64, math.MinInt64, math.MinInt64 + 1, 1 << 31, -(1 << 31), 1<<31 - 1, 1 << 32, 1<<53 + 1, -(1<<53 + 1), 255, 256, 65535, 65536, 127, 128, -128, -129}
var c20u64 = []uint64{0, 1, math.MaxUint64, 1 << 63, 1<<63 - 1, 1 << 32, 1<<32 - 1, 1<<53 + 1, 255, 256, 65535}
var c20f64 = []float64{0, math.Copysign(0, -1), 1, -1, math.MaxFloat64, -math.MaxFloat64, math.SmallestNonzeroFloat64, math.Inf(1), math.Inf(-1), math.NaN(),
	1 << 53, 1<<53 + 2, 1 << 63, 18446744073709551616.0, math.MaxFloat32, 0.1, -2.5e-300}
var c20i32 = []int32{0, 1, -1, 'a', 0x7f, 0x80, 0xff, 0x100, 0xD800, 0xDFFF, 0xFFFD, 0x10FFFF, 0x110000, math.MaxInt32, math.MinInt32}
var c20str = []string{"", "\x00", "\xff", "\xc3\x28", "é", "日本", "\U0001F600", "a\x00b", " ", "\"", "\\", "__module_name__"}

func (r *c20rng) str() (string, bool) {
	if r.n(3) == 0 {
		return c20str[r.n(len(c20str))], true
	}
	n := r.n(9)
	b := make([]byte, n)
	for i := range b {
		if r.n(8) == 0 {
			b[i] = byte(r.u64())
		} else {
			b[i] = byte('a' + r.n(26))
		}
	}
	return string(b), false
}

func (r *c20rng) key() string {
	switch r.n(6) {
	case 0:
		return c20str[r.n(len(c20str))]
	default:
		return string(rune('a'+r.n(6))) + strconv.Itoa(r.n(4))
	}
}

func (r *c20rng) i64() (int64, bool) {
	switch r.n(3) {
	case 0:
		return c20i64[r.n(len(c20i64))], true
	case 1:
		return int64(r.u64()), false
	}
	return int64(r.n(2000)) - 1000, false
}
func (r *c20rng) u64v() (uint64, bool) {
	switch r.n(3) {
	case 0:
		return c20u64[r.n(len(c20u64))], true
	case 1:
		return r.u64(), false
	}
	return uint64(r.n(2000)), false
}
func (r *c20rng) f64() (float64, bool) {
	switch r.n(4) {
	case 0:
		return c20f64[r.n(len(c20f64))], true
	case 1:
		f := math.Float64frombits(r.u64()) // any bit pattern, incl. NaN payloads, subnormals
		return f, math.IsNaN(f) || math.IsInf(f, 0)
	case 2:
		return float64(int64(r.u64())) / float64(1+r.n(9)), false
	}
	return float64(r.n(2000)-1000) / 8, false
}
func (r *c20rng) i32() (int32, bool) {
	switch r.n(3) {
	case 0:
		return c20i32[r.n(len(c20i32))], true
	case 1:
		return int32(r.u64()), false
	}
	return int32('a' + r.n(26)), false
}

// c20stat is what a generator reports about the value it built.
type c20stat struct {
	depth int // max container nesting (scalar = 0)
	nodes int
	edge  bool
	kinds uint32 // bit per leaf/container kind
}

const (
	c20kInt = iota
	c20kUint
	c20kFloat
	c20kBool
	c20kChar
	c20kString
	c20kBytes
	c20kArray
	c20kMap
	c20kNil
	c20kNilBytes
	c20kNilArray
	c20kNilMap
	c20kEmptyArray
	c20kEmptyMap
	c20kNaN
	c20kNegZero
	c20kRegistry
	c20kN
)

var c20kindName = [...]string{"int", "uint", "float", "bool", "char", "string", "bytes", "array", "map", "undefined_or_nil",
	"nil_bytes", "nil_array", "nil_map", "empty_array", "empty_map", "nan", "neg_zero", "registry"}

const c20maxDepth = 5
const c20maxNodes = 48

// ---------------------------------------------------------------- uGO generator

func c20genUgo(r *c20rng, depth int, st *c20stat, level int) ugo.Object {
	st.nodes++
	if level > st.depth {
		st.depth = level
	}
	k := r.n(13)
	if level < 3 && r.n(10) < 6-2*level { // keep the tree alive near the root: 60% / 40% / 20% forced containers
		k = 9 + r.n(4)
	}
	if depth <= 0 || st.nodes >= c20maxNodes {
		k = r.n(9)
	}
	switch k {
	case 0:
		v, e := r.i64()
		st.edge = st.edge || e
		st.kinds |= 1 << c20kInt
		return ugo.Int(v)
	case 1:
		v, e := r.u64v()
		st.edge = st.edge || e
		st.kinds |= 1 << c20kUint
		return ugo.Uint(v)
	case 2:
		v, e := r.f64()
		st.edge = st.edge || e
		st.kinds |= 1 << c20kFloat
		if math.IsNaN(v) {
			st.kinds |= 1 << c20kNaN
		}
		if v == 0 && math.Signbit(v) {
			st.kinds |= 1 << c20kNegZero
		}
		return ugo.Float(v)
	case 3:
		st.kinds |= 1 << c20kBool
		return ugo.Bool(r.n(2) == 0)
	case 4:
		v, e := r.i32()
		st.edge = st.edge || e
		st.kinds |= 1 << c20kChar
		return ugo.Char(v)
	case 5:
		s, e := r.str()
		st.edge = st.edge || e
		st.kinds |= 1 << c20kString
		return ugo.String(s)
	case 6:
		st.kinds |= 1 << c20kBytes
		switch r.n(5) {
		case 0:
			st.edge = true
			st.kinds |= 1 << c20kNilBytes
			return ugo.Bytes(nil)
		case 1:
			st.edge = true
			return ugo.Bytes{}
		}
		s, e := r.str()
		st.edge = st.edge || e
		return ugo.Bytes(s)
	case 7, 8:
		st.kinds |= 1 << c20kNil
		return ugo.Undefined
	case 9, 10:
		st.kinds |= 1 << c20kArray
		switch r.n(8) {
		case 0:
			st.edge = true
			st.kinds |= 1 << c20kNilArray
			return ugo.Array(nil)
		case 1:
			st.edge = true
			st.kinds |= 1 << c20kEmptyArray
			return ugo.Array{}
		}
		n := 1 + r.n(4)
		a := make(ugo.Array, n)
		for i := range a {
			a[i] = c20genUgo(r, depth-1, st, level+1)
		}
		return a
	default:
		st.kinds |= 1 << c20kMap
		switch r.n(8) {
		case 0:
			st.edge = true
			st.kinds |= 1 << c20kNilMap
			return ugo.Map(nil)
		case 1:
			st.edge = true
			st.kinds |= 1 << c20kEmptyMap
			return ugo.Map{}
		}
		n := 1 + r.n(4)
		m := make(ugo.Map, n)
		for i := 0; i < n; i++ {
			m[r.key()] = c20genUgo(r, depth-1, st, level+1)
		}
		return m
	}
}

// c20charToInt is the documented ToObjectAlt image of a plain uGO value.
func c20charToInt(o ugo.Object) ugo.Object {
	switch v := o.(type) {
	case ugo.Char:
		return ugo.Int(v)
	case ugo.Array:
		a := make(ugo.Array, len(v))
		for i := range v {
			a[i] = c20charToInt(v[i])
		}
		return a
	case ugo.Map:
		m := make(ugo.Map, len(v))
		for k, e := range v {
			m[k] = c20charToInt(e)
		}
		return m
	}
	return o
}

// ---------------------------------------------------------------- recovered calls into ugo

type c20wit struct {
	Kind   string `json:"kind"`           // ugo | go | plant-unsupported | plant-registry | table | table-random | unsupported | registry | odd
	Seed   uint64 `json:"seed,omitempty"` // sub-seed of a random case
	TypIdx int    `json:"typ_idx,omitempty"`
	Bits   uint64 `json:"bits,omitempty"`
	Label  string `json:"label,omitempty"` // row of a fixed list
	Func   string `json:"func,omitempty"`
	Input  string `json:"input"`
	Got    string `json:"got,omitempty"`
	Want   string `json:"want,omitempty"`
	Stack  string `json:"stack,omitempty"`
}

type c20run struct {
	c *core.Ctx
	w c20wit // witness skeleton of the current case
}

func c20topRepoFunc(stack string) string {
	for _, ln := range strings.Split(stack, "\n") {
		if strings.HasPrefix(ln, "github.com/ozanh/ugo") {
			if i := strings.LastIndex(ln, "("); i > 0 {
				ln = ln[:i]
			}
			return strings.TrimPrefix(ln, "github.com/ozanh/ugo")
		}
	}
	return "?"
}

func (x *c20run) panicked(entry string, r any, stack string) {
	msg := fmt.Sprint(r)
	w := x.w
	w.Func = entry
	w.Got = "panic: " + msg
	w.Want = "a value or an error"
	if len(stack) > 1800 {
		w.Stack = stack[:1800]
	} else {
		w.Stack = stack
	}
	x.c.Count("panics")
	x.c.Violation("C20|panic|"+entry+"|"+c20topRepoFunc(stack)+"|"+core.NormMsg(msg), entry+" panics: "+core.NormMsg(msg)+" on "+c20short(x.w.Input), w)
}

func c20fname(alt bool) string {
	if alt {
		return "ToObjectAlt"
	}
	return "ToObject"
}

// toObj calls ToObject/ToObjectAlt; ok=false means it panicked (already reported).
func (x *c20run) toObj(alt bool, v any) (o ugo.Object, err error, ok bool) {
	name := c20fname(alt)
	x.c.Count("calls_" + name)
	defer func() {
		if r := recover(); r != nil {
			x.panicked(name, r, string(debug.Stack()))
			o, err, ok = nil, nil, false
		}
	}()
	if alt {
		o, err = ugo.ToObjectAlt(v)
	} else {
		o, err = ugo.ToObject(v)
	}
	return o, err, true
}

func (x *c20run) toIface(o ugo.Object) (g any, ok bool) {
	x.c.Count("calls_ToInterface")
	defer func() {
		if r := recover(); r != nil {
			x.panicked("ToInterface", r, string(debug.Stack()))
			g, ok = nil, false
		}
	}()
	return ugo.ToInterface(o), true
}

func (x *c20run) viol(fp, what, fn, got, want string) {
	w := x.w
	w.Func, w.Got, w.Want = fn, c20short(got), c20short(want)
	x.c.Violation(fp, what, w)
}

// contract checks "object xor error"; returns true when the call produced an object.
func (x *c20run) contract(fn string, o ugo.Object, err error) bool {
	if err != nil {
		if o != nil {
			x.viol("C20|contract|"+fn+"|object-with-error", fn+" returned an error together with a non-nil object", fn, fmt.Sprintf("%T + %v", o, err), "nil object with the error")
		}
		return false
	}
	if o == nil {
		x.viol("C20|contract|"+fn+"|nil-object-nil-error", fn+" returned nil object and nil error", fn, "nil, nil", "an object or an error")
		return false
	}
	return true
}

func (x *c20run) noteStat(dir string, st *c20stat, identity string) {
	c := x.c
	for k := 0; k < c20kN; k++ {
		if st.kinds&(1<<uint(k)) != 0 {
			c.Count(dir + "_has_" + c20kindName[k])
		}
	}
	c.Count(dir + "_depth_" + strconv.Itoa(st.depth))
	if st.depth >= 2 {
		c.Count("nested_depth_ge2")
	}
	if st.edge {
		c.Count("edge_leaf_values")
	}
	if st.depth >= 2 || st.edge {
		c.Nontrivial(dir + "|" + identity)
	}
}

// ---------------------------------------------------------------- (1) uGO -> Go -> uGO

func (x *c20run) caseUgo(seed uint64, desc *string) {
	r := &c20rng{s: seed}
	var st c20stat
	o := c20genUgo(r, c20maxDepth, &st, 0)
	in := canon.Value(o)
	if desc != nil {
		*desc = in
		return
	}
	x.w = c20wit{Kind: "ugo", Seed: seed, Input: in}
	x.noteStat("ugo", &st, in)
	g, ok := x.toIface(o)
	if !ok {
		return
	}
	hasChar := st.kinds&(1<<c20kChar) != 0
	for _, alt := range []bool{false, true} {
		fn := c20fname(alt)
		back, err, ok := x.toObj(alt, g)
		if !ok {
			continue
		}
		if err != nil {
			x.contract(fn, back, err)
			x.viol("C20|ugo-roundtrip|"+fn+"|error", fn+"(ToInterface(o)) fails for a plain uGO value: "+core.NormMsg(err.Error()), fn, "error: "+err.Error(), in)
			continue
		}
		if !x.contract(fn, back, err) {
			continue
		}
		want, wantObj := in, o
		if alt && hasChar {
			wantObj = c20charToInt(o)
			want = canon.Value(wantObj)
			x.c.Count("char_to_int_under_alt")
		}
		got := canon.Value(back)
		x.c.Count("ugo_roundtrip_" + fn)
		if got != want {
			x.viol("C20|ugo-roundtrip|"+fn+"|"+c20ugoDiff(wantObj, back), "uGO value changed by "+fn+"(ToInterface(o))", fn, got, want)
			continue
		}
		// the Go image must be stable as well
		if g2, ok := x.toIface(back); ok && !alt {
			if d := c20goEq(g, g2, false, "$"); d != "" {
				x.viol("C20|ugo-roundtrip|go-image-unstable|"+c20class(d), "ToInterface(ToObject(ToInterface(o))) differs from ToInterface(o): "+d, "ToInterface", c20goRender(g2), c20goRender(g))
			}
		}
	}
	if seed%977 == 0 {
		x.c.Sample(map[string]string{"direction": "uGO->Go->uGO", "value": c20short(in)})
	}
}

// c20ugoDiff names the first structural difference between two uGO values (fingerprint material).
func c20ugoDiff(want, got ugo.Object) string {
	tn := func(o ugo.Object) string {
		if o == nil {
			return "nil"
		}
		return o.TypeName()
	}
	if tn(want) != tn(got) {
		return "want-" + tn(want) + "-got-" + tn(got)
	}
	switch w := want.(type) {
	case ugo.Array:
		g := got.(ugo.Array)
		if len(w) != len(g) {
			return "len-array"
		}
		for i := range w {
			if d := c20ugoDiff(w[i], g[i]); d != "" {
				return d
			}
		}
		return ""
	case ugo.Map:
		g := got.(ugo.Map)
		if len(w) != len(g) {
			return "len-map"
		}
		for k, wv := range w {
			gv, ok := g[k]
			if !ok {
				return "key-lost-map"
			}
			if d := c20ugoDiff(wv, gv); d != "" {
				return d
			}
		}
		return ""
	}
	if canon.Value(want) != canon.Value(got) {
		return "value-" + tn(want)
	}
	return ""
}

// ---------------------------------------------------------------- (2) Go -> uGO -> Go

func (x *c20run) goRoundTrip(kindTag string, g any, in string) {
	for _, alt := range []bool{false, true} {
		fn := c20fname(alt)
		o, err, ok := x.toObj(alt, g)
		if !ok {
			continue
		}
		if err != nil {
			x.contract(fn, o, err)
			x.viol("C20|"+kindTag+"|"+fn+"|error", fn+" fails for a supported Go value: "+core.NormMsg(err.Error()), fn, "error: "+err.Error(), in)
			continue
		}
		if !x.contract(fn, o, err) {
			continue
		}
		back, ok := x.toIface(o)
		if !ok {
			continue
		}
		x.c.Count(kindTag + "_" + fn)
		if d := c20goEq(g, back, alt, "$"); d != "" {
			x.viol("C20|"+kindTag+"|"+fn+"|"+c20class(d), "Go value changed by ToInterface("+fn+"(g)): "+d, fn, c20goRender(back), in)
		}
	}
}

func (x *c20run) caseGo(seed uint64, desc *string) {
	r := &c20rng{s: seed}
	var st c20stat
	g := c20genGo(r, c20maxDepth, &st, 0, &c20goOpts{plantAt: -1})
	in := c20goRender(g)
	if desc != nil {
		*desc = in
		return
	}
	x.w = c20wit{Kind: "go", Seed: seed, Input: in}
	x.noteStat("go", &st, in)
	x.goRoundTrip("go_roundtrip", g, in)
	// write into a fresh conversion result: later cases would observe any container shared between conversions
	if o, err, ok := x.toObj(seed%2 == 0, g); ok && err == nil {
		c20poison(o)
	}
	if seed%977 == 0 {
		x.c.Sample(map[string]string{"direction": "Go->uGO->Go", "value": c20short(in)})
	}
}

// ---------------------------------------------------------------- (5b) registry values planted in random trees

func (x *c20run) caseGoRegistry(seed uint64, desc *string) {
	r := &c20rng{s: seed}
	var st c20stat
	g := c20genGo(r, c20maxDepth, &st, 0, &c20goOpts{reg: true, plantAt: -1})
	if st.kinds&(1<<c20kRegistry) == 0 { // make sure at least one registry value is present
		g = []any{g, r.registry()}
		st.depth++
		st.kinds |= 1 << c20kRegistry
		st.edge = true
	}
	in := c20goRender(g)
	if desc != nil {
		*desc = in
		return
	}
	x.w = c20wit{Kind: "plant-registry", Seed: seed, Input: in}
	x.noteStat("reg", &st, in)
	x.goRoundTrip("registry_planted_roundtrips", g, in)
}

// ---------------------------------------------------------------- (4b) unsupported value planted in a random tree

func (x *c20run) caseGoUnsupported(seed uint64, uns []c20lab, desc *string) {
	r := &c20rng{s: seed}
	pick := uns[r.n(len(uns))]
	withReg := r.n(4) == 0
	saved := *r
	var st0 c20stat
	_ = c20genGo(r, c20maxDepth, &st0, 0, &c20goOpts{reg: withReg, plantAt: -1})
	at := 0
	if st0.nodes > 1 {
		at = 1 + int(seed>>7)%(st0.nodes-1) // never the root: the scalar case is in the fixed list
	}
	*r = saved
	var st c20stat
	g := c20genGo(r, c20maxDepth, &st, 0, &c20goOpts{reg: withReg, plantAt: at, planted: pick.v})
	if st0.nodes <= 1 {
		g = []any{g, pick.v}
		st.depth = 1
	}
	in := "planted " + pick.label + " in " + c20goRender(g)
	if desc != nil {
		*desc = in
		return
	}
	x.w = c20wit{Kind: "plant-unsupported", Seed: seed, Label: pick.label, Input: in}
	want := fmt.Sprintf("%T", pick.v)
	// by type identity, not by printed name: a generated registry value (stdlib json.RawMessage, time.Time, ...) prints
	// like the planted look-alike from verif/internal/collide
	wantT := reflect.TypeOf(pick.v)
	if !c20contains(g, func(e any) bool { return e != nil && reflect.TypeOf(e) == wantT }) {
		x.c.Count("unsupported_plant_overwritten_by_duplicate_key") // nothing to judge
		return
	}
	st.edge = true
	x.noteStat("uns", &st, in)
	for _, alt := range []bool{false, true} {
		fn := c20fname(alt)
		o, err, ok := x.toObj(alt, g)
		if !ok {
			continue
		}
		if err == nil {
			x.viol("C20|unsupported-accepted|"+fn+"|"+pick.label+"|nested", fn+" accepts a container holding the unsupported Go type "+want, fn, fmt.Sprintf("%T", o), "nil object, non-nil error")
			continue
		}
		if o != nil {
			x.contract(fn, o, err)
			continue
		}
		x.c.Count("unsupported_planted_rejected")
	}
}

// ---------------------------------------------------------------- (3) numeric widths

func (x *c20run) numRow(n c20num, kind string, bits uint64, tIdx int) {
	c := x.c
	for shape := 0; shape < 4; shape++ {
		for _, alt := range []bool{false, true} {
			fn := c20fname(alt)
			in := fmt.Sprintf("%s(%v) %s", n.typ, n.v, c20shapeName[shape])
			x.w = c20wit{Kind: kind, TypIdx: tIdx, Bits: bits, Label: n.typ, Input: in}
			o, err, ok := x.toObj(alt, c20wrap(shape, n.v))
			c.Count("table_rows")
			if kind == "table-random" {
				c.Count("table_random_rows")
			}
			if !ok {
				continue
			}
			acc := n.typ + ":" + fn
			if err != nil {
				if o != nil {
					x.contract(fn, o, err)
					continue
				}
				c.Count("table_rejected_with_error")
				c.SetAdd("table_reject", acc)
				continue
			}
			if !x.contract(fn, o, err) {
				continue
			}
			c.SetAdd("table_accept", acc)
			leaf, ok := c20unwrapObj(shape, o)
			if !ok || leaf == nil {
				x.viol("C20|table|"+fn+"|"+n.typ+"|container-shape", fn+" changed the container around a "+n.typ, fn, canon.Value(o), in)
				continue
			}
			val, nan, k := c20numOf(leaf)
			if k == "" {
				x.viol("C20|table|"+fn+"|"+n.typ+"|not-numeric", fn+" converts "+n.typ+" to non-numeric "+leaf.TypeName(), fn, canon.Value(leaf), in)
				continue
			}
			c.Count("table_accepted_value_checked")
			c.Count("table_kind_" + n.typ + "_" + fn + "_" + k)
			same := (n.nan && nan) || (!n.nan && !nan && n.val.Cmp(val) == 0)
			if !same {
				x.viol("C20|table|"+fn+"|"+n.typ+"|value", fn+" changes the numeric value of a "+n.typ, fn, canon.Value(leaf), in)
				continue
			}
			if alt { // documented: signed -> Int, unsigned -> Uint (floats -> Float)
				wantK := map[byte]string{'s': "int", 'u': "uint", 'f': "float"}[n.class]
				if k != wantK {
					x.viol("C20|table|ToObjectAlt|"+n.typ+"|kind-"+k, "ToObjectAlt documents signed->Int, unsigned->Uint; "+n.typ+" became "+k, fn, canon.Value(leaf), wantK)
				}
			}
		}
	}
	// a width must be handled the same way at every nesting level
	for _, alt := range []bool{false, true} {
		fn := c20fname(alt)
		_, e0, ok0 := x.toObj(alt, n.v)
		_, e1, ok1 := x.toObj(alt, c20wrap(3, n.v))
		if ok0 && ok1 && (e0 == nil) != (e1 == nil) {
			x.viol("C20|table|"+fn+"|"+n.typ+"|nesting-inconsistent", fn+" accepts "+n.typ+" at one nesting level and rejects it at another", fn, fmt.Sprint(e0, " / ", e1), "same decision")
		}
	}
	if n.edge {
		c.Nontrivial("num|" + n.typ + "|" + fmt.Sprint(n.v))
		c.Count("edge_leaf_values")
	}
}

// ---------------------------------------------------------------- (4a) unsupported, fixed list

func (x *c20run) unsupportedRow(u c20lab) {
	for shape := 0; shape < 4; shape++ {
		for _, alt := range []bool{false, true} {
			fn := c20fname(alt)
			x.w = c20wit{Kind: "unsupported", Label: u.label, Input: fmt.Sprintf("%s (%T) %s", u.label, u.v, c20shapeName[shape])}
			o, err, ok := x.toObj(alt, c20wrap(shape, u.v))
			if !ok {
				continue
			}
			if err == nil {
				nest := "scalar"
				if shape > 0 {
					nest = "nested"
				}
				x.viol("C20|unsupported-accepted|"+fn+"|"+u.label+"|"+nest, fn+" accepts the unsupported Go type "+fmt.Sprintf("%T", u.v)+" without error", fn, fmt.Sprintf("%T %v", o, o), "nil object, non-nil error")
				continue
			}
			if o != nil {
				x.contract(fn, o, err)
				continue
			}
			x.c.Count("unsupported_fixed_rejected")
		}
	}
	x.c.Nontrivial("uns|" + u.label)
}

// ---------------------------------------------------------------- (5a) registry, fixed list

func (x *c20run) registryRow(u c20lab) {
	for shape := 0; shape < 4; shape++ {
		g := c20wrap(shape, u.v)
		in := c20goRender(g)
		x.w = c20wit{Kind: "registry", Label: u.label, Input: in}
		x.goRoundTrip("registry_fixed_roundtrip", g, in)
		x.c.Count("registry_fixed")
		x.c.Count("registry_type_" + u.label)
	}
	// direct shape of the converted object (only what the registry hooks document)
	for _, alt := range []bool{false, true} {
		fn := c20fname(alt)
		x.w = c20wit{Kind: "registry", Label: u.label, Input: c20goRender(u.v)}
		o, err, ok := x.toObj(alt, u.v)
		if !ok || err != nil || o == nil {
			continue // reported by goRoundTrip above
		}
		switch v := u.v.(type) {
		case time.Duration:
			if i, ok := o.(ugo.Int); !ok || int64(i) != int64(v) {
				x.viol("C20|registry|"+fn+"|time.Duration|value", "time.Duration does not become the Int of the same value", fn, canon.Value(o), in64(int64(v)))
			}
		case *time.Time:
			if v == nil {
				x.c.Count("registry_typed_nil")
				if o != ugo.Undefined {
					x.viol("C20|registry|"+fn+"|*time.Time(nil)", "nil *time.Time does not become undefined", fn, canon.Value(o), "undefined")
				}
			}
		case *time.Location:
			if v == nil {
				x.c.Count("registry_typed_nil")
				if o != ugo.Undefined {
					x.viol("C20|registry|"+fn+"|*time.Location(nil)", "nil *time.Location does not become undefined", fn, canon.Value(o), "undefined")
				}
			}
		case time.Time:
			if t, ok := o.(*utime.Time); !ok || t == nil || !c20sameTime(t.Value, v) {
				x.viol("C20|registry|"+fn+"|time.Time|object", "time.Time does not become a *time.Time object of the same instant", fn, fmt.Sprintf("%T %v", o, o), c20goRender(v))
			}
		case json.RawMessage:
			if rm, ok := o.(*ujson.RawMessage); !ok || rm == nil || string(rm.Value) != string(v) {
				x.viol("C20|registry|"+fn+"|json.RawMessage|object", "json.RawMessage does not become a rawMessage object with the same bytes", fn, fmt.Sprintf("%T %v", o, o), c20goRender(v))
			}
		}
	}
	x.c.Nontrivial("reg|" + u.label + "|" + c20goRender(u.v))
}

func in64(i int64) string { return "i:" + strconv.FormatInt(i, 10) }

// ---------------------------------------------------------------- (6) odd inputs: nothing may panic

func (x *c20run) oddRow(u c20lab) {
	x.w = c20wit{Kind: "odd", Label: u.label, Input: fmt.Sprintf("%s (%T)", u.label, u.v)}
	x.c.Count("nopanic_cases")
	for shape := 0; shape < 3; shape++ {
		for _, alt := range []bool{false, true} {
			fn := c20fname(alt)
			o, err, ok := x.toObj(alt, c20wrap(shape, u.v))
			if !ok {
				continue
			}
			if !x.contract(fn, o, err) {
				if err != nil {
					x.c.Count("nopanic_rejected_with_error")
				}
				continue
			}
			g, ok := x.toIface(o)
			if !ok {
				continue
			}
			// and once more back: may be an error (e.g. *int64 of a scanArg), never a panic
			o2, err2, ok := x.toObj(alt, g)
			if ok {
				x.contract(fn, o2, err2)
			}
		}
	}
	if obj, isObj := u.v.(ugo.Object); isObj {
		x.toIface(obj)
		x.toIface(ugo.Array{obj, ugo.Map{"k": obj}})
		x.toIface(&ugo.SyncMap{Value: ugo.Map{"k": obj}})
	}
	x.c.Nontrivial("odd|" + u.label)
}

// ---------------------------------------------------------------- driver

// ---------------------------------------------------------------- (6) deep nestings

var c20deepDepths = []int{1, 2, 3, 8, 15, 16, 17, 30, 31, 32, 33, 34, 35, 40, 63, 64, 65, 100, 127, 128, 129, 200, 255, 256, 257, 1000, 5000}

// c20firstObject reports the path of the first ugo.Object left inside a ToInterface result ("" when there is none).
func c20firstObject(v any, level int) string {
	switch t := v.(type) {
	case ugo.Object:
		return fmt.Sprintf("level %d: %T", level, t)
	case []any:
		for _, e := range t {
			if p := c20firstObject(e, level+1); p != "" {
				return p
			}
		}
	case map[string]any:
		for _, e := range t {
			if p := c20firstObject(e, level+1); p != "" {
				return p
			}
		}
	}
	return ""
}

// caseDeep: containers nested `depth` levels (shape 0 arrays, 1 maps, 2 alternating, 3 alternating with SyncMap on the uGO side).
func (x *c20run) caseDeep(depth, shape int) {
	in := fmt.Sprintf("deep nesting depth=%d shape=%d (every level holds a string, an int and the next level; leaf int64 7)", depth, shape)
	x.w = c20wit{Kind: "deep", Seed: uint64(depth), TypIdx: shape, Input: in}
	useMap := func(l int) bool { return shape == 1 || (shape >= 2 && l%2 == 1) }
	// Go -> uGO -> Go
	var g any = int64(7)
	for l := depth; l >= 1; l-- {
		if useMap(l) {
			g = map[string]any{"k": g, "n": int64(l), "s": "lvl"}
		} else {
			g = []any{"lvl", int64(l), g}
		}
	}
	x.goRoundTrip("go_deep", g, in)
	// uGO -> Go: nothing unconverted may remain, at any level; and back
	var o ugo.Object = ugo.Int(7)
	for l := depth; l >= 1; l-- {
		switch {
		case useMap(l) && shape == 3 && l%4 == 1:
			o = &ugo.SyncMap{Value: ugo.Map{"k": o, "n": ugo.Int(l), "s": ugo.String("lvl")}}
		case useMap(l):
			o = ugo.Map{"k": o, "n": ugo.Int(l), "s": ugo.String("lvl")}
		default:
			o = ugo.Array{ugo.String("lvl"), ugo.Int(l), o}
		}
	}
	gi, ok := x.toIface(o)
	if !ok {
		return
	}
	x.c.Count("deep_ToInterface")
	if p := c20firstObject(gi, 0); p != "" {
		x.viol("C20|deep|unconverted-object", "ToInterface leaves a uGO object inside its result: "+p, "ToInterface", p, in)
		return
	}
	if shape != 3 {
		if d := c20goEq(g, gi, false, "$"); d != "" {
			x.viol("C20|deep|go-image|"+c20class(d), "ToInterface of the nested uGO value is not the corresponding Go value: "+trunc(d, 300), "ToInterface", trunc(d, 300), in)
			return
		}
	}
	for _, alt := range []bool{false, true} {
		fn := c20fname(alt)
		back, err, ok := x.toObj(alt, gi)
		if !ok {
			continue
		}
		if err != nil || !x.contract(fn, back, err) {
			x.viol("C20|deep|"+fn+"|error", fn+"(ToInterface(o)) fails for a deeply nested plain value: "+fmt.Sprint(err), fn, fmt.Sprint(err), in)
			continue
		}
		gb, ok := x.toIface(back)
		if !ok {
			continue
		}
		if d := c20goEq(gi, gb, alt, "$"); d != "" {
			x.viol("C20|deep|"+fn+"|"+c20class(d), "deeply nested value changed by a round trip: "+trunc(d, 300), fn, trunc(d, 300), in)
			continue
		}
		x.c.Count("deep_roundtrip_" + fn)
	}
}

// ---------------------------------------------------------------- (7) independence of conversion results

// c20poison writes into every container of a conversion result (what a script receiving the value may do).
func c20poison(o ugo.Object) {
	switch t := o.(type) {
	case ugo.Map:
		for _, v := range t {
			c20poison(v)
		}
		t["poison"] = ugo.Int(666)
	case *ugo.SyncMap:
		if t.Value != nil {
			t.Value["poison"] = ugo.Int(666)
		}
	case ugo.Array:
		for i, v := range t {
			c20poison(v)
			t[i] = ugo.String("poison")
		}
	case ugo.Bytes:
		for i := range t {
			t[i] = 0x66
		}
	}
}

func c20poisonGo(g any) {
	switch t := g.(type) {
	case map[string]any:
		for _, v := range t {
			c20poisonGo(v)
		}
		t["poison"] = int64(666)
	case []any:
		for i, v := range t {
			c20poisonGo(v)
			t[i] = "poison"
		}
	case []byte:
		for i := range t {
			t[i] = 0x66
		}
	}
}

// c20emptyish builds (fresh on every call) the k-th Go value made of empty / nil containers.
func c20emptyish(k int) (string, any) {
	switch k {
	case 0:
		return "map[string]any{}", map[string]any{}
	case 1:
		return "map[string]any(nil)", map[string]any(nil)
	case 2:
		return "map[string]Object{}", map[string]ugo.Object{}
	case 3:
		return "map[string]Object(nil)", map[string]ugo.Object(nil)
	case 4:
		return "[]any{}", []any{}
	case 5:
		return "[]any(nil)", []any(nil)
	case 6:
		return "[]Object{}", []ugo.Object{}
	case 7:
		return "[]Object(nil)", []ugo.Object(nil)
	case 8:
		return "[]byte{}", []byte{}
	case 9:
		return "[]byte(nil)", []byte(nil)
	case 10:
		return "[]any{map{}, []any{}, []byte{}}", []any{map[string]any{}, []any{}, []byte{}}
	case 11:
		return "map{a: map{}, b: []any{}, c: map(nil), d: []any(nil)}", map[string]any{"a": map[string]any{}, "b": []any{}, "c": map[string]any(nil), "d": []any(nil)}
	case 12:
		return "[]any{map[string]Object(nil), []Object(nil), []byte(nil)}", []any{map[string]ugo.Object(nil), []ugo.Object(nil), []byte(nil)}
	case 13:
		return "map[string]any{x: 1}", map[string]any{"x": int64(1)}
	case 14:
		return "[]any{1}", []any{int64(1)}
	}
	return "", nil
}

// aliasProbe: a conversion result that was written to must not influence any later conversion.
func (x *c20run) aliasProbe(k1, k2 int) {
	l1, _ := c20emptyish(k1)
	l2, _ := c20emptyish(k2)
	in := "convert " + l1 + ", write into the result, then convert " + l2
	x.w = c20wit{Kind: "alias", Seed: uint64(k1), TypIdx: k2, Input: in}
	for _, alt := range []bool{false, true} {
		fn := c20fname(alt)
		_, g1 := c20emptyish(k1)
		o1, err, ok := x.toObj(alt, g1)
		if !ok || err != nil {
			continue
		}
		c20poison(o1)
		_, g2 := c20emptyish(k2)
		_, want := c20emptyish(k2)
		o2, err, ok := x.toObj(alt, g2)
		if !ok || err != nil {
			continue
		}
		if strings.Contains(canon.Value(o2), "poison") {
			x.viol("C20|alias|"+fn+"|"+l2, fn+" returns an object shared with an earlier conversion result (a write to that result shows up)", fn, canon.Value(o2), in)
			continue
		}
		back, ok := x.toIface(o2)
		if !ok {
			continue
		}
		if _, isObjMap := want.(map[string]ugo.Object); !isObjMap {
			if _, isObjArr := want.([]ugo.Object); !isObjArr && k2 != 12 {
				if d := c20goEq(want, back, alt, "$"); d != "" {
					x.viol("C20|alias|"+fn+"|"+c20class(d), "Go value changed by a round trip made after an earlier result was written to: "+d, fn, c20goRender(back), in)
					continue
				}
			}
		}
		// the Go side: results of ToInterface are independent as well
		c20poisonGo(back)
		o3, _, _ := x.toObj(alt, func() any { _, g := c20emptyish(k2); return g }())
		if b3, ok := x.toIface(o3); ok {
			if strings.Contains(c20goRender(b3), "poison") {
				x.viol("C20|alias|ToInterface|"+l2, "ToInterface returns a Go value shared with an earlier result", "ToInterface", c20goRender(b3), in)
				continue
			}
		}
		x.c.Count("alias_probes_" + fn)
	}
}

func (m c20) Run(c *core.Ctx) {
	x := &c20run{c: c}
	table := c20table()
	uns := c20unsupported()
	regs := c20registryFixed()
	odd := c20odd()

	if c.Replay != nil {
		var w c20wit
		if err := json.Unmarshal(c.Replay, &w); err != nil {
			// crash witnesses carry {"case": "<desc>"}; the description starts with "kind seed=..."
			c.Inconclusive("replay: witness is not a C20 witness: " + err.Error())
			return
		}
		if w.Kind == "" {
			var cw struct {
				Case string `json:"case"`
			}
			_ = json.Unmarshal(c.Replay, &cw)
			var k string
			var s uint64
			if n, _ := fmt.Sscanf(cw.Case, "%s seed=%d", &k, &s); n == 2 {
				w.Kind, w.Seed = k, s
			} else if f := strings.SplitN(cw.Case, " ", 2); len(f) == 2 {
				w.Kind, w.Label = f[0], strings.SplitN(f[1], " :: ", 2)[0]
			}
		}
		switch w.Kind {
		case "deep":
			x.caseDeep(int(w.Seed), w.TypIdx)
		case "alias":
			x.aliasProbe(int(w.Seed), w.TypIdx)
		case "ugo":
			x.caseUgo(w.Seed, nil)
		case "go":
			x.caseGo(w.Seed, nil)
		case "plant-registry":
			x.caseGoRegistry(w.Seed, nil)
		case "plant-unsupported":
			x.caseGoUnsupported(w.Seed, uns, nil)
		case "table-random":
			x.numRow(c20mkNum(w.TypIdx, w.Bits), "table-random", w.Bits, w.TypIdx)
		case "table":
			for _, n := range table {
				if w.Label == "" || n.typ == w.Label {
					x.numRow(n, "table", 0, 0)
				}
			}
		case "unsupported":
			for _, u := range uns {
				if w.Label == "" || u.label == w.Label {
					x.unsupportedRow(u)
				}
			}
		case "registry":
			for _, u := range regs {
				if w.Label == "" || u.label == w.Label {
					x.registryRow(u)
				}
			}
		case "odd":
			for _, u := range odd {
				if w.Label == "" || u.label == w.Label {
					x.oddRow(u)
				}
			}
		default:
			c.Inconclusive("replay: unknown witness kind " + strconv.Quote(w.Kind))
		}
		return
	}

	// ---- fixed enumerations, partitioned over the batches
	idx := 0
	mine := func() bool { idx++; return idx%c.NBatch == c.Batch }
	for _, n := range table {
		n := n
		if !mine() {
			continue
		}
		if !c.Begin(func() string { return fmt.Sprintf("table %s :: %v", n.typ, n.v) }) {
			continue
		}
		x.numRow(n, "table", 0, 0)
	}
	for _, u := range uns {
		u := u
		if !mine() {
			continue
		}
		if !c.Begin(func() string { return "unsupported " + u.label + " :: " + fmt.Sprintf("%T", u.v) }) {
			continue
		}
		x.unsupportedRow(u)
	}
	for _, u := range regs {
		u := u
		if !mine() {
			continue
		}
		if !c.Begin(func() string { return "registry " + u.label + " :: " + c20goRender(u.v) }) {
			continue
		}
		x.registryRow(u)
	}
	for _, u := range odd {
		u := u
		if !mine() {
			continue
		}
		if !c.Begin(func() string { return "odd " + u.label + " :: " + fmt.Sprintf("%T", u.v) }) {
			continue
		}
		x.oddRow(u)
	}

	for _, d := range c20deepDepths {
		for shape := 0; shape < 4; shape++ {
			d, shape := d, shape
			if !mine() {
				continue
			}
			if !c.Begin(func() string { return fmt.Sprintf("deep seed=%d shape=%d", d, shape) }) {
				continue
			}
			x.caseDeep(d, shape)
			c.Nontrivial(fmt.Sprintf("deep-%d-%d", d, shape))
		}
	}

	for k1 := 0; k1 < 15; k1++ {
		for k2 := 0; k2 < 15; k2++ {
			k1, k2 := k1, k2
			if !mine() {
				continue
			}
			if !c.Begin(func() string { return fmt.Sprintf("alias seed=%d k2=%d", k1, k2) }) {
				continue
			}
			x.aliasProbe(k1, k2)
			c.Nontrivial(fmt.Sprintf("alias-%d-%d", k1, k2))
		}
	}

	// ---- seeded random part (per batch: 6250 values x scale).
	scale := c.Pick(1, 100)
	nUgo, nGo, nReg, nUns, nTab := 2400*scale, 2400*scale, 600*scale, 500*scale, 350*scale
	type kindRun struct {
		name string
		n    int
		run  func(seed uint64, desc *string)
	}
	runs := []kindRun{
		{"ugo", nUgo, x.caseUgo},
		{"go", nGo, x.caseGo},
		{"plant-registry", nReg, x.caseGoRegistry},
		{"plant-unsupported", nUns, func(s uint64, d *string) { x.caseGoUnsupported(s, uns, d) }},
	}
	for _, kr := range runs {
		kr := kr
		for i := 0; i < kr.n; i++ {
			seed := c.Rng.Uint64() // exactly one draw per case, executed or skipped
			if !c.Begin(func() string {
				var d string
				kr.run(seed, &d)
				return kr.name + " seed=" + strconv.FormatUint(seed, 10) + " :: " + d
			}) {
				continue
			}
			kr.run(seed, nil)
		}
	}
	for i := 0; i < nTab; i++ {
		seed := c.Rng.Uint64()
		r := &c20rng{s: seed}
		t := r.n(len(c20numTypes))
		bits := r.u64()
		switch r.n(4) {
		case 0:
			bits = uint64(r.n(300)) // small
		case 1:
			bits = uint64(-int64(r.n(300))) // small negative / near max-unsigned
		case 2:
			bits = uint64(1)<<uint(r.n(64)) - uint64(r.n(2)) // around a power of two
		}
		n := c20mkNum(t, bits)
		n.edge = false
		if !c.Begin(func() string { return fmt.Sprintf("table-random seed=%d :: %s(%v)", seed, n.typ, n.v) }) {
			continue
		}
		x.numRow(n, "table-random", bits, t)
	}
}
