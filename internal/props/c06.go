package props

import (
	"encoding/json"
	"errors"
	"fmt"
	"runtime/debug"
	"strings"
	"time"

	"github.com/ozanh/ugo"
	"github.com/ozanh/ugo/token"

	"verif/internal/canon"
	"verif/internal/core"
	"verif/internal/gen"
)

// C06 — with recovery enabled, running a script never panics the host.
type c06 struct{}

func init() { core.Register(c06{}) }

func (c06) ID() string    { return "C06" }
func (c06) Level() string { return "exploration" }
func (c06) Race() bool    { return false }
func (c06) Rule() string {
	return "VM.SetRecover(true).Run is executed under recover() in the harness; oracle: no panic reaches the harness, the result is value xor error, and the SAME VM then runs a known script to its known result " +
		"(after SetBytecode, and again after Clear). Workload: EXHAUSTIVE matrix of ~45 fault expressions (zero division/remainder, negative shifts, out-of-range index/slice, non-callable, wrong arity, non-iterable, " +
		"unbounded recursion, value-stack-edge literals of 2035..2055 elements, Go callbacks panicking with string/error/runtime.Error/custom/nil, a custom Object whose BinaryOp/IndexGet/IndexSet/Call/Iterate/String/Equal/IsFalsy panic) " +
		"x 11 contexts (plain, in try, in catch, in finally, in a callee, in a loop of try, on a pooled child VM through an Invoker, in a strings.Map callback, at recursion depth 10/1000/1021/1022/1023) " +
		"+ seeded generated programs with injected faults. non-trivial = the run raised an error or recovered a panic; distinct by (fault, context) or source hash"
}
func (c06) Batches(string) int { return 32 }
func (c06) Required(string) []string {
	return []string{"runs", "matrix_runs", "generated_runs", "outcome_error", "outcome_value", "followup_ok", "callback_panics_raised", "object_method_panics_raised", "ctx.invoker", "ctx.finally", "ctx.deep1023", "delivery_pairs", "host_invocations", "argcount_runs"}
}
func (c06) Assumptions() []string {
	return []string{"Go stack exhaustion through unbounded NATIVE recursion (cyclic containers) is outside the property's budget and not generated", "Go callbacks honour the Object contract (never return nil object with nil error)"}
}

// hostile is a custom Object whose every method panics.
type hostile struct{ ugo.ObjectImpl }

func (*hostile) TypeName() string { return "hostile" }
func (*hostile) String() string   { panic("hostile.String") }
func (*hostile) BinaryOp(token.Token, ugo.Object) (ugo.Object, error) {
	panic(errors.New("hostile.BinaryOp"))
}
func (*hostile) IsFalsy() bool         { panic("hostile.IsFalsy") }
func (*hostile) Equal(ugo.Object) bool { panic("hostile.Equal") }
func (*hostile) Call(...ugo.Object) (ugo.Object, error) {
	var m map[string]int
	m["x"] = 1 // runtime.Error
	return nil, nil
}
func (*hostile) CanCall() bool                           { return true }
func (*hostile) Iterate() ugo.Iterator                   { panic("hostile.Iterate") }
func (*hostile) CanIterate() bool                        { return true }
func (*hostile) IndexGet(ugo.Object) (ugo.Object, error) { panic("hostile.IndexGet") }
func (*hostile) IndexSet(_, _ ugo.Object) error          { panic("hostile.IndexSet") }

type customPanic struct{ n int }

// error values that fault when they are inspected: a typed-nil pointer whose Error dereferences the receiver, and an
// error whose Error method panics itself. A callback that panics with one of these is still just a panicking callback.
type derefErr struct{ msg string }

func (e *derefErr) Error() string { return e.msg }

type panickyErr struct{}

func (panickyErr) Error() string { panic("panickyErr.Error") }

type c06stats struct {
	callbackPanics int
	objectPanics   int
}

func c06globals(st *c06stats) ugo.Map {
	g := ugo.Map{
		"zero": ugo.Int(0), "neg": ugo.Int(-3), "arr": ugo.Array{ugo.Int(1), ugo.Int(2)}, "G": ugo.Int(3),
		"OBJ": &hostile{},
		"PANICSTR": &ugo.Function{Name: "PANICSTR", Value: func(...ugo.Object) (ugo.Object, error) {
			st.callbackPanics++
			panic("callback string panic")
		}},
		"PANICERR": &ugo.Function{Name: "PANICERR", Value: func(...ugo.Object) (ugo.Object, error) {
			st.callbackPanics++
			panic(errors.New("callback error panic"))
		}},
		"PANICRT": &ugo.Function{Name: "PANICRT", Value: func(...ugo.Object) (ugo.Object, error) {
			st.callbackPanics++
			var a []int
			_ = a[5]
			return ugo.Undefined, nil
		}},
		"PANICCUSTOM": &ugo.Function{Name: "PANICCUSTOM", Value: func(...ugo.Object) (ugo.Object, error) {
			st.callbackPanics++
			panic(customPanic{7})
		}},
		"PANICNIL": &ugo.Function{Name: "PANICNIL", Value: func(...ugo.Object) (ugo.Object, error) {
			st.callbackPanics++
			var e error
			panic(e)
		}},
		"PANICTYPEDNIL": &ugo.Function{Name: "PANICTYPEDNIL", Value: func(...ugo.Object) (ugo.Object, error) {
			st.callbackPanics++
			var e *derefErr
			panic(e)
		}},
		"PANICBADERR": &ugo.Function{Name: "PANICBADERR", Value: func(...ugo.Object) (ugo.Object, error) {
			st.callbackPanics++
			panic(panickyErr{})
		}},
		"PANICNILRTE": &ugo.Function{Name: "PANICNILRTE", Value: func(...ugo.Object) (ugo.Object, error) {
			st.callbackPanics++
			var e *ugo.RuntimeError
			panic(e)
		}},
		"ERRFN": &ugo.Function{Name: "ERRFN", Value: func(...ugo.Object) (ugo.Object, error) {
			return nil, errors.New("plain go error")
		}},
	}
	// a callback that aborts the VM it runs on and then panics / fails (a watchdog firing while a slow callback is about
	// to blow up): the run ends with an error or a value, never with a panic, and the VM stays usable
	g["ABORTPANIC"] = &ugo.Function{Name: "ABORTPANIC", ValueEx: func(c ugo.Call) (ugo.Object, error) {
		st.callbackPanics++
		if vm := c.VM(); vm != nil {
			vm.Abort()
		}
		panic("panic after Abort")
	}}
	g["ABORTERR"] = &ugo.Function{Name: "ABORTERR", ValueEx: func(c ugo.Call) (ugo.Object, error) {
		if vm := c.VM(); vm != nil {
			vm.Abort()
		}
		return nil, errors.New("error after Abort")
	}}
	g["INVOKE"] = &ugo.Function{Name: "INVOKE", ValueEx: func(c ugo.Call) (ugo.Object, error) {
		if c.Len() < 1 {
			return ugo.Undefined, nil
		}
		inv := ugo.NewInvoker(c.VM(), c.Get(0))
		inv.Acquire()
		defer inv.Release()
		return inv.Invoke()
	}}
	return g
}

var c06faults = []string{
	"1 / zero", "1 % zero", "1u % uint(zero)", "'a' % char(zero)", "true % zero", "1.5 / zero", "1 << neg", "1 >> neg", "'a' << char(neg)", "true << neg",
	"arr[99]", "arr[-1]", "arr[9223372036854775807]", "arr[1:0]", "arr[0:99]", "\"abc\"[5:]", "arr[-1:]", "bytes(1, 2)[0:9]", "{a: 1}.a.b.c", "1[0]",
	"undefined()", "(5)(1)", "undefined.a.b()", "func(a) { return a }(1, 2, 3)", "func(a, ...b) { return a }()", "func(a) { return a }(...5)",
	"func() { for x in 5 { } }()", "int(\"zz\")", "len()", "error()", "\"s\" - 1", "undefined + 1", "[1] < [2]",
	"PANICSTR()", "PANICERR()", "PANICRT()", "PANICCUSTOM()", "PANICNIL()", "PANICTYPEDNIL()", "PANICBADERR()", "PANICNILRTE()", "ERRFN()", "ABORTPANIC()", "ABORTERR()",
	"OBJ + 1", "1 + OBJ", "OBJ.x", "OBJ[0]", "OBJ()", "OBJ.meth(1)", "func() { for x in OBJ { } }()", "string(OBJ)", "OBJ == 1", "!OBJ", "func() { OBJ.x = 1 }()",
	"func() { var r; r = func() { return r() + 1 }; return r() }()",
	"func() { var r; r = func(a, b, c, d, e, f, g, h) { x1 := a; x2 := b; x3 := c; return r(x1, x2, x3, d, e, f, g, h) + 1 }; return r(1, 2, 3, 4, 5, 6, 7, 8) }()",
	"func() { var r; r = func() { try { return r() + 1 } finally { zero = 0 } }; return r() }()",
	"func() { var r; r = func(a, b, c, d, e, f, g, h) { x1 := a; x2 := b; x3 := c; try { return 1 + r(x1, x2, x3, d, e, f, g, h) } catch ee { return -1 } }; return r(1, 2, 3, 4, 5, 6, 7, 8) }()",
	"func() { var r; r = func(a, b, c, d, e, f, g, h, i, j, k, l) { try { return [a, b, c, d, e, f, g, h, i, j, k, l, r(a, b, c, d, e, f, g, h, i, j, k, l)] } catch ee { return -1 } finally { zero = 0 } }; return r(1, 2, 3, 4, 5, 6, 7, 8, 9, 10, 11, 12) }()",
	"func() { var r; r = func() { try { throw \"t\" } catch e { return r() + 1 } }; return r() }()",
	// the frame limit is reached with a try/catch in every activation: the deepest frame catches the overflow itself
	"func() { var r; r = func() { try { return r() + 1 } catch e { return 0 } }; return r() }()",
	"func() { var r; r = func(n) { try { return r(n + 1) + 1 } catch e { throw e } }; return r(0) }()",
	"func() { var r; r = func(n) { try { return r(n + 1) + 1 } catch e { return n } finally { zero = 0 } }; return r(0) }()",
	"func() { var r; r = func(n) { try { r(n + 1) } catch e { zero = n } return n }; return r(0) }()",
	"func() { var r; r = func(n) { for { try { return r(n + 1) } catch e { break } }; return n }; return r(0) }()",
	"throwing()",
}

func c06wide(n int) string {
	return "len([" + strings.TrimSuffix(strings.Repeat("0, ", n), ", ") + "])"
}

type c06ctx struct {
	name string
	tmpl string // %s = fault expression
}

var c06contexts = []c06ctx{
	{"plain", "global (zero, neg, arr, G, OBJ, PANICSTR, PANICERR, PANICRT, PANICCUSTOM, PANICNIL, PANICTYPEDNIL, PANICBADERR, PANICNILRTE, ERRFN, INVOKE, ABORTPANIC, ABORTERR)\nthrowing := func() { throw error(\"thrown\") }\nreturn %s\n"},
	{"try", "global (zero, neg, arr, G, OBJ, PANICSTR, PANICERR, PANICRT, PANICCUSTOM, PANICNIL, PANICTYPEDNIL, PANICBADERR, PANICNILRTE, ERRFN, INVOKE, ABORTPANIC, ABORTERR)\nthrowing := func() { throw error(\"thrown\") }\ntry {\n  return %s\n} catch e {\n  return \"caught:\" + e.Name\n}\n"},
	// main has no local variable at all: the handler's saved stack position is the very bottom of the stack
	{"nolocals-try", "global (zero, neg, arr, G, OBJ, PANICSTR, PANICERR, PANICRT, PANICCUSTOM, PANICNIL, PANICTYPEDNIL, PANICBADERR, PANICNILRTE, ERRFN, INVOKE, ABORTPANIC, ABORTERR)\ntry {\n  return %s\n} catch {\n  return \"caught\"\n}\n"},
	{"nolocals-finally", "global (zero, neg, arr, G, OBJ, PANICSTR, PANICERR, PANICRT, PANICCUSTOM, PANICNIL, PANICTYPEDNIL, PANICBADERR, PANICNILRTE, ERRFN, INVOKE, ABORTPANIC, ABORTERR)\ntry {\n  %s\n} finally {\n  G = 9\n}\n"},
	{"catch", "global (zero, neg, arr, G, OBJ, PANICSTR, PANICERR, PANICRT, PANICCUSTOM, PANICNIL, PANICTYPEDNIL, PANICBADERR, PANICNILRTE, ERRFN, INVOKE, ABORTPANIC, ABORTERR)\nthrowing := func() { throw error(\"thrown\") }\ntry {\n  throw \"x\"\n} catch e {\n  return %s\n}\n"},
	{"finally", "global (zero, neg, arr, G, OBJ, PANICSTR, PANICERR, PANICRT, PANICCUSTOM, PANICNIL, PANICTYPEDNIL, PANICBADERR, PANICNILRTE, ERRFN, INVOKE, ABORTPANIC, ABORTERR)\nthrowing := func() { throw error(\"thrown\") }\ntry {\n  return 1\n} finally {\n  %s\n}\n"},
	{"callee", "global (zero, neg, arr, G, OBJ, PANICSTR, PANICERR, PANICRT, PANICCUSTOM, PANICNIL, PANICTYPEDNIL, PANICBADERR, PANICNILRTE, ERRFN, INVOKE, ABORTPANIC, ABORTERR)\nthrowing := func() { throw error(\"thrown\") }\nf := func() {\n  return %s\n}\ng := func() {\n  try {\n    return f()\n  } finally {\n    G = 4\n  }\n}\nreturn g()\n"},
	{"looptry", "global (zero, neg, arr, G, OBJ, PANICSTR, PANICERR, PANICRT, PANICCUSTOM, PANICNIL, PANICTYPEDNIL, PANICBADERR, PANICNILRTE, ERRFN, INVOKE, ABORTPANIC, ABORTERR)\nthrowing := func() { throw error(\"thrown\") }\nn := 0\nfor i := 0; i < 3; i++ {\n  try {\n    %s\n  } catch {\n    n++\n  }\n}\nreturn n\n"},
	{"invoker", "global (zero, neg, arr, G, OBJ, PANICSTR, PANICERR, PANICRT, PANICCUSTOM, PANICNIL, PANICTYPEDNIL, PANICBADERR, PANICNILRTE, ERRFN, INVOKE, ABORTPANIC, ABORTERR)\nthrowing := func() { throw error(\"thrown\") }\nreturn INVOKE(func() {\n  return %s\n})\n"},
	{"stringsmap", "global (zero, neg, arr, G, OBJ, PANICSTR, PANICERR, PANICRT, PANICCUSTOM, PANICNIL, PANICTYPEDNIL, PANICBADERR, PANICNILRTE, ERRFN, INVOKE, ABORTPANIC, ABORTERR)\nthrowing := func() { throw error(\"thrown\") }\nstrings := import(\"strings\")\nreturn strings.Map(func(c) {\n  return %s\n}, \"ab\")\n"},
	{"deep10", "global (zero, neg, arr, G, OBJ, PANICSTR, PANICERR, PANICRT, PANICCUSTOM, PANICNIL, PANICTYPEDNIL, PANICBADERR, PANICNILRTE, ERRFN, INVOKE, ABORTPANIC, ABORTERR)\nthrowing := func() { throw error(\"thrown\") }\nvar r\nr = func(n) {\n  if n == 0 {\n    return %s\n  }\n  return r(n - 1) + 1\n}\nreturn r(10)\n"},
	{"deep1000", "global (zero, neg, arr, G, OBJ, PANICSTR, PANICERR, PANICRT, PANICCUSTOM, PANICNIL, PANICTYPEDNIL, PANICBADERR, PANICNILRTE, ERRFN, INVOKE, ABORTPANIC, ABORTERR)\nthrowing := func() { throw error(\"thrown\") }\nvar r\nr = func(n) {\n  if n == 0 {\n    return %s\n  }\n  return r(n - 1) + 1\n}\ntry {\n  return r(1000)\n} catch e {\n  return e.Name\n}\n"},
	{"deep1021", "global (zero, neg, arr, G, OBJ, PANICSTR, PANICERR, PANICRT, PANICCUSTOM, PANICNIL, PANICTYPEDNIL, PANICBADERR, PANICNILRTE, ERRFN, INVOKE, ABORTPANIC, ABORTERR)\nthrowing := func() { throw error(\"thrown\") }\nvar r\nr = func(n) {\n  if n == 0 {\n    return %s\n  }\n  return r(n - 1) + 1\n}\nreturn r(1020)\n"},
	{"deep1022", "global (zero, neg, arr, G, OBJ, PANICSTR, PANICERR, PANICRT, PANICCUSTOM, PANICNIL, PANICTYPEDNIL, PANICBADERR, PANICNILRTE, ERRFN, INVOKE, ABORTPANIC, ABORTERR)\nthrowing := func() { throw error(\"thrown\") }\nvar r\nr = func(n) {\n  if n == 0 {\n    return %s\n  }\n  return r(n - 1) + 1\n}\nreturn r(1021)\n"},
	{"deep1023", "global (zero, neg, arr, G, OBJ, PANICSTR, PANICERR, PANICRT, PANICCUSTOM, PANICNIL, PANICTYPEDNIL, PANICBADERR, PANICNILRTE, ERRFN, INVOKE, ABORTPANIC, ABORTERR)\nthrowing := func() { throw error(\"thrown\") }\nvar r\nr = func(n) {\n  if n == 0 {\n    return %s\n  }\n  return r(n - 1) + 1\n}\ntry {\n  return r(1022)\n} finally {\n  G = 5\n}\n"},
}

type c06wit struct {
	Src     string `json:"src"`
	Fault   string `json:"fault,omitempty"`
	Context string `json:"context,omitempty"`
	Why     string `json:"why"`
	Detail  string `json:"detail,omitempty"`
}

var c06known *ugo.Bytecode

func c06knownBC() *ugo.Bytecode {
	if c06known == nil {
		// the follow-up script also lets errors escape functions at call depth 1, 2 and 3 (uncaught there, caught by main):
		// handlers or flags left in those frames by the previous run must not interfere
		bc, err := ugo.Compile([]byte("param x\nf := func(a) {\n  return a * a\n}\nr := 0\ntry {\n  r = f(x)\n} finally {\n  r += 1\n}\nout := []\nfor i := 0; i < 3; i++ {\n  out = append(out, i)\n}\n"+
			"t1 := func() {\n  throw error(\"d1\")\n}\nt2 := func() {\n  v := t1()\n  return v\n}\nt3 := func() {\n  v := t2()\n  return v\n}\nmsgs := []\nfor g in [t1, t2, t3] {\n  try {\n    g()\n  } catch e {\n    msgs = append(msgs, e.Message)\n  }\n}\nplain := func(n) {\n  return n + 1\n}\n"+
			"if x < 0 {\n  throw error(\"uncaught-main\")\n}\nfor j := 0; j < 2; j++ {\n  try {\n    if j == 1 {\n      break\n    }\n  } finally {\n    r += 0\n  }\n}\ntry {\n  return [r, out, msgs, plain(1), plain(plain(1))]\n} finally {\n  r = 0\n}\n"), ugo.CompilerOptions{})
		if err != nil {
			panic(err)
		}
		c06known = bc
	}
	return c06known
}

const c06knownWant = "[i:26,[i:0,i:1,i:2],[s:\"d1\",s:\"d1\",s:\"d1\"],i:2,i:3]"

// c06run executes one script under the host-panic monitor and the follow-up probes.
func (m c06) run(c *core.Ctx, src, fault, context string, mm *ugo.ModuleMap, args []ugo.Object) (nontrivial bool) {
	wit := func(why, detail string) c06wit {
		return c06wit{Src: src, Fault: fault, Context: context, Why: why, Detail: trunc(detail, 1500)}
	}
	cr := safeCompile([]byte(src), ugo.CompilerOptions{ModuleMap: mm, NoOptimize: true})
	if cr.panicv != "" {
		c.Count("compile_panic_seen")
		return false
	}
	if cr.err != nil {
		c.Count("discarded_compile_error")
		c.SetAdd("compile_errors", trunc(core.NormMsg(cr.err.Error()), 80))
		return false
	}
	st := &c06stats{}
	g := c06globals(st)
	rec := &canon.Recorder{}
	g["L"] = rec.Func()
	vm := ugo.NewVM(cr.bc).SetRecover(true)
	var val ugo.Object
	var err error
	var pan any
	var stack string
	done := make(chan struct{})
	go func() {
		defer close(done)
		defer func() {
			if r := recover(); r != nil {
				pan = r
				stack = string(debug.Stack())
			}
		}()
		val, err = vm.Run(g, args...)
	}()
	select {
	case <-done:
	case <-time.After(30 * time.Second):
		vm.Abort()
		<-done
		c.Inconclusive("watchdog fired: " + fault + " @" + context)
		return false
	}
	c.Count("runs")
	c.CountN("callback_panics_raised", int64(st.callbackPanics))
	if strings.Contains(fault, "OBJ") {
		c.Count("object_method_panics_raised")
	}
	if pan != nil {
		c.Violation("C06|host-panic|"+stackTopRepo(stack)+"|"+core.NormMsg(fmt.Sprint(pan)), "panic escaped VM.Run with recovery enabled: "+trunc(fmt.Sprint(pan), 200), wit("host panic", fmt.Sprint(pan)+"\n"+stack))
		return true
	}
	if strings.HasPrefix(fault, "ABORT") && context != "invoker" && context != "stringsmap" && err == nil {
		// the callback aborted the VM that runs the script (and then panicked / failed): the run cannot end with a value
		c.Violation("C06|abort-lost-in-recovery|"+context, "a callback aborted the VM and then failed; Run returned the value "+trunc(canon.Value(val), 80)+" and no error", wit("value after Abort + failure in a callback", canon.Value(val)))
		return true
	}
	switch {
	case err != nil:
		c.Count("outcome_error")
		n, _ := canon.ErrParts(err)
		c.Count("errname." + strings.TrimPrefix(n, "wrapped:"))
		nontrivial = true
	case val == nil:
		c.Violation("C06|nil-nil", "Run returned neither a value nor an error", wit("nil value and nil error", ""))
		return true
	default:
		c.Count("outcome_value")
		if s := canon.Value(val); strings.HasPrefix(s, "s:\"caught:") || st.callbackPanics > 0 {
			nontrivial = true
		}
	}
	// follow-up on the same VM
	// stages 0/1: the known script with x = 5 (after SetBytecode, after Clear); stages 2/3: the same with x = -1, where the
	// script ends with an error raised at main level outside every try statement, which Run must return
	for stage := 0; stage < 4; stage++ {
		if stage%2 == 1 {
			vm.Clear()
		}
		arg, want := ugo.Int(5), c06knownWant
		if stage >= 2 {
			arg, want = ugo.Int(-1), "error: error: uncaught-main"
		}
		var v2 ugo.Object
		var e2 error
		var p2 any
		hung := false
		fdone := make(chan struct{})
		go func() {
			defer close(fdone)
			defer func() {
				if r := recover(); r != nil {
					p2 = r
				}
			}()
			v2, e2 = vm.SetBytecode(c06knownBC()).Run(nil, arg)
		}()
		// the known script finishes in microseconds on a healthy VM; 20 s is six orders of magnitude of slack.
		// The verdict "hung" is only given when the VM then answers Abort with ErrVMAborted, i.e. its loop was
		// demonstrably still executing instructions (a starved goroutine would instead finish normally).
		select {
		case <-fdone:
		case <-time.After(20 * time.Second):
			vm.Abort()
			select {
			case <-fdone:
				hung = e2 == ugo.ErrVMAborted
				if !hung {
					c.Inconclusive("follow-up run slow but finished: " + fault + " @" + context)
				}
			case <-time.After(20 * time.Second):
				c.Violation("C06|followup|unabortable-hang", "the follow-up run of a known terminating script hangs and does not react to Abort", wit("follow-up hang", ""))
				return true
			}
		}
		got := ""
		switch {
		case hung:
			got = "hang: the known terminating script was still executing after 20 s (stopped by Abort)"
		case p2 != nil:
			got = "panic: " + fmt.Sprint(p2)
		case e2 != nil:
			got = "error: " + strings.SplitN(e2.Error(), "\n", 2)[0]
		default:
			got = canon.Value(v2)
		}
		if got != want {
			stg := []string{"after-SetBytecode", "after-Clear", "uncaught-after-SetBytecode", "uncaught-after-Clear"}[stage]
			c.Violation("C06|followup|"+stg+"|"+core.NormMsg(got), "the VM does not run a known script correctly afterwards ("+stg+"): got "+trunc(got, 200), wit("follow-up run wrong "+stg, got))
			return true
		}
		c.Count("followup_ok")
	}
	return nontrivial
}

const c06hdr = "global (zero, neg, arr, G, OBJ, PANICSTR, PANICERR, PANICRT, PANICCUSTOM, PANICNIL, PANICTYPEDNIL, PANICBADERR, PANICNILRTE, ERRFN, INVOKE, ABORTPANIC, ABORTERR)\nthrowing := func() { throw error(\"thrown\") }\n"

// delivery: a fault raised inside a script function that has its own try/catch/finally is delivered to that catch and
// finally in the same way whether the function is called by the script, run on a child VM through an Invoker inside a Go
// callback, or invoked by the host itself through an Invoker after the run (recovery enabled on the VM in all cases).
func (m c06) delivery(c *core.Ctx, fault string, mm *ugo.ModuleMap) {
	fn := "f := func() {\n  try {\n    return " + fault + "\n  } catch e {\n    return \"caught:\" + e.Name\n  } finally {\n    G = G + 1\n  }\n}\n"
	type res struct {
		out string
		pan string
		vm  *ugo.VM
		val ugo.Object
	}
	runSrc := func(tail string) (r res, ok bool) {
		cr := safeCompile([]byte(c06hdr+fn+tail), ugo.CompilerOptions{ModuleMap: mm, NoOptimize: true})
		if cr.err != nil || cr.panicv != "" {
			return r, false
		}
		st := &c06stats{}
		g := c06globals(st)
		r.vm = ugo.NewVM(cr.bc).SetRecover(true)
		func() {
			defer func() {
				if x := recover(); x != nil {
					r.pan = fmt.Sprint(x)
				}
			}()
			v, err := r.vm.Run(g)
			r.val = v
			if err != nil {
				n, _ := canon.ErrParts(err)
				r.out = "error:" + n
			} else {
				r.out = "value:" + canon.Value(v)
			}
		}()
		return r, true
	}
	wit := func(why, detail string) c06wit {
		return c06wit{Src: c06hdr + fn, Fault: fault, Context: "delivery", Why: why, Detail: detail}
	}
	a, ok1 := runSrc("return [f(), G]")
	b, ok2 := runSrc("return [INVOKE(f), G]")
	if !ok1 || !ok2 {
		c.Count("discarded_compile_error")
		return
	}
	c.Count("delivery_pairs")
	if a.pan != "" || b.pan != "" {
		c.Violation("C06|host-panic|delivery|"+core.NormMsg(a.pan+b.pan), "panic escaped VM.Run with recovery enabled: "+trunc(a.pan+b.pan, 200), wit("host panic", a.pan+b.pan))
		return
	}
	if a.out != b.out {
		c.Violation("C06|delivery|invoker-differs", "a fault inside a function with its own try/catch/finally is handled differently when the function runs on a child VM: direct "+trunc(a.out, 120)+" / through Invoker "+trunc(b.out, 120), wit("direct vs Invoker", "direct: "+a.out+"\ninvoker: "+b.out))
		return
	}
	// the host invokes the function itself after the run
	d, ok3 := runSrc("return f()")
	h, ok4 := runSrc("return f")
	if !ok3 || !ok4 || h.val == nil || !h.val.CanCall() {
		return
	}
	c.Count("host_invocations")
	hostOut, hostPan := "", ""
	func() {
		defer func() {
			if x := recover(); x != nil {
				hostPan = fmt.Sprint(x)
			}
		}()
		inv := ugo.NewInvoker(h.vm, h.val)
		inv.Acquire()
		defer inv.Release()
		v, err := inv.Invoke()
		if err != nil {
			n, _ := canon.ErrParts(err)
			hostOut = "error:" + n
		} else {
			hostOut = "value:" + canon.Value(v)
		}
	}()
	if hostPan != "" {
		c.Violation("C06|host-panic|host-invoke|"+core.NormMsg(hostPan), "panic escaped Invoker.Invoke on a VM with recovery enabled: "+trunc(hostPan, 200), wit("host panic in Invoke", hostPan))
		return
	}
	if hostOut != d.out {
		c.Violation("C06|delivery|host-invoke-differs", "fault handled differently when the host invokes the function: in script "+trunc(d.out, 120)+" / host Invoke "+trunc(hostOut, 120), wit("direct vs host Invoke", "direct: "+d.out+"\nhost: "+hostOut))
	}
}

// c06syncScripts: a Go panic raised inside an operation on a *SyncMap (the globals themselves, or a SyncMap value): the key's
// String method panics while the map's lock is held.
var c06syncScripts = []string{
	"gl := globals()\ntry {\n  gl[OBJ] = 1\n} catch e {\n  return \"caught\"\n}\nreturn 0",
	"try {\n  return globals()[OBJ]\n} catch e {\n  return \"caught\"\n}",
	"try {\n  SM[OBJ] = 1\n} catch e {\n  return \"caught\"\n}\nreturn 0",
	"try {\n  return SM[OBJ]\n} catch e {\n  return \"caught\"\n}",
	"gl := globals()\ngl[OBJ] = 1\nreturn 1",
	"return SM[OBJ]",
	"try {\n  delete(SM, OBJ)\n} catch e {\n  return \"caught\"\n}\nreturn 0",
	"try {\n  return contains(SM, OBJ)\n} catch e {\n  return \"caught\"\n}",
	"try {\n  for k, v in SM {\n    PANICSTR()\n  }\n} catch e {\n  return \"caught\"\n}\nreturn 0",
	"try {\n  SM.a = OBJ + 1\n} catch e {\n  return \"caught\"\n}\nreturn 0",
	"try {\n  return string(SM) + string(OBJ)\n} catch e {\n  return \"caught\"\n}",
	"try {\n  return copy(SM)[OBJ]\n} catch e {\n  return \"caught\"\n}",
}

var c06syncOff bool

// syncRun: the run with *SyncMap globals, then a second script on the same VM with the same globals that reads and writes
// both SyncMaps. A lock left behind by the recovered panic shows as that second run never returning.
func (m c06) syncRun(c *core.Ctx, body string) {
	if c06syncOff {
		c.Count("skipped_after_syncmap_hang")
		return
	}
	src := "global (OBJ, SM, PANICSTR)\n" + body
	wit := c06wit{Src: src, Fault: "panic inside a SyncMap operation", Context: "syncmap-globals"}
	cr := safeCompile([]byte(src), ugo.CompilerOptions{NoOptimize: true})
	if cr.err != nil || cr.panicv != "" {
		c.Inconclusive("syncmap script does not compile: " + fmt.Sprint(cr.err) + cr.panicv)
		return
	}
	f2 := safeCompile([]byte("global (SM, x)\nx = 7\nSM.b = 2\nn := 0\nfor k, v in SM {\n  n++\n}\nreturn [x, SM.a, SM.b, globals()[\"x\"], n > 0]"), ugo.CompilerOptions{NoOptimize: true})
	if f2.err != nil {
		c.Inconclusive("syncmap follow-up does not compile")
		return
	}
	st := &c06stats{}
	g := &ugo.SyncMap{Value: c06globals(st)}
	g.Value["SM"] = &ugo.SyncMap{Value: ugo.Map{"a": ugo.Int(1)}}
	vm := ugo.NewVM(cr.bc).SetRecover(true)
	bounded := func(f func() (ugo.Object, error)) (v ugo.Object, err error, pan any, finished bool) {
		done := make(chan struct{})
		go func() {
			defer close(done)
			defer func() {
				if r := recover(); r != nil {
					pan = r
				}
			}()
			v, err = f()
		}()
		select {
		case <-done:
			return v, err, pan, true
		case <-time.After(15 * time.Second):
			vm.Abort()
			select {
			case <-done:
				return v, err, pan, true
			case <-time.After(5 * time.Second):
				return nil, nil, nil, false
			}
		}
	}
	v, err, pan, fin := bounded(func() (ugo.Object, error) { return vm.Run(g) })
	c.Count("syncmap_runs")
	if !fin {
		c06syncOff = true
		c.Violation("C06|syncmap|first-run-hang", "a run with *SyncMap globals whose key panics does not return (not even after Abort)", wit)
		return
	}
	if pan != nil {
		c.Violation("C06|host-panic|syncmap|"+core.NormMsg(fmt.Sprint(pan)), "panic escaped VM.Run with recovery enabled: "+trunc(fmt.Sprint(pan), 200), wit)
		return
	}
	if err == nil && v == nil {
		c.Violation("C06|nil-nil", "Run returned neither a value nor an error", wit)
		return
	}
	for stage := 0; stage < 2; stage++ {
		if stage == 1 {
			vm.Clear()
		}
		v2, e2, p2, fin2 := bounded(func() (ugo.Object, error) { return vm.SetBytecode(f2.bc).Run(g) })
		got := ""
		switch {
		case !fin2:
			got = "hang: a script reading and writing the same SyncMaps never returns (20 s, Abort ignored)"
			c06syncOff = true
		case p2 != nil:
			got = "panic: " + fmt.Sprint(p2)
		case e2 != nil:
			got = "error: " + strings.SplitN(e2.Error(), "\n", 2)[0]
		default:
			got = canon.Value(v2)
		}
		if want := "[i:7 i:1 i:2 i:7 b:true]"; got != want && !strings.HasPrefix(got, "[i:7") || !fin2 || p2 != nil || e2 != nil {
			w := wit
			w.Why, w.Detail = "follow-up on the same SyncMaps", got
			c.Violation("C06|followup|syncmap|"+core.NormMsg(strings.SplitN(got, ":", 2)[0]), "after a panic inside a SyncMap operation was recovered, a later script using the same SyncMaps does not run correctly: "+trunc(got, 160), w)
			return
		}
		c.Count("followup_ok")
	}
}

func (m c06) Run(c *core.Ctx) {
	mm := ugo.NewModuleMap()
	mm.Add("strings", stdlibModule("strings"))
	if c.Replay != nil {
		var w c06wit
		if json.Unmarshal(c.Replay, &w) == nil && w.Src != "" {
			m.run(c, w.Src, w.Fault, w.Context, mm, []ugo.Object{ugo.Int(1), ugo.Int(2)})
		}
		return
	}
	faults := append([]string{}, c06faults...)
	for n := 2035; n <= 2055; n += 2 {
		faults = append(faults, c06wide(n))
	}
	idx := 0
	for _, f := range faults {
		for _, cx := range c06contexts {
			idx++
			if idx%c.NBatch != c.Batch {
				continue
			}
			src := fmt.Sprintf(cx.tmpl, f)
			desc := trunc(f, 60) + " @" + cx.name
			if !c.Begin(func() string { return desc + "\n" + trunc(src, 4000) }) {
				continue
			}
			nt := m.run(c, src, trunc(f, 80), cx.name, mm, nil)
			c.Count("matrix_runs")
			c.Count("ctx." + cx.name)
			if nt {
				c.Nontrivial(desc)
			}
			if idx%97 == 0 {
				c.Sample(map[string]string{"fault": trunc(f, 80), "context": cx.name})
			}
		}
	}
	for si, body := range c06syncScripts {
		idx++
		if idx%c.NBatch != c.Batch {
			continue
		}
		body := body
		if !c.Begin(func() string { return "syncmap globals\n" + body }) {
			continue
		}
		m.syncRun(c, body)
		c.Nontrivial(fmt.Sprintf("syncmap %d", si))
	}
	for _, f := range c06faults {
		if strings.Contains(f, "var r;") {
			continue // depth-dependent: a child VM starts with an empty stack
		}
		if strings.HasPrefix(f, "ABORT") {
			continue // aborts the VM it runs on: the root in one case, the child in the other - not the same experiment
		}
		if f == "PANICNIL()" {
			// panic(nil) with the module's Go language version (< 1.21): recover() returns nil, no recovery code can tell
			// it from "no panic"; where the unwinding stops then depends on which deferred recover comes first. Not comparable.
			continue
		}
		idx++
		if idx%c.NBatch != c.Batch {
			continue
		}
		f := f
		if !c.Begin(func() string { return "delivery " + f }) {
			continue
		}
		m.delivery(c, f, mm)
		c.Nontrivial("delivery " + f)
	}
	// argument counts: fewer, as many and (many) more arguments than the script declares parameters / has local slots
	for si, src := range []string{
		"return 1", "param a\nreturn a", "param (a, b)\nreturn [a, b]", "param (a, b)\nx := a\ny := b\nz := 3\nreturn [x, y, z]",
		"param (...v)\nreturn v", "param (a, ...v)\nreturn [a, v]", "param (a, b, ...v)\nw := len(v)\nreturn [a, b, v, w]",
		"param a\nf := func(x, y) { return [x, y] }\nreturn f(a, a)", "global G\nparam a\ntry {\n  return a + 1\n} catch e {\n  return \"caught\"\n}",
	} {
		for nargs := 0; nargs <= 12; nargs++ {
			idx++
			if idx%c.NBatch != c.Batch {
				continue
			}
			src := src
			args := make([]ugo.Object, nargs)
			for i := range args {
				args[i] = []ugo.Object{ugo.Int(i), ugo.String("s"), ugo.Undefined, ugo.Array{ugo.Int(1)}, nil}[i%5]
				if args[i] == nil {
					args[i] = ugo.Float(1.5)
				}
			}
			if nargs == 12 {
				args = make([]ugo.Object, 3000) // more arguments than the value stack has slots
				for i := range args {
					args[i] = ugo.Int(i)
				}
			}
			if !c.Begin(func() string { return fmt.Sprintf("argument count %d for script %d\n%s", len(args), si, src) }) {
				continue
			}
			m.run(c, src, fmt.Sprintf("%d arguments", len(args)), "argcount", mm, args)
			c.Count("argcount_runs")
			c.Nontrivial(fmt.Sprintf("argcount-%d-%d", si, nargs))
		}
	}
	// generated programs with injected faults
	n := c.Pick(300, 100000)
	o := gen.Opts{MaxStmts: 24, MaxDepth: 4, ExprDepth: 3, Try: 0.5, Throw: 0.3, Funcs: 0.6, Shadow: 0.2, LogProb: 0.1,
		Consts: 0.1, Globals: true, DeepRecursion: 30, Faults: 0.04, TailRec: true}
	for i := 0; i < n; i++ {
		o.Params = c.Rng.Intn(3)
		gp := gen.Generate(c.Rng, o)
		args := make([]ugo.Object, o.Params)
		for j := range args {
			args[j] = []ugo.Object{ugo.Int(0), ugo.Int(-1), ugo.String("s"), ugo.Undefined, ugo.Array{}, ugo.Float(1.5), &hostile{}}[c.Rng.Intn(7)]
		}
		src := gp.Src
		if !c.Begin(func() string { return src }) {
			continue
		}
		nt := m.run(c, src, "", "generated", mm, args)
		c.Count("generated_runs")
		if nt {
			c.Nontrivial(src)
		}
	}
}
