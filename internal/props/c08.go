package props

import (
	"encoding/json"
	"fmt"
	"runtime"
	"strings"
	"sync"
	"sync/atomic"

	"github.com/ozanh/ugo"

	"verif/internal/canon"
	"verif/internal/core"
	"verif/internal/gen"
)

// C08 — many VMs may run one Bytecode concurrently.
type c08 struct{}

func init() { core.Register(c08{}) }

func (c08) ID() string    { return "C08" }
func (c08) Level() string { return "exploration" }
func (c08) Race() bool    { return true }
func (c08) Rule() string {
	return "one compiled (and, for half of the cases, encoded+decoded) Bytecode is run by N in {2,8,32} goroutines, each with its own VM (fresh per run, and re-used per goroutine) and its own globals, R times, under the Go race detector; " +
		"programs import stateful source modules and every builtin module, mutate module values, create closures, throw and FORMAT errors with stack traces from several source files (sprintf %+v), call back through pooled child VMs " +
		"(strings.Map/FieldsFunc/TrimFunc/IndexFunc and an Invoker callback), sort/append literals, fault with recovery on; plus seeded generated programs. Oracle: zero race reports; every concurrent outcome equals the outcome of the " +
		"same (bytecode, args) run alone; each VM writes its own id into imported builtin-module values (top level and nested) and into its globals and must always read its own id back; canonical dump of the Bytecode unchanged. " +
		"non-trivial = a (program, N) pair during which >=2 VMs were observed inside Run at the same time (in-flight counter in a global callback); distinct by (program, N, reuse)"
}
func (c08) Batches(string) int { return 16 }
func (c08) Required(string) []string {
	return []string{"concurrent_runs", "overlap_observed", "isolation_probes", "n.2", "n.8", "n.32", "decoded_bytecode", "vm_reused", "vm_fresh", "programs_generated", "programs_fixed", "error_outcomes_formatted"}
}
func (c08) Assumptions() []string {
	return []string{"only interleavings the scheduler produced are observed; the race detector reports a race only if both accesses execute in the run",
		"the harness shares nothing between goroutines except the Bytecode, an atomic in-flight counter and a mutex-protected result slice"}
}

var c08fixed = []struct {
	src  string
	mods map[string]string
	bm   []string
}{
	{"global (ID, TICK)\nTICK()\nm := import(\"state\")\nfor i := 0; i < 20; i++ {\n  m.inc()\n}\nTICK()\nreturn [ID, m.get()]", map[string]string{"state": "n := 0\nreturn {inc: func() { n++; return n }, get: func() { return n }}\n"}, nil},
	{"global (ID, TICK)\nTICK()\ns := import(\"strings\")\nt := import(\"time\")\nf := import(\"fmt\")\nj := import(\"json\")\ns.Marker = ID\ns.nested = {id: ID}\nt.Marker = ID\nj.Marker = [ID]\nr := []\nfor i := 0; i < 30; i++ {\n  TICK()\n  r = append(r, import(\"strings\").Marker == ID && import(\"strings\").nested.id == ID && import(\"time\").Marker == ID && import(\"json\").Marker[0] == ID)\n}\nreturn [ID, r, s.ToUpper(\"ab\"), string(j.Marshal({a: ID})), f.Sprintf(\"%d\", ID)]", nil, []string{"strings", "time", "fmt", "json"}},
	{"global (ID, TICK)\nTICK()\nm := import(\"thrower\")\nout := []\nfor i := 0; i < 10; i++ {\n  try {\n    if i % 2 == 0 {\n      m.fail(i)\n    } else {\n      x := [1][i]\n    }\n  } catch e {\n    out = append(out, sprintf(\"%+v\", e))\n  }\n  TICK()\n}\nreturn out", map[string]string{"thrower": "inner := import(\"thrower2\")\nreturn {fail: func(i) {\n  if i > 4 {\n    return inner(i)\n  }\n  throw error(\"from module \" + i)\n}}\n", "thrower2": "return func(i) {\n  return 1 / (i - i)\n}\n"}, nil},
	{"global (ID, TICK)\nTICK()\ns := import(\"strings\")\nn := 0\nup := s.Map(func(c) { n++; TICK(); return c + 1 }, \"abcdefgh\")\nfl := s.FieldsFunc(\"a1b2c3\", func(c) { return c >= '0' && c <= '9' })\ntr := s.TrimFunc(\"xxhixx\", func(c) { return c == 'x' })\nix := s.IndexFunc(\"hello\", func(c) { return c == 'l' })\nreturn [ID, up, fl, tr, ix, n]", nil, []string{"strings"}},
	{"global (ID, TICK, CALL)\nTICK()\nacc := 0\nadd := func(d) { acc += d; TICK(); return acc }\nfor i := 0; i < 15; i++ {\n  CALL(add, i)\n}\nreturn [ID, acc, CALL(func() { return CALL(add, 100) })]", nil, nil},
	{"global (ID, TICK)\nTICK()\nx := sort([5, 3, 9, 1])\ny := append([1, 2], 3)\nz := {a: [1, 2]}\nz.a[0] = ID\nw := \"lit\" + ID\nb := bytes(\"abc\")\nb[0] = 'z'\nTICK()\nreturn [x, y, z, w, b, sort([\"b\", \"a\"]), copy(z)]", nil, nil},
	{"global (ID, TICK)\nTICK()\nvar r\nr = func(n) {\n  if n == 0 {\n    return [1][ID + 5]\n  }\n  TICK()\n  return r(n - 1) + 1\n}\nreturn r(30)", nil, nil},
	{"global (ID, TICK)\nTICK()\np := import(\"plugins\")\nkey := \"k\" + ID\np.registry[key] = true\np.nested.inner[key] = ID\np.nested.arr[0][key] = ID\np.state.n += ID + 1\np.log[0] += 10\np.buf[0] = 7\np.sync[key] = ID\np.list = append(p.list, ID)\nTICK()\nq := import(\"plugins\")\nreturn [len(q.registry), len(q.nested.inner), len(q.nested.arr[0]), q.state.n == ID + 1, q.log[0], q.buf[0], len(q.sync), len(q.list), q.registry[key], q.nested.inner[key] == ID]", nil, []string{"plugins"}},
	// execution order of the imports differs from their source order: the first import in the source sits in a function
	// called later / in a branch never taken, the import that runs first comes later in the source and writes
	{"global (ID, TICK)\nTICK()\nlate := func() {\n  return import(\"plugins\")\n}\nvar never\nif ID < 0 {\n  never = import(\"strings\")\n}\np := import(\"plugins\")\nkey := \"k\" + ID\np.registry[key] = true\np.nested.inner[key] = ID\np.nested.arr[0][key] = ID\np.state.n += ID + 1\np.log[0] += 10\np.buf[0] = 7\np.list = append(p.list, ID)\ns := import(\"strings\")\ns.Marker = ID\ns.nested = {id: ID}\nTICK()\nq := late()\nreturn [len(q.registry), len(q.nested.inner), len(q.nested.arr[0]), q.state.n == ID + 1, q.log[0], q.buf[0], len(q.list), q.registry[key], import(\"strings\").Marker == ID, import(\"strings\").nested.id == ID, never]", nil, []string{"plugins", "strings"}},
	// variadic main parameters written to in place (the packed array must be the run's own)
	{"param (first, ...rest)\nglobal (ID, TICK)\nTICK()\nrest[0] += first + ID\nrest[1] += \"!\"\nrest = append(rest, ID)\nTICK()\nreturn [first, rest, len(rest)]", nil, nil},
	{"param (...all)\nglobal (ID, TICK)\nTICK()\nfor i := 0; i < len(all) - 1; i++ {\n  all[i] = [ID, i]\n  TICK()\n}\nreturn all", nil, nil},
	// callbacks on pooled child VMs that fail (caught by the script) followed by more callbacks, nested ones included:
	// a child VM handed back to the process-wide pool must never be handed out to two VMs at once
	{"global (ID, TICK, CALL)\nTICK()\ns := import(\"strings\")\nout := []\nfor i := 0; i < 6; i++ {\n  try {\n    s.Map(func(c) {\n      if i % 2 == 0 {\n        throw \"cb\"\n      }\n      return c + 1\n    }, \"ab\")\n  } catch e {\n    out = append(out, \"caught\")\n  }\n  out = append(out, s.Map(func(c) { TICK(); return c + ID % 3 }, \"abc\"))\n  try {\n    CALL(func() { throw error(\"x\" + ID) })\n  } catch e {\n    out = append(out, e.Message)\n  }\n  out = append(out, CALL(func(a) { TICK(); return CALL(func(b) { TICK(); return b + ID }, a) }, i))\n  out = append(out, s.TrimFunc(\"xxhixx\", func(c) { TICK(); return c == 'x' }))\n}\nreturn out", nil, []string{"strings"}},
	// caught runtime errors (which wrap process-wide error values) are re-labelled with New / compared / formatted
	{"global (ID, TICK)\nTICK()\nout := []\nfor i := 0; i < 4; i++ {\n  try {\n    x := 1 / (i - i)\n  } catch e {\n    w := e.New(\"ctx \" + ID)\n    out = append(out, [e.Message, w.Message, string(e), string(w), isError(w, e), isError(e, ZeroDivisionError)])\n  }\n  try {\n    throw TypeError\n  } catch e {\n    out = append(out, string(e.New(\"t\" + ID)), e.Message)\n  }\n  try {\n    y := [1][5]\n  } catch e {\n    out = append(out, e.New(\"idx\" + ID).Message, e.Message, e.Name)\n  }\n  try {\n    throw error(\"own \" + ID)\n  } catch e {\n    out = append(out, e.New(\"again\").Message, e.Message)\n  }\n  TICK()\n}\nreturn out", nil, nil},
	{"global (ID, TICK, PANIC)\nTICK()\ntry {\n  PANIC()\n} catch e {\n  TICK()\n  return sprintf(\"%v\", e.Message)\n}", nil, nil},
}

type c08wit struct {
	Src     string            `json:"src"`
	Modules map[string]string `json:"modules,omitempty"`
	N       int               `json:"goroutines"`
	Reuse   bool              `json:"vm_reused"`
	Decoded bool              `json:"decoded"`
	Why     string            `json:"why"`
	Solo    any               `json:"solo"`
	Conc    any               `json:"concurrent"`
}

type c08shared struct {
	inflight atomic.Int64
	maxSeen  atomic.Int64
}

func c08globals(id int, sh *c08shared) ugo.Map {
	g := ugo.Map{"ID": ugo.Int(id), "G": ugo.Int(3)}
	g["TICK"] = &ugo.Function{Name: "TICK", Value: func(...ugo.Object) (ugo.Object, error) {
		if sh != nil {
			cur := sh.inflight.Load()
			for {
				m := sh.maxSeen.Load()
				if cur <= m || sh.maxSeen.CompareAndSwap(m, cur) {
					break
				}
			}
			runtime.Gosched()
		}
		return ugo.Undefined, nil
	}}
	tick := g["TICK"].(*ugo.Function)
	g["L"] = &ugo.Function{Name: "L", Value: func(args ...ugo.Object) (ugo.Object, error) {
		_, _ = tick.Value()
		if len(args) > 0 {
			return args[len(args)-1], nil
		}
		return ugo.Undefined, nil
	}}
	g["PANIC"] = &ugo.Function{Name: "PANIC", Value: func(...ugo.Object) (ugo.Object, error) { panic("hostile callback") }}
	g["CALL"] = &ugo.Function{Name: "CALL", ValueEx: func(c ugo.Call) (ugo.Object, error) {
		var args []ugo.Object
		for i := 1; i < c.Len(); i++ {
			args = append(args, c.Get(i))
		}
		inv := ugo.NewInvoker(c.VM(), c.Get(0))
		inv.Acquire()
		defer inv.Release()
		return inv.Invoke(args...)
	}}
	return g
}

func c08run(vm *ugo.VM, bc *ugo.Bytecode, id int, sh *c08shared, args []ugo.Object) canon.Outcome {
	g := c08globals(id, sh)
	if sh != nil {
		sh.inflight.Add(1)
		defer sh.inflight.Add(-1)
	}
	o := canon.RunBytecode(bc, canon.RunOpts{VM: vm, Recover: true, NoOutput: true, Globals: g, Args: args})
	o.Globals = "" // holds function values and the id
	return o
}

func (m c08) program(c *core.Ctx, src string, mods map[string]string, bm []string, args []ugo.Object, usesID bool) {
	p := &Program{Src: src, Modules: mods, Builtin: bm}
	mm := moduleMapFor(p)
	cr := safeCompile([]byte(src), ugo.CompilerOptions{ModuleMap: mm})
	if cr.err != nil || cr.panicv != "" {
		c.Count("discarded_compile_error")
		return
	}
	for _, decoded := range []bool{false, true} {
		bc := cr.bc
		if decoded {
			b, err, pan := safeEncode(cr.bc)
			if err != nil || pan != "" {
				continue
			}
			d, err, pan := safeDecode(b, mm)
			if err != nil || pan != "" {
				continue
			}
			bc = d
			c.Count("decoded_bytecode")
		}
		before := string(encodeBytes(bc))
		// solo outcomes per id (ids matter only for programs using ID)
		solo := map[int]canon.Outcome{}
		stuck := false
		soloFor := func(id int) canon.Outcome {
			if !usesID {
				id = 0
			}
			if o, ok := solo[id]; ok {
				return o
			}
			vm := ugo.NewVM(bc)
			vm.SetRecover(true)
			o := c08run(vm, bc, id, nil, args)
			solo[id] = o
			if o.Kind == "unabortable" && !stuck {
				stuck = true
				c.Violation("C08|solo-run-stuck|"+fmt.Sprintf("%x", hashStr(src)), "a run of the program alone neither returns nor reacts to Abort (the programs used here finish in milliseconds)", c08wit{Src: src, Modules: mods, Decoded: decoded, Why: "solo run stuck in native code", Solo: o})
			}
			return o
		}
		for _, n := range []int{2, 8, 32} {
			// pre-compute solo outcomes sequentially
			for id := 0; id < n && !stuck; id++ {
				soloFor(id)
			}
			if stuck {
				return
			}
			for _, reuse := range []bool{false, true} {
				// decoded bytecode: every concurrent round gets its own freshly decoded copy that no VM has run yet
				// (first-use initialisation inside shared Bytecode must be safe too); solo outcomes come from another copy
				bc := bc
				roundBefore := before
				if decoded {
					b, err, pan := safeEncode(cr.bc)
					if err != nil || pan != "" {
						continue
					}
					d, err, pan := safeDecode(b, mm)
					if err != nil || pan != "" {
						continue
					}
					bc = d
					roundBefore = string(encodeBytes(bc))
					c.Count("fresh_decoded_rounds")
				}
				sh := &c08shared{}
				reps := c.Pick(3, 12)
				type res struct {
					id int
					o  canon.Outcome
				}
				var mu sync.Mutex
				var results []res
				var wg sync.WaitGroup
				start := make(chan struct{})
				for gi := 0; gi < n; gi++ {
					wg.Add(1)
					go func(id int) {
						defer wg.Done()
						<-start
						var vm *ugo.VM
						for r := 0; r < reps; r++ {
							if vm == nil || !reuse {
								vm = ugo.NewVM(bc)
								vm.SetRecover(true)
							} else {
								vm.Clear()
								vm.SetBytecode(bc)
							}
							o := c08run(vm, bc, id, sh, args)
							mu.Lock()
							results = append(results, res{id, o})
							mu.Unlock()
						}
					}(gi)
				}
				close(start)
				wg.Wait()
				c.Count(fmt.Sprintf("n.%d", n))
				if reuse {
					c.Count("vm_reused")
				} else {
					c.Count("vm_fresh")
				}
				if sh.maxSeen.Load() >= 2 {
					c.Count("overlap_observed")
					c.Nontrivial(fmt.Sprintf("%x|%d|%v|%v", hashStr(src), n, reuse, decoded))
				}
				c.SetAdd("max_vms_inside_run_at_once", fmt.Sprintf("N=%d:max=%d", n, sh.maxSeen.Load()))
				if decoded && string(encodeBytes(bc)) != roundBefore {
					c.Violation("C08|bytecode-modified", "shared Bytecode changed while VMs were running it", c08wit{Src: src, Modules: mods, Decoded: decoded, N: n, Reuse: reuse, Why: "bytecode modified (freshly decoded copy)"})
					return
				}
				for _, r := range results {
					c.Count("concurrent_runs")
					want := soloFor(r.id)
					if usesID {
						c.Count("isolation_probes")
					}
					if r.o.Kind == "error" {
						c.Count("error_outcomes_formatted")
					}
					if r.o.Kind == "timeout" || want.Kind == "timeout" {
						// the 20 s watchdog of the harness fired (32 race-instrumented VMs on a loaded machine): a wall
						// clock is not a verdict on what the run returns
						c.Inconclusive("a run hit the harness watchdog: " + fmt.Sprintf("%x", hashStr(src)))
						continue
					}
					if r.o.Key(true) != want.Key(true) {
						why := "a concurrent run returned something else than the same run alone"
						c.Violation("C08|diff|"+fmt.Sprintf("%x", hashStr(src)), why, c08wit{Src: src, Modules: mods, N: n, Reuse: reuse, Decoded: decoded, Why: why, Solo: want, Conc: r.o})
						return
					}
				}
			}
		}
		if string(encodeBytes(bc)) != before {
			c.Violation("C08|bytecode-modified", "shared Bytecode changed while VMs were running it", c08wit{Src: src, Modules: mods, Decoded: decoded, Why: "bytecode modified"})
		}
	}
}

func (m c08) Run(c *core.Ctx) {
	if c.Replay != nil {
		var w c08wit
		if json.Unmarshal(c.Replay, &w) == nil && w.Src != "" {
			var bm []string
			for _, b := range []string{"strings", "time", "fmt", "json"} {
				bm = append(bm, b)
			}
			m.program(c, w.Src, w.Modules, bm, []ugo.Object{ugo.Int(1), ugo.Int(2)}, true)
		}
		return
	}
	idx := 0
	for _, f := range c08fixed {
		idx++
		if idx%c.NBatch != c.Batch {
			continue
		}
		f := f
		if !c.Begin(func() string { return f.src }) {
			continue
		}
		var args []ugo.Object
		var snap string
		if strings.HasPrefix(f.src, "param ") {
			// all VMs are given the SAME argument slice (vm.Run(g, shared...)): it belongs to the host and is only read
			args = []ugo.Object{ugo.Int(10), ugo.Int(1), ugo.String("x"), ugo.Array{ugo.Int(5)}}
			snap = canon.Value(ugo.Array(args))
		}
		m.program(c, f.src, f.mods, f.bm, args, true)
		if args != nil {
			c.Count("shared_argument_slice_programs")
			if now := canon.Value(ugo.Array(args)); now != snap {
				c.Violation("C08|host-args-modified", "the argument slice shared by the concurrent runs was modified by the scripts: "+trunc(snap, 100)+" became "+trunc(now, 100), c08wit{Src: f.src, Why: "shared argument slice modified", Solo: snap, Conc: now})
			}
		}
		c.Count("programs_fixed")
	}
	n := c.Pick(3, 150)
	o := gen.Opts{MaxStmts: 20, MaxDepth: 3, ExprDepth: 2, Try: 0.4, Throw: 0.2, Funcs: 0.7, Shadow: 0.1, LogProb: 0.3, Globals: true, DeepRecursion: 8, Faults: 0.01, ImportProb: 0.2}
	for i := 0; i < n; i++ {
		o.Modules = 1 + c.Rng.Intn(3)
		o.Params = 1
		o.BuiltinMods = [][]string{nil, {"strings"}, {"time", "json"}}[c.Rng.Intn(3)]
		gp := gen.Generate(c.Rng, o)
		args := []ugo.Object{ugo.Int(c.Rng.Intn(5))}
		if !c.Begin(func() string { return gp.Src }) {
			continue
		}
		m.program(c, gp.Src, gp.Modules, gp.Builtin, args, false)
		c.Count("programs_generated")
		if i%3 == 0 {
			c.Sample(map[string]any{"src": gp.Src, "modules": gp.Modules})
		}
	}
}
