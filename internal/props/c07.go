package props

import (
	"bytes"
	"context"
	"encoding/json"
	"fmt"
	"sort"
	"strings"
	"sync/atomic"
	"time"

	"github.com/ozanh/ugo"

	"verif/internal/canon"
	"verif/internal/core"
	"verif/internal/gen"
)

// C07 — a run's outcome depends only on bytecode, globals and arguments.
type c07 struct{}

func init() { core.Register(c07{}) }

func (c07) ID() string    { return "C07" }
func (c07) Level() string { return "exploration" }
func (c07) Race() bool    { return false }
func (c07) Rule() string {
	return "a history of 0..6 runs with every termination kind (return, uncaught error at depth 0/5/100, recovered Go panic, value-stack overflow, frame overflow caught/uncaught, Abort from another goroutine in a loop and in a callback, " +
		"unrecovered panic into the harness, scripts leaving closures/modules/open handlers/stack residue) is executed on one VM with every transition kind between runs (Clear, SetBytecode same/other, Clear+SetBytecode); " +
		"then the observed script T is run on the used VM (after SetBytecode or Clear+SetBytecode) and on a brand-new VM: outcomes (value, event log, globals, error name+message, trace) must be equal; T is run twice more (new VM, cleared VM); " +
		"the encoder bytes of every involved Bytecode must be identical before the first and after the last run. EXHAUSTIVE product 15 termination kinds x 4 transitions x 11 fixed observers, plus seeded random histories with generated observers. " +
		"non-trivial = history contains >=1 non-normal termination; distinct by (history kinds, transitions, observer hash)"
}
func (c07) Batches(string) int { return 32 }
func (c07) Required(string) []string {
	return []string{"histories", "product_cases", "random_histories", "term.abort-loop", "term.abort-callback", "term.host-panic", "term.abort-in-nested-try", "term.frame-overflow", "term.stack-overflow", "term.recovered-panic", "term.error-depth100", "bytes_unchanged_checks", "observer_error_outcomes", "nil_globals_probes", "eval_histories"}
}
func (c07) Assumptions() []string {
	return []string{"map iteration order is never observable in the observed scripts", "re-running WITHOUT Clear/SetBytecode (documented REPL behaviour keeping the module cache) is out of the statement and not compared"}
}

type c07term struct {
	name    string
	src     string
	recover bool
	abort   string // "", "loop", "callback"
}

var c07terms = []c07term{
	{"return", "global L\nx := [1, 2, 3]\nf := func() { return x }\nreturn f()", true, ""},
	{"closures-modules", "global L\nm := import(\"mod0\")\nm.bump(5)\nfs := []\nfor i := 0; i < 5; i++ {\n  fs = append(fs, func() { return i })\n}\nreturn fs", true, ""},
	{"error-depth0", "global L\nreturn [1][5]", true, ""},
	{"error-depth5", "global L\nvar r\nr = func(n) {\n  if n == 0 {\n    throw error(\"deep\")\n  }\n  return r(n - 1) + 1\n}\nreturn r(5)", true, ""},
	{"error-depth100", "global L\nvar r\nr = func(n) {\n  x := [n, n, n]\n  if n == 0 {\n    return x[9]\n  }\n  try {\n    return r(n - 1) + 1\n  } finally {\n    x = undefined\n  }\n}\nreturn r(100)", true, ""},
	{"recovered-panic", "global (L, PANIC)\ntry {\n  x := [1, 2, 3, 4, 5]\n  return PANIC()\n} finally {\n  L(\"f\")\n}", true, ""},
	{"stack-overflow", "global L\nreturn len([" + strings.TrimSuffix(strings.Repeat("0, ", 2100), ", ") + "])", true, ""},
	{"frame-overflow", "global L\nvar r\nr = func() {\n  return r() + 1\n}\nreturn r()", true, ""},
	{"frame-overflow-caught", "global L\nvar r\nr = func() {\n  return r() + 1\n}\ntry {\n  return r()\n} catch e {\n  return e.Name\n}", true, ""},
	{"abort-loop", "global (L, STARTED)\nx := [1, 2, 3]\ntry {\n  STARTED()\n  for {\n    x = append(x, 1)[0:3]\n  }\n} finally {\n  L(\"never\")\n}", true, "loop"},
	{"abort-callback", "global (L, BLOCK)\nf := func() {\n  try {\n    return BLOCK()\n  } finally {\n    L(1)\n  }\n}\nreturn f()", true, "callback"},
	{"host-panic", "global (L, PANIC)\nf := func() {\n  x := {a: 1}\n  try {\n    return PANIC()\n  } finally {\n    x.a = 2\n  }\n}\nreturn f()", false, ""},
	{"abort-in-nested-try", "global (L, STARTED)\nspin := func() {\n  STARTED()\n  for {\n  }\n}\nguard := func() {\n  try {\n    return spin()\n  } catch e {\n    return \"guard\"\n  }\n}\nouter := func() {\n  try {\n    return guard()\n  } finally {\n    L(\"never\")\n  }\n}\nreturn outer()", true, "loop"},
	// a script with a variadic parameter hands its argument array (and a closure over it) to the host
	{"variadic-keeps-args", "global (L, KEEP)\nparam (...a)\nKEEP(a)\nKEEP([a, len(a)])\nreturn a", true, ""},
	{"variadic-keeps-args-2", "global (L, KEEP)\nparam (p, ...a)\nb := a\nKEEP(b, {k: a})\nthrow error(\"after keeping\")", true, ""},
	// a Go module with nested mutable attributes is changed in place by the script
	{"builtin-module-nested-mutation", "global L\np := import(\"plugins\")\np.registry[\"k\"] = true\np.nested.inner[\"k\"] = 1\np.nested.arr[0][\"k\"] = 2\np.state.n += 1\np.log[0] += 10\np.buf[0] = 7\np.sync[\"k\"] = 3\np.list = append(p.list, 1)\np.version = 2\nreturn [len(p.registry), p.state.n]", true, ""},
	// the run is aborted / dies while a script function runs on a child VM inside a Go callback
	{"abort-in-child-vm", "global (L, STARTED, CALL)\nspin := func() {\n  STARTED()\n  for {\n  }\n}\ntry {\n  return CALL(spin)\n} finally {\n  L(\"never\")\n}", true, "loop"},
	{"error-in-child-vm", "global (L, CALL)\nbad := func(n) {\n  try {\n    return [1][n]\n  } finally {\n    L(\"child fin\")\n  }\n}\nreturn CALL(bad, 5)", true, ""},
	{"panic-in-child-vm", "global (L, CALL, PANIC)\nreturn CALL(func() {\n  x := [1, 2, 3]\n  return PANIC()\n})", true, ""},
	// many callback invocations on child VMs that end in an error / a recovered panic / succeed, in one run
	{"many-failed-callbacks", "global (L, CALL, PANIC)\nn := 0\nfor i := 0; i < 150; i++ {\n  try {\n    CALL(func() {\n      if i % 3 == 0 {\n        throw error(\"cb\")\n      }\n      if i % 3 == 1 {\n        return [1][i + 5]\n      }\n      return PANIC()\n    })\n  } catch e {\n    n++\n  }\n}\nreturn n", true, ""},
	{"many-nested-callbacks-then-error", "global (L, CALL)\nvar down\ndown = func(k) {\n  if k == 0 {\n    throw error(\"bottom\")\n  }\n  return CALL(down, k - 1)\n}\nfor i := 0; i < 30; i++ {\n  try {\n    down(4)\n  } catch e {\n  }\n}\nreturn down(3)", true, ""},
	// the run dies inside a callee while the main function is inside a try statement
	{"abort-in-callee-under-main-try", "global (L, STARTED)\nspin := func() {\n  STARTED()\n  for {\n  }\n}\ntry {\n  x := [1, 2, 3]\n  return spin()\n} catch e {\n  return \"main caught\"\n} finally {\n  L(\"never\")\n}", true, "loop"},
	{"value-stack-overflow-under-main-try", "global L\nvar r\nr = func(a, b, c, d, e, f, g, h) {\n  x1 := a\n  x2 := b\n  return 1 + r(x1, x2, c, d, e, f, g, h)\n}\ntry {\n  return r(1, 2, 3, 4, 5, 6, 7, 8)\n} catch e {\n  return \"main caught\"\n}", true, ""},
	{"value-stack-overflow-under-callee-try", "global L\nvar r\nr = func(a, b, c, d, e, f, g, h) {\n  try {\n    return 1 + r(a, b, c, d, e, f, g, h)\n  } catch e {\n    return -1\n  }\n}\nreturn r(1, 2, 3, 4, 5, 6, 7, 8)", true, ""},
	{"discarded-selfcall-then-throw", "global L\nvar cd\ncd = func(n) {\n  if n == 0 {\n    throw error(\"bottom\")\n  }\n  cd(n - 1)\n}\nreturn cd(3)", true, ""},
	{"open-handlers-residue", "global L\nf := func(n) {\n  try {\n    try {\n      a := [n, n, n, n]\n      if n > 0 {\n        throw error(\"open\")\n      }\n    } finally {\n      L(\"inner\")\n    }\n  } finally {\n    L(\"outer\")\n  }\n}\nreturn f(1)", true, ""},
}

var c07transitions = []string{"clear", "setbytecode-same", "setbytecode-other", "clear+setbytecode"}

var c07observers = []string{
	"global L\nparam (a, b)\nreturn [a, b]",
	"global L\nvar x\nL(x)\nvar y\nL(y)\nz := [x, y]\nreturn z",
	"global L\nm := import(\"mod0\")\nL(m.get())\nm.bump(1)\nreturn import(\"mod0\").get()",
	"global L\nf := func(n) {\n  try {\n    if n == 0 {\n      throw error(\"t\")\n    }\n    return n\n  } catch e {\n    return e.Message\n  } finally {\n    L(n)\n  }\n}\nreturn [f(0), f(1)]",
	"global L\nfs := []\nfor i := 0; i < 3; i++ {\n  fs = append(fs, func() { return i })\n}\nr := []\nfor f in fs {\n  r = append(r, f())\n}\nreturn r",
	"global L\nvar r\nr = func(n) {\n  var loc\n  L(loc)\n  loc = n\n  if n == 0 {\n    return [1][2]\n  }\n  return r(n - 1)\n}\nreturn r(3)",
	"global (L, G)\nG = G + 1\nvar r\nr = func(n, acc) {\n  if n == 0 {\n    return acc\n  }\n  return r(n - 1, acc + n)\n}\nreturn r(50, G)",
	"global L\nparam (...rest)\na, b, c := rest\nreturn [a, b, c, len(rest)]",
	// an error raised (uncaught there) in a function at call depth 1 / 2 / 3 and caught by main: stale per-frame
	// state of an earlier run (handlers, flags) at those depths must not intercept it
	"global L\ng := func() {\n  return [1][5]\n}\ntry {\n  g()\n} catch e {\n  L(\"main caught\", e.Name)\n}\nh := func() {\n  return 7\n}\nreturn [h(), h()]",
	"global L\ng3 := func() {\n  throw error(\"deep\")\n}\ng2 := func() {\n  x := g3()\n  return x\n}\ng1 := func() {\n  x := g2()\n  return x\n}\ntry {\n  g1()\n} catch e {\n  L(\"main caught\", e.Message)\n}\nk := func(a) {\n  return a + 1\n}\nreturn [k(1), k(2)]",
	"global L\np := import(\"plugins\")\nL(len(p.registry), len(p.nested.inner), len(p.nested.arr[0]), p.state.n, p.log[0], p.buf[0], len(p.sync), len(p.list), p.version)\np.state.n += 5\np.registry[\"o\"] = 1\nreturn [p.state.n, len(import(\"plugins\").registry)]",
	// variadic observers (more, fewer and as many arguments as earlier runs had)
	"global L\nparam (...rest)\nrest = append(rest, 5)\nreturn rest",
	"global L\nparam (first, ...rest)\nif len(rest) > 0 {\n  rest[0] = \"overwritten\"\n}\nreturn [first, rest]",
	// script functions run on child VMs (Invoker) by the observer
	"global (L, CALL)\nf := func(x) {\n  return x + 1\n}\nr := [CALL(f, 1), CALL(func() {\n  try {\n    throw \"t\"\n  } catch e {\n    return \"c\"\n  }\n}), CALL(func() { return CALL(f, 10) })]\nL(r)\ntry {\n  CALL(func() { return [1][3] })\n} catch e {\n  L(e.Name)\n}\nreturn r",
	// main-level exits that an own try statement does not cover: a stale handler left in frame 0 would intercept them
	"global L\ntry {\n  L(1)\n} finally {\n  L(2)\n}\nthrow error(\"uncaught-main\")",
	"global L\nx := [1]\nL(0)\nreturn x[3]",
	"global L\nfor i := 0; i < 2; i++ {\n  try {\n    if i == 1 {\n      break\n    }\n  } finally {\n    L(i)\n  }\n}\ntry {\n  return 5\n} finally {\n  L(\"fin\")\n}",
	"global L\nf := func() {\n  throw error(\"from-callee\")\n}\nL(0)\nreturn f()",
	"global L\nvar cd\ncd = func(n) {\n  if n == 0 {\n    return \"done\"\n  }\n  cd(n - 1)\n}\nv := func() {\n  return 42\n}\nreturn [cd(0), v(), cd(2), v()]",
}

const c07mod0 = "global L\nstate := 10\nL(\"mod0-body\")\nreturn {bump: func(d) { state += d; return state }, get: func() { return state }}\n"

type c07wit struct {
	History  []string `json:"history"`
	Observer string   `json:"observer"`
	Why      string   `json:"why"`
	Used     any      `json:"used_vm"`
	Fresh    any      `json:"new_vm"`
	Seed     string   `json:"gen,omitempty"`
}

type c07env struct {
	mm       *ugo.ModuleMap
	compiled map[string]*ugo.Bytecode
}

func (e *c07env) compile(src string) *ugo.Bytecode {
	if bc, ok := e.compiled[src]; ok {
		return bc
	}
	bc, err := ugo.Compile([]byte(src), ugo.CompilerOptions{ModuleMap: e.mm})
	if err != nil {
		bc, err = ugo.Compile([]byte(src), ugo.CompilerOptions{ModuleMap: e.mm, NoOptimize: true})
		if err != nil {
			return nil
		}
	}
	e.compiled[src] = bc
	return bc
}

// encodeBytes is a canonical structural dump of everything the encoder writes (the encoder's own
// bytes are not canonical: maps are written in Go iteration order), so that "executing Bytecode
// never modifies it" can be decided by byte comparison.
func encodeBytes(bc *ugo.Bytecode) []byte {
	var sb strings.Builder
	dumpFn := func(cf *ugo.CompiledFunction) {
		fmt.Fprintf(&sb, "fn(p=%d l=%d v=%v free=%d ins=%x sm=", cf.NumParams, cf.NumLocals, cf.Variadic, len(cf.Free), cf.Instructions)
		keys := make([]int, 0, len(cf.SourceMap))
		for k := range cf.SourceMap {
			keys = append(keys, k)
		}
		sort.Ints(keys)
		for _, k := range keys {
			fmt.Fprintf(&sb, "%d:%d,", k, cf.SourceMap[k])
		}
		sb.WriteString(")")
	}
	fmt.Fprintf(&sb, "modules=%d;", bc.NumModules)
	dumpFn(bc.Main)
	for i, k := range bc.Constants {
		fmt.Fprintf(&sb, ";c%d=", i)
		if cf, ok := k.(*ugo.CompiledFunction); ok {
			dumpFn(cf)
		} else {
			sb.WriteString(k.TypeName() + ":" + canon.Value(k))
		}
	}
	if bc.FileSet != nil {
		last := "<nil>"
		if bc.FileSet.LastFile != nil {
			last = bc.FileSet.LastFile.Name
		}
		fmt.Fprintf(&sb, ";fs base=%d lastfile=%s", bc.FileSet.Base, last)
		for _, f := range bc.FileSet.Files {
			fmt.Fprintf(&sb, ";file %s %d %d %v", f.Name, f.Base, f.Size, f.Lines)
		}
	}
	// the encoder must also still accept it
	if _, err, pan := safeEncode(bc); err != nil || pan != "" {
		sb.WriteString(";ENCODE-FAILS:" + fmt.Sprint(err) + pan)
	}
	return []byte(sb.String())
}

// runHistoryItem runs one history script on vm with the given termination plumbing.
func c07runItem(vm *ugo.VM, t c07term, bc *ugo.Bytecode) (kind string) {
	rec := &canon.Recorder{}
	var started, release atomic.Bool
	g := ugo.Map{"L": rec.Func(), "G": ugo.Int(3),
		"CALL": c07callGlobal(),
		"KEEP": &ugo.Function{Name: "KEEP", Value: func(a ...ugo.Object) (ugo.Object, error) {
			for _, o := range a {
				c07kept = append(c07kept, c07keptValue{o, canon.Value(o)})
			}
			return ugo.Undefined, nil
		}},
		"PANIC":   &ugo.Function{Name: "PANIC", Value: func(...ugo.Object) (ugo.Object, error) { panic("history panic") }},
		"STARTED": &ugo.Function{Name: "STARTED", Value: func(...ugo.Object) (ugo.Object, error) { started.Store(true); return ugo.Undefined, nil }},
		"BLOCK": &ugo.Function{Name: "BLOCK", Value: func(...ugo.Object) (ugo.Object, error) {
			started.Store(true)
			for !release.Load() {
				time.Sleep(100 * time.Microsecond)
			}
			return ugo.Int(1), nil
		}},
	}
	vm.SetRecover(t.recover)
	done := make(chan struct{})
	go func() {
		defer close(done)
		defer func() {
			if r := recover(); r != nil {
				kind = "host-panic"
			}
		}()
		_, err := vm.Run(g, ugo.Int(1), ugo.Int(2))
		if err != nil {
			kind = "error"
		} else {
			kind = "value"
		}
	}()
	if t.abort != "" {
		// wait until the script is inside its endless part (or until the run ended by itself, e.g. with an error)
	waitStart:
		for !started.Load() {
			select {
			case <-done:
				break waitStart
			default:
				time.Sleep(50 * time.Microsecond)
			}
		}
		vm.Abort()
		release.Store(true)
	}
	select {
	case <-done:
	case <-time.After(20 * time.Second):
		for i := 0; i < 100; i++ {
			vm.Abort()
			release.Store(true)
			select {
			case <-done:
				return "watchdog"
			case <-time.After(50 * time.Millisecond):
			}
		}
		return "hung"
	}
	return kind
}

// c07callGlobal: CALL(f, args...) runs the script function f on a pooled child VM (what Go callbacks such as strings.Map do).
func c07callGlobal() *ugo.Function {
	return &ugo.Function{Name: "CALL", ValueEx: func(c ugo.Call) (ugo.Object, error) {
		if c.Len() < 1 {
			return ugo.Undefined, nil
		}
		var args []ugo.Object
		for i := 1; i < c.Len(); i++ {
			args = append(args, c.Get(i))
		}
		inv := ugo.NewInvoker(c.VM(), c.Get(0))
		inv.Acquire()
		defer inv.Release()
		return inv.Invoke(args...)
	}}
}

func (m c07) observe(vm *ugo.VM, bc *ugo.Bytecode) canon.Outcome {
	rec := &canon.Recorder{}
	g := ugo.Map{"L": rec.Func(), "G": ugo.Int(3), "CALL": c07callGlobal()}
	vm.SetRecover(true)
	return canon.RunBytecode(bc, canon.RunOpts{VM: vm, Globals: g, Args: []ugo.Object{ugo.Int(7), ugo.String("x")}, LogOf: rec.String})
}

// runCase executes a whole history then the observer; hist is a list of (term index, transition index).
// c07bounded runs fn and reports whether it returned within 10 s.
func c07bounded(fn func()) bool {
	d := make(chan struct{})
	go func() {
		defer close(d)
		fn()
	}()
	select {
	case <-d:
		return true
	case <-time.After(10 * time.Second):
		return false
	}
}

// c07kept: values a history script handed to the host (KEEP(v)) with their rendering at that moment; whatever the VM
// does afterwards - other runs, Clear, SetBytecode - must not change them
type c07keptValue struct {
	obj  ugo.Object
	snap string
}

var c07kept []c07keptValue

// c07watchdogs counts history items of this worker that only ended through the 20 s watchdog; after two of them the
// worker stops running histories (each costs 20 s and leaves a goroutine behind) - the run then reports what it has.
var c07watchdogs int

func (m c07) runCase(c *core.Ctx, env *c07env, hist [][2]int, lastTransition int, observerSrc string, genTag string) (nontrivial bool) {
	if c07watchdogs >= 2 {
		c.Count("skipped_after_watchdogs")
		return false
	}
	c07kept = nil
	obs := env.compile(observerSrc)
	if obs == nil {
		c.Count("discarded_compile_error")
		return false
	}
	involved := map[*ugo.Bytecode][]byte{obs: encodeBytes(obs)}
	var names []string
	vm := ugo.NewVM(nil)
	var prev *ugo.Bytecode
	for _, h := range hist {
		t := c07terms[h[0]]
		bc := env.compile(t.src)
		if bc == nil {
			c.Inconclusive("history script does not compile: " + t.name)
			return false
		}
		if _, ok := involved[bc]; !ok {
			involved[bc] = encodeBytes(bc)
		}
		// transition into this run (Clear and SetBytecode take the VM's lock: they must not block on an idle VM)
		tr := c07transitions[h[1]]
		if !c07bounded(func() {
			switch tr {
			case "clear":
				vm.Clear()
				vm.SetBytecode(bc)
			case "setbytecode-same":
				if prev != nil {
					vm.SetBytecode(prev)
				}
				vm.SetBytecode(bc)
			case "setbytecode-other":
				vm.SetBytecode(bc)
			case "clear+setbytecode":
				vm.Clear()
				vm.SetBytecode(bc)
			}
		}) {
			c.Violation("C07|vm-blocks-after|"+strings.Join(names, ","), "Clear / SetBytecode block (10 s) on a VM whose earlier run has ended: "+strings.Join(names, ","), c07wit{History: append(append([]string{}, names...), "then "+tr), Why: "Clear/SetBytecode do not return"})
			c07watchdogs = 2
			return true
		}
		kind := c07runItem(vm, t, bc)
		if kind == "hung" || kind == "watchdog" {
			c.Inconclusive("history item " + t.name + " needed the watchdog")
			c07watchdogs++
			return false
		}
		c.Count("term." + t.name)
		c.Count("transition." + tr)
		names = append(names, t.name+"/"+tr+"→"+kind)
		if t.name != "return" && t.name != "closures-modules" {
			nontrivial = true
		}
		prev = bc
	}
	// transition to the observer: the statement requires Clear or new bytecode
	lt := []string{"setbytecode", "clear+setbytecode"}[lastTransition%2]
	if !c07bounded(func() {
		if lt == "clear+setbytecode" {
			vm.Clear()
		}
		vm.SetBytecode(obs)
	}) {
		c.Violation("C07|vm-blocks-after|"+strings.Join(names, ","), "Clear / SetBytecode block (10 s) on a VM whose earlier run has ended: "+strings.Join(names, ","), c07wit{History: append(append([]string{}, names...), "then "+lt), Observer: observerSrc, Why: "Clear/SetBytecode do not return"})
		c07watchdogs = 2
		return true
	}
	used := m.observe(vm, obs)
	for _, k := range c07kept {
		c.Count("kept_values_checked")
		if now := canon.Value(k.obj); now != k.snap {
			c.Violation("C07|kept-value-changed|"+histKinds(hist), "a value an earlier script handed to the host changed while the VM ran a later script: "+trunc(k.snap, 80)+" became "+trunc(now, 80), c07wit{History: append(names, "observer after "+lt), Observer: observerSrc, Why: "kept value changed", Used: now, Fresh: k.snap, Seed: genTag})
			c07kept = nil
			return true
		}
	}
	c07kept = nil
	fresh := m.observe(ugo.NewVM(obs), obs)
	c.Count("histories")
	if fresh.Kind == "error" {
		c.Count("observer_error_outcomes")
	}
	wit := func(why string, a, b canon.Outcome) c07wit {
		return c07wit{History: append(names, "observer after "+lt), Observer: observerSrc, Why: why, Used: a, Fresh: b, Seed: genTag}
	}
	hk := strings.Join(names, ",")
	if used.Key(true) != fresh.Key(true) {
		why := "outcome on the used VM differs from a new VM"
		c.Violation("C07|used-vs-new|"+histKinds(hist)+"|"+lt, why, wit(why, used, fresh))
		return nontrivial
	}
	// twice more: new VM and cleared VM
	again := m.observe(ugo.NewVM(obs), obs)
	vm.Clear()
	vm.SetBytecode(obs)
	cleared := m.observe(vm, obs)
	if again.Key(true) != fresh.Key(true) || cleared.Key(true) != fresh.Key(true) {
		why := "re-running the same bytecode gives a different outcome"
		c.Violation("C07|rerun|"+histKinds(hist), why, wit(why, cleared, fresh))
		return nontrivial
	}
	for bc, before := range involved {
		after := encodeBytes(bc)
		c.Count("bytes_unchanged_checks")
		if before == nil || after == nil {
			continue
		}
		if !bytes.Equal(before, after) {
			why := "executing bytecode modified it (encoder bytes differ before/after)"
			c.Violation("C07|bytecode-modified|"+histKinds(hist), why, wit(why, used, fresh))
			return nontrivial
		}
	}
	_ = hk
	return nontrivial
}

func histKinds(hist [][2]int) string {
	var s []string
	for _, h := range hist {
		s = append(s, c07terms[h[0]].name+"/"+c07transitions[h[1]])
	}
	return strings.Join(s, ",")
}

func (m c07) Run(c *core.Ctx) {
	newEnv := func() *c07env {
		mm := ugo.NewModuleMap()
		mm.AddSourceModule("mod0", []byte(c07mod0))
		mm.Add("plugins", stdlibModule("plugins"))
		return &c07env{mm: mm, compiled: map[string]*ugo.Bytecode{}}
	}
	env := newEnv()
	if c.Replay != nil {
		var w c07wit
		if json.Unmarshal(c.Replay, &w) == nil {
			// replay by kinds: rebuild the history from names
			var hist [][2]int
			for _, nm := range w.History {
				parts := strings.SplitN(strings.SplitN(nm, "→", 2)[0], "/", 2)
				if len(parts) != 2 {
					continue
				}
				for ti, t := range c07terms {
					for tri, tr := range c07transitions {
						if t.name == parts[0] && tr == parts[1] {
							hist = append(hist, [2]int{ti, tri})
						}
					}
				}
			}
			for lt := 0; lt < 2; lt++ {
				m.runCase(c, env, hist, lt, w.Observer, "")
			}
		}
		return
	}
	idx := 0
	// exhaustive product: one-item histories (termination x transition) x observers x last transition
	for ti := range c07terms {
		for tri := range c07transitions {
			for oi, obs := range c07observers {
				for lt := 0; lt < 2; lt++ {
					idx++
					if idx%c.NBatch != c.Batch {
						continue
					}
					hist := [][2]int{{ti, tri}}
					desc := fmt.Sprintf("product %s obs#%d lt%d", histKinds(hist), oi, lt)
					if !c.Begin(func() string { return desc }) {
						continue
					}
					if m.runCase(c, env, hist, lt, obs, "") {
						c.Nontrivial(desc)
					}
					c.Count("product_cases")
					if idx%131 == 0 {
						c.Sample(map[string]any{"history": histKinds(hist), "observer": obs})
					}
				}
			}
		}
	}
	// random longer histories with generated observers
	// Eval sessions: a fragment imports a module and then fails (at run time, at compile time, by cancellation); what a
	// later fragment gets from its imports must not depend on that history
	evalMods := func() *ugo.ModuleMap {
		mm := ugo.NewModuleMap()
		for _, n := range []string{"a", "b", "c", "d"} {
			mm.AddSourceModule(n, []byte("n := 0\nreturn {name: \""+n+"\", inc: func() { n++; return n }}\n"))
		}
		mm.Add("strings", stdlibModule("strings"))
		return mm
	}
	evalHistories := [][]string{
		{"x := import(\"a\")\nthrow \"boom\""},
		{"import(\"a\")\n[1][5]"},
		{"y := import(\"a\").name\nundefinedNameZ"},
		{"import(\"a\")\nimport(\"b\")\nthrow \"two\"", "import(\"c\")\n1 / (1 - 1)"},
		{"s := import(\"strings\")\nthrow s.ToUpper(\"x\")", "import(\"d\").inc()"},
		{"import(\"a\").inc()", "import(\"b\")\nthrow \"after ok\"", "q := := 1"},
	}
	evalObservers := []string{"import(\"b\").name", "[import(\"b\").name, import(\"a\").name, import(\"c\").name, import(\"d\").name]", "import(\"c\").inc() + import(\"c\").inc()", "import(\"strings\").ToUpper(import(\"d\").name)"}
	for hi, hist := range evalHistories {
		for oi, obs := range evalObservers {
			idx++
			if idx%c.NBatch != c.Batch {
				continue
			}
			hist, obs := hist, obs
			if !c.Begin(func() string { return "eval history " + strings.Join(hist, " | ") + " => " + obs }) {
				continue
			}
			run := func(ev *ugo.Eval, src string) string {
				out := ""
				if !c07bounded(func() {
					defer func() {
						if r := recover(); r != nil {
							out = "panic: " + fmt.Sprint(r)
						}
					}()
					v, _, err := ev.Run(context.Background(), []byte(src))
					if err != nil {
						out = "error: " + strings.SplitN(err.Error(), "\n", 2)[0]
					} else {
						out = canon.Value(v)
					}
				}) {
					out = "blocked for 10 s"
				}
				return out
			}
			used := ugo.NewEval(ugo.CompilerOptions{ModuleMap: evalMods()}, ugo.Map{})
			var trail []string
			for _, h := range hist {
				trail = append(trail, run(used, h))
			}
			fresh := ugo.NewEval(ugo.CompilerOptions{ModuleMap: evalMods()}, ugo.Map{})
			u, f := run(used, obs), run(fresh, obs)
			c.Count("eval_histories")
			// (inc() of a module used by the history legitimately continues counting: only observers 0, 1, 3 and the
			// c-module counter, which no history touches after a success, are compared exactly)
			if u != f && !(oi == 2 && hi == 3) {
				c.Violation("C07|eval-history|"+fmt.Sprintf("%d|%d", hi, oi), "an Eval session that had fragments failing after an import gives a later fragment something else than a new session: "+u+" vs "+f,
					c07wit{History: append(append([]string{}, hist...), trail...), Observer: obs, Why: "eval history", Used: u, Fresh: f})
			}
			c.Nontrivial(fmt.Sprintf("evalhist-%d-%d", hi, oi))
		}
	}
	// runs WITHOUT a globals map (Run(nil)): the VM supplies a fresh empty map each time, so globals written by an earlier
	// script must not be visible to the next one, whatever the termination kind and transition
	for hi, hist := range []string{
		"global X\nX = 42\nreturn X",
		"global (X, Y)\nX = [1, 2]\nY = {a: X}\nthrow error(\"after writing globals\")",
		"global X\nX = func() { return 7 }\nreturn [1][5]",
	} {
		for tri, tr := range c07transitions {
			idx++
			if idx%c.NBatch != c.Batch {
				continue
			}
			hist, tr := hist, tr
			if !c.Begin(func() string { return "nil-globals history " + tr + "\n" + hist }) {
				continue
			}
			obsSrc := "global (X, Y)\nr := [X == undefined ? \"unset\" : \"SET\", Y == undefined ? \"unset\" : \"SET\"]\nX = 1\nreturn r"
			hb, ob := env.compile(hist), env.compile(obsSrc)
			other := env.compile("return 5")
			if hb == nil || ob == nil || other == nil {
				c.Inconclusive("nil-globals probe does not compile")
				continue
			}
			vm := ugo.NewVM(hb).SetRecover(true)
			_, _ = vm.Run(nil)
			switch tr {
			case "clear":
				vm.Clear()
				vm.SetBytecode(hb)
			case "setbytecode-same":
				vm.SetBytecode(hb)
			case "setbytecode-other":
				vm.SetBytecode(other)
			default:
				vm.Clear()
				vm.SetBytecode(other)
			}
			_, _ = vm.Run(nil)
			vm.SetBytecode(ob)
			used, uerr := vm.Run(nil)
			fresh, ferr := ugo.NewVM(ob).SetRecover(true).Run(nil)
			c.Count("nil_globals_probes")
			us, fs := fmt.Sprint(uerr)+"|"+canon.Value(used), fmt.Sprint(ferr)+"|"+canon.Value(fresh)
			if uerr != nil {
				us = fmt.Sprint(uerr)
			}
			if ferr != nil {
				fs = fmt.Sprint(ferr)
			}
			if us != fs {
				c.Violation("C07|used-vs-new|nil-globals|"+tr, "with no globals map given, a script sees global variables written by an earlier script on the same VM: used VM "+us+", new VM "+fs,
					c07wit{History: []string{fmt.Sprintf("nil-globals-history-%d/%s", hi, tr)}, Observer: obsSrc, Why: "globals leak", Used: us, Fresh: fs})
			}
			c.Nontrivial(fmt.Sprintf("nilglobals-%d-%d", hi, tri))
		}
	}
	n := c.Pick(120, 40000)
	o := gen.Opts{MaxStmts: 22, MaxDepth: 4, ExprDepth: 3, Try: 0.5, Throw: 0.15, Funcs: 0.6, Shadow: 0.2, LogProb: 0.2, Globals: true, DeepRecursion: 20, Faults: 0.01, Params: 2}
	for i := 0; i < n; i++ {
		if stopExploring(c) {
			break
		}
		k := c.Rng.Intn(7)
		hist := make([][2]int, k)
		for j := range hist {
			hist[j] = [2]int{c.Rng.Intn(len(c07terms)), c.Rng.Intn(len(c07transitions))}
		}
		var obs string
		if c.Rng.Intn(3) == 0 {
			obs = c07observers[c.Rng.Intn(len(c07observers))]
		} else {
			gp := gen.Generate(c.Rng, o)
			obs = gp.Src
		}
		lt := c.Rng.Intn(2)
		desc := fmt.Sprintf("random %s lt%d\n%s", histKinds(hist), lt, obs)
		if !c.Begin(func() string { return desc }) {
			continue
		}
		if i%40 == 0 {
			env = newEnv() // bound the compile cache
		}
		if m.runCase(c, env, hist, lt, obs, "") {
			c.Nontrivial(desc)
		}
		c.Count("random_histories")
	}
}
