package props

import (
	"encoding/json"
	"fmt"
	"path/filepath"
	"strings"

	"github.com/ozanh/ugo"
	"github.com/ozanh/ugo/importers"

	"verif/internal/canon"
	"verif/internal/core"
	"verif/internal/gen"
)

// C12 — a module is loaded once per run and every import sees the same object.
type c12 struct{}

func init() { core.Register(c12{}) }

func (c12) ID() string    { return "C12" }
func (c12) Level() string { return "exploration" }
func (c12) Race() bool    { return false }
func (c12) Rule() string {
	return "import graphs of up to 5 stateful source modules (chains, diamonds, repeated/conditional imports, imports inside functions called 0..n times, loops, try statements, module functions, a callback run on a child VM) plus fixed probes " +
		"(module body throwing on first import, modules using param, builtin modules) are run under 4 configurations (optimizer off/on x direct / after encode->decode) and by the reference interpreter: " +
		"event log (one 'body-<module>' entry per module-body execution, and all state probes), value, globals and error must agree with the reference and across configurations. " +
		"Static part: import cycles of length 1..4 and unknown module names must be compile-time errors in every configuration (EXHAUSTIVE over those shapes x positions). " +
		"Builtin-module privacy: a value written into an imported builtin module by one VM is never read by a second VM running the same Bytecode. " +
		"non-trivial = >=2 import sites of one module executed in the run (counted by the reference); distinct by source hash"
}
func (c12) Batches(string) int { return 32 }
func (c12) Required(string) []string {
	return []string{"compared", "configs_run", "generated", "probes", "cycles_rejected", "unknown_rejected", "privacy_probes", "module_bodies_executed", "imports_of_already_loaded_module", "child_vm_imports", "file_importer_runs"}
}
func (c12) Assumptions() []string {
	return []string{"internal/ref module semantics (body once per run, cached value, deep copy on store as the runtime documents for copied module values)",
		"generated modules export accessor closures rather than references to their own returned container (the documented copy-on-store makes those differ by design)"}
}

type c12wit struct {
	Program *Program `json:"program"`
	Config  string   `json:"config"`
	Why     string   `json:"why"`
	Got     any      `json:"got"`
	Want    any      `json:"reference"`
}

var c12probes = []struct {
	src  string
	mods map[string]string
}{
	{ // module body throws on the first import, is imported again afterwards
		"global (L, G)\ntry {\n  import(\"flaky\")\n} catch e {\n  L(\"first\", e.Message)\n}\nG = 0\nm := import(\"flaky\")\nL(m.v)\nn := import(\"flaky\")\nL(n.v)\nreturn G",
		map[string]string{"flaky": "global (L, G)\nL(\"body-flaky\")\nif G == 3 {\n  throw \"not yet\"\n}\nreturn {v: 7}\n"},
	},
	{ // param in module: all undefined / empty
		"global L\nm := import(\"pm\")\nL(m)\nreturn import(\"pm\")",
		map[string]string{"pm": "global L\nparam (a, ...b)\nL(\"body-pm\")\nreturn [a, b]\n"},
	},
	{ // diamond
		"global L\na := import(\"a\")\nb := import(\"b\")\na.inc()\nb.inc()\nL(import(\"d\").get())\nreturn [a.get(), b.get()]",
		map[string]string{
			"a": "global L\nL(\"body-a\")\nd := import(\"d\")\nreturn {inc: func() { return d.inc() }, get: func() { return d.get() }}\n",
			"b": "global L\nL(\"body-b\")\nd := import(\"d\")\nreturn {inc: func() { return d.inc() }, get: func() { return d.get() }}\n",
			"d": "global L\nL(\"body-d\")\nn := 0\nreturn {inc: func() { n++; return n }, get: func() { return n }}\n",
		},
	},
	{ // import in function called 0 times and 3 times; import in loop
		"global L\nnever := func() { return import(\"x\") }\nthrice := func() { return import(\"y\").inc() }\nthrice()\nthrice()\nL(thrice())\nfor i := 0; i < 3; i++ {\n  L(import(\"z\").inc())\n}\nreturn 1",
		map[string]string{
			"x": "global L\nL(\"body-x\")\nreturn 1\n",
			"y": "global L\nL(\"body-y\")\nn := 0\nreturn {inc: func() { n++; return n }}\n",
			"z": "global L\nL(\"body-z\")\nn := 10\nreturn {inc: func() { n++; return n }}\n",
		},
	},
	{ // import after a failing statement in try / before it
		"global L\ntry {\n  throw \"before\"\n  import(\"x\")\n} catch {\n}\ntry {\n  import(\"y\").inc()\n  throw \"after\"\n} catch {\n}\nL(import(\"y\").inc())\nreturn 0",
		map[string]string{
			"x": "global L\nL(\"body-x\")\nreturn 1\n",
			"y": "global L\nL(\"body-y\")\nn := 0\nreturn {inc: func() { n++; return n }}\n",
		},
	},
	{ // import on a child VM through a callback, state shared with the parent run
		"global (L, CALL)\nm := import(\"y\")\nm.inc()\nL(CALL(func() { return import(\"y\").inc() }))\nL(CALL(func() { return import(\"late\").inc() }))\nL(import(\"late\").inc())\nreturn m.inc()",
		map[string]string{
			"y":    "global L\nL(\"body-y\")\nn := 0\nreturn {inc: func() { n++; return n }}\n",
			"late": "global L\nL(\"body-late\")\nn := 100\nreturn {inc: func() { n++; return n }}\n",
		},
	},
}

func init() {
	// modules whose value is not a map: a closure with state, a plain function, an array, scalars, undefined (no return), an error value
	kinds := map[string]string{
		"closure": "global L\nL(\"body-closure\")\nn := 0\nreturn func() { n++; return n }\n",
		"plainfn": "global L\nL(\"body-plainfn\")\nreturn func(a) { return a * 2 }\n",
		"arr":     "global L\nL(\"body-arr\")\nreturn [1, [2], {k: 3}]\n",
		"str":     "global L\nL(\"body-str\")\nreturn \"text\"\n",
		"num":     "global L\nL(\"body-num\")\nreturn 42\n",
		"none":    "global L\nL(\"body-none\")\nx := 1\n",
		"errv":    "global L\nL(\"body-errv\")\nreturn error(\"as value\")\n",
		"nested":  "global L\nL(\"body-nested\")\nc := import(\"closure\")\nc()\nreturn func() { return [c(), import(\"closure\")()] }\n",
	}
	add := func(src string) {
		c12probes = append(c12probes, struct {
			src  string
			mods map[string]string
		}{src, kinds})
	}
	add("global L\nc := import(\"closure\")\nL(c())\nL(c())\nd := import(\"closure\")\nL(d())\nf := func() { return import(\"closure\")() }\nL(f())\nfor i := 0; i < 2; i++ {\n  L(import(\"closure\")())\n}\nreturn c()")
	add("global L\nL(import(\"plainfn\")(2))\nL(import(\"plainfn\")(3))\nreturn import(\"plainfn\") == import(\"plainfn\")")
	add("global L\na := import(\"arr\")\na[0] = 99\na[1][0] = 98\na[2].k = 97\nL(import(\"arr\"))\nreturn [import(\"str\"), import(\"str\"), import(\"num\") + import(\"num\"), import(\"none\"), import(\"none\")]")
	add("global L\ne := import(\"errv\")\nL(isError(e), e.Message)\nL(isError(import(\"errv\")))\nreturn import(\"errv\").Message")
	add("global (L, CALL)\nn := import(\"nested\")\nL(n())\nL(CALL(func() { return import(\"nested\")() }))\nL(import(\"closure\")())\nreturn n()")
	add("global (L, CALL)\nL(CALL(func() { return import(\"closure\")() }))\nL(import(\"closure\")())\nL(CALL(import(\"closure\")))\nreturn import(\"closure\")()")
}

func init() {
	// a constant pool larger than 255 / 65535-ish entries before, between and after imports: the module constants get
	// indexes that need the high byte of their 2-byte operands (source and builtin modules)
	nums := func(from, n int) string {
		var sb strings.Builder
		for i := 0; i < n; i++ {
			if i > 0 {
				sb.WriteString(", ")
			}
			fmt.Fprintf(&sb, "%d", from+i)
		}
		return sb.String()
	}
	mods := map[string]string{
		"a": "global L\nL(\"body-a\")\nn := 0\nreturn {name: \"a\", inc: func() { n++; return n }}\n",
		"b": "global L\nL(\"body-b\")\nn := 100\nreturn {name: \"b\", inc: func() { n++; return n }}\n",
		"c": "global L\nL(\"body-c\")\nreturn func() { return import(\"b\").inc() }\n",
	}
	for _, n := range []int{120, 254, 255, 256, 300, 700} {
		c12probes = append(c12probes, struct {
			src  string
			mods map[string]string
		}{"global L\nx := import(\"a\")\nt1 := [" + nums(1000, n) + "]\ny := import(\"b\")\nt2 := [" + nums(5000, n) + "]\nz := import(\"c\")\nL(x.name, y.name, x.inc(), y.inc(), z())\nreturn [import(\"a\").inc(), import(\"b\").inc(), len(t1) + len(t2), import(\"b\").name]", mods})
	}
}

func init() {
	// source modules that declare parameters (all undefined / empty when imported), named by several import expressions
	// whose execution order differs from their order in the source
	mods := map[string]string{
		"pm":  "global L\nparam (a, b)\nL(\"body-pm\", a, b)\nn := 0\nreturn {v: [a, b], inc: func() { n++; return n }}\n",
		"pv":  "global L\nparam (a, ...rest)\nL(\"body-pv\", a, rest)\nreturn func() { return [a, rest] }\n",
		"use": "global L\nL(\"body-use\")\nreturn {get: func() { return import(\"pm\").inc() }}\n",
	}
	for _, src := range []string{
		"global L\nlate := func() {\n  return import(\"pm\")\n}\nm := import(\"pm\")\nL(m.v, m.inc())\nreturn [late().v, late().inc(), import(\"pm\").inc()]",
		"global (L, G)\nx := G < 0 ? import(\"pm\") : 0\ny := G < 0 && import(\"pv\")\nm := import(\"pm\")\nf := import(\"pv\")\nL(m.inc(), f())\nreturn [x, y, import(\"pm\").inc(), import(\"pv\")()]",
		"global L\ntry {\n  throw \"skip\"\n  import(\"pm\")\n} catch e {\n  L(import(\"pm\").inc())\n} finally {\n  L(import(\"pm\").inc())\n}\nu := import(\"use\")\nreturn [u.get(), import(\"pm\").v]",
		"global (L, CALL)\ncb := func() { return import(\"pv\")() }\nL(CALL(cb))\nL(import(\"pv\")())\nreturn CALL(func() { return import(\"pm\").inc() }) + import(\"pm\").inc()",
	} {
		c12probes = append(c12probes, struct {
			src  string
			mods map[string]string
		}{src, mods})
	}
}

func c12callGlobal(childImports *int) *ugo.Function {
	return &ugo.Function{Name: "CALL", ValueEx: func(c ugo.Call) (ugo.Object, error) {
		if c.Len() < 1 {
			return ugo.Undefined, nil
		}
		if c.VM() == nil {
			// reference interpreter: closures are called directly
			return c.Get(0).Call()
		}
		*childImports++
		inv := ugo.NewInvoker(c.VM(), c.Get(0))
		inv.Acquire()
		defer inv.Release()
		return inv.Invoke()
	}}
}

func (m c12) configs(c *core.Ctx, p *Program, args []ugo.Object) (compared bool, r refOutcome) {
	childImports := 0
	extra := func() ugo.Map { return ugo.Map{"G": ugo.Int(3), "CALL": c12callGlobal(&childImports)} }
	r = runRef(p, args, extra(), 300000)
	if r.Discard != "" {
		c.Count("discarded_by_reference")
		c.SetAdd("reference_discards", trunc(r.Discard, 80))
		return false, r
	}
	mm := moduleMapFor(p)
	for _, cfg := range []struct {
		name string
		opt  int
		enc  bool
	}{{"noopt-direct", -1, false}, {"opt-direct", 0, false}, {"noopt-encoded", -1, true}, {"opt-encoded", 0, true}} {
		cr := compileProgram(p, cfg.opt)
		if cr.panicv != "" {
			c.Violation("C12|compile-panic|"+cr.ptop, "Compile panics: "+cr.panicv, c12wit{Program: p, Config: cfg.name})
			return false, r
		}
		if cr.err != nil {
			if cfg.opt == -1 {
				c.Count("discarded_compile_error")
				c.SetAdd("compile_errors", trunc(core.NormMsg(cr.err.Error()), 80))
				return false, r
			}
			c.Count("optimizer_refused")
			continue
		}
		bc := cr.bc
		if cfg.enc {
			b, err, pan := safeEncode(bc)
			if err != nil || pan != "" {
				c.Violation("C12|encode-fails", "encode fails: "+fmt.Sprint(err)+pan, c12wit{Program: p, Config: cfg.name})
				continue
			}
			dec, err, pan := safeDecode(b, mm)
			if err != nil || pan != "" {
				c.Violation("C12|decode-fails", "decode fails: "+fmt.Sprint(err)+pan, c12wit{Program: p, Config: cfg.name})
				continue
			}
			bc = dec
		}
		vm := runVM(bc, args, extra(), false)
		c.Count("configs_run")
		if vm.Kind == "timeout" {
			c.Inconclusive("watchdog " + cfg.name)
			continue
		}
		c.Count("compared")
		if ok, why := sameOutcome(vm, r); !ok {
			cls := why
			if i := strings.Index(cls, ":"); i > 0 {
				cls = cls[:i]
			}
			c.Violation("C12|ref-mismatch|"+cfg.name+"|"+cls+"|"+progHash(p), "module semantics differ from the reference under "+cfg.name+" ("+why+")", c12wit{Program: p, Config: cfg.name, Why: why, Got: vm, Want: r.Outcome})
			return true, r
		}
	}
	c.CountN("child_vm_imports", int64(childImports))
	return true, r
}

func c12cycleCases() []struct {
	desc string
	p    *Program
} {
	var out []struct {
		desc string
		p    *Program
	}
	add := func(desc, src string, mods map[string]string) {
		out = append(out, struct {
			desc string
			p    *Program
		}{desc, &Program{Src: src, Modules: mods}})
	}
	positions := []string{
		"return import(\"c0\")",
		"f := func() { return import(\"c0\") }\nreturn 1",
		"global G\nif G == 99 {\n  import(\"c0\")\n}\nreturn 1",
		"for i := 0; i < 0; i++ {\n  import(\"c0\")\n}\nreturn 1",
		"try {\n  import(\"c0\")\n} catch {\n}\nreturn 1",
	}
	for n := 1; n <= 4; n++ {
		for _, pos := range positions {
			for _, inner := range []string{"top", "func"} {
				mods := map[string]string{}
				for i := 0; i < n; i++ {
					next := fmt.Sprintf("c%d", (i+1)%n)
					if inner == "top" {
						mods[fmt.Sprintf("c%d", i)] = "x := import(\"" + next + "\")\nreturn x\n"
					} else {
						mods[fmt.Sprintf("c%d", i)] = "return func() { return import(\"" + next + "\") }\n"
					}
				}
				add(fmt.Sprintf("cycle len=%d pos=%q inner=%s", n, pos, inner), pos, mods)
			}
		}
	}
	return out
}

func (m c12) Run(c *core.Ctx) {
	if c.Replay != nil {
		var w c12wit
		if json.Unmarshal(c.Replay, &w) == nil && w.Program != nil {
			m.configs(c, w.Program, parseIntArgs(w.Program.Args))
		}
		return
	}
	idx := 0
	for _, pr := range c12probes {
		idx++
		if idx%c.NBatch != c.Batch {
			continue
		}
		p := &Program{Src: pr.src, Modules: pr.mods, Tags: []string{"probe"}}
		if !c.Begin(func() string { return pr.src }) {
			continue
		}
		ok, r := m.configs(c, p, nil)
		if ok {
			c.Count("probes")
			m.note(c, p, r)
		}
	}
	// "at most once", read literally: a module body that threw (or that is entered again through a callback while it is
	// still running) has executed, and is executed again by the next import. The reference model follows the
	// implementation here (only a completed body is cached), so the two shapes are counted by their log and listed as
	// known findings rather than left to the comparison above.
	for _, kc := range []struct {
		name, src string
		mods      map[string]string
		marker    string
	}{
		{"body-threw", "global (L, G)\ntry {\n  import(\"flaky\")\n} catch e {\n  L(\"first\", e.Message)\n}\nG = 0\nm := import(\"flaky\")\nL(m.v)\nreturn import(\"flaky\").v",
			map[string]string{"flaky": "global (L, G)\nL(\"body-flaky\")\nif G == 3 {\n  throw \"not yet\"\n}\nreturn {v: 7}\n"}, "body-flaky"},
		{"re-entered-through-callback", "global (L, G)\nn := 0\nG = func() {\n  n++\n  if n < 3 {\n    return import(\"re\")\n  }\n  return undefined\n}\nimport(\"re\")\nreturn n",
			map[string]string{"re": "global (L, G)\nL(\"body-re\")\nG()\nreturn {}\n"}, "body-re"},
	} {
		idx++
		if idx%c.NBatch != c.Batch {
			continue
		}
		kc := kc
		if !c.Begin(func() string { return "literal at-most-once: " + kc.name + "\n" + kc.src }) {
			continue
		}
		p := &Program{Src: kc.src, Modules: kc.mods, Tags: []string{"literal-once"}}
		for _, opt := range []int{-1, 0} {
			cr := compileProgram(p, opt)
			if cr.err != nil || cr.panicv != "" {
				c.Inconclusive("literal at-most-once case does not compile: " + kc.name)
				continue
			}
			g := ugo.Map{"G": ugo.Int(3)}
			out := runVM(cr.bc, nil, g, true)
			n := strings.Count(out.Log, kc.marker)
			c.Count("literal_once_runs")
			switch {
			case n == 1:
				c.Count("literal_once_body_ran_once")
			case n > 1:
				c.Violation("C12|known-shape|body-executed-again|"+kc.name, fmt.Sprintf("the body of a source module ran %d times in one VM run (%s)", n, kc.name), c12wit{Program: p, Config: fmt.Sprintf("opt=%d", opt), Why: kc.name, Got: out.Log})
			default:
				c.Inconclusive("literal at-most-once case: body never ran: " + kc.name + " " + out.Kind + " " + out.ErrMsg)
			}
		}
		c.Nontrivial("literal-once " + kc.name)
	}
	// static: cycles and unknown modules
	for _, cc := range c12cycleCases() {
		idx++
		if idx%c.NBatch != c.Batch {
			continue
		}
		cc := cc
		if !c.Begin(func() string { return cc.desc }) {
			continue
		}
		for _, opt := range []int{-1, 0} {
			cr := compileProgram(cc.p, opt)
			if cr.panicv != "" {
				c.Violation("C12|cycle-compile-panic|"+cr.ptop, "Compile panics on an import cycle: "+cr.panicv, c12wit{Program: cc.p, Config: cc.desc})
			} else if cr.err == nil {
				c.Violation("C12|cycle-accepted", "an import cycle compiles without error: "+cc.desc, c12wit{Program: cc.p, Config: cc.desc})
			} else {
				c.Count("cycles_rejected")
				c.SetAdd("cycle_error_messages", trunc(core.NormMsg(cr.err.Error()), 60))
			}
		}
		c.Nontrivial(cc.desc)
	}
	for i, src := range []string{"return import(\"nope\")", "f := func() { return import(\"nope\") }\nreturn 1", "m := import(\"known\")\nreturn 1"} {
		idx++
		if idx%c.NBatch != c.Batch {
			continue
		}
		if !c.Begin(func() string { return "unknown module " + src }) {
			continue
		}
		p := &Program{Src: src, Modules: map[string]string{"known": "return import(\"nope2\")\n"}}
		for _, opt := range []int{-1, 0} {
			cr := compileProgram(p, opt)
			if cr.err == nil || cr.panicv != "" {
				c.Violation("C12|unknown-module-accepted", "import of an unknown module is not a compile-time error: "+src+" "+cr.panicv, c12wit{Program: p})
			} else {
				c.Count("unknown_rejected")
			}
		}
		_ = i
	}
	// a module's variables are reachable only through the value it returns
	idx++
	if idx%c.NBatch == c.Batch && c.Begin(func() string { return "module variable privacy" }) {
		p := &Program{Src: "m := import(\"priv\")\nreturn secret", Modules: map[string]string{"priv": "secret := 42\nreturn func() { return secret }\n"}}
		for _, opt := range []int{-1, 0} {
			cr := compileProgram(p, opt)
			if cr.err == nil || !strings.Contains(cr.err.Error(), "unresolved reference") {
				c.Violation("C12|module-variable-visible", "a module's top-level variable is visible to the importing script", c12wit{Program: p})
			} else {
				c.Count("module_private_checks")
			}
		}
		q := &Program{Src: "global L\nsecret := 1\nm := import(\"priv\")\nL(m())\nsecret = 2\nreturn [m(), secret]", Modules: p.Modules}
		if ok, _ := m.configs(c, q, nil); ok {
			c.Count("module_private_checks")
		}
	}
	// builtin module privacy (two VMs, one bytecode, interleaved sequentially)
	for _, mod := range []string{"strings", "time", "fmt", "json"} {
		idx++
		if idx%c.NBatch != c.Batch {
			continue
		}
		if !c.Begin(func() string { return "privacy " + mod }) {
			continue
		}
		// layouts: execution order of the imports equal to / different from their order in the source
		imp := "import(\"" + mod + "\")"
		layouts := []string{
			"param id\nm := " + imp + "\nold := m.Marker\nm.Marker = id\nm.nested = {id: id}\nreturn [old, " + imp + ".Marker]",
			"param id\nlate := func() {\n  return " + imp + "\n}\nm := " + imp + "\nold := m.Marker\nm.Marker = id\nm.nested = {id: id}\nreturn [old, late().Marker]",
			"param id\nvar never\nif id < 0 {\n  never = " + imp + "\n}\nm := " + imp + "\nold := m.Marker\nm.Marker = id\nm.nested = {id: id}\nreturn [old, " + imp + ".Marker]",
			"param id\nold := undefined\nfor i := 0; i < 2; i++ {\n  if i == 1 {\n    old = " + imp + ".Marker\n  } else {\n    m := " + imp + "\n    old = m.Marker\n    m.Marker = id\n  }\n}\nreturn [old == id ? undefined : old, " + imp + ".Marker]",
			"param id\nf := func(first) {\n  if first {\n    return " + imp + ".Marker\n  }\n  mm := " + imp + "\n  mm.Marker = id\n  return mm.nested\n}\ng := func() {\n  m := " + imp + "\n  old := m.Marker\n  f(false)\n  return old\n}\nreturn [g(), f(true)]",
		}
		for li, opt := 0, 0; li < 2*len(layouts); li++ {
			p := &Program{Src: layouts[li/2], Builtin: []string{mod}, Tags: []string{fmt.Sprintf("layout %d", li/2)}}
			opt = []int{-1, 0}[li%2]
			cr := compileProgram(p, opt)
			if cr.err != nil {
				c.Inconclusive("privacy probe does not compile: " + cr.err.Error())
				continue
			}
			for round := 1; round <= 3; round++ {
				o := canon.RunBytecode(cr.bc, canon.RunOpts{Args: []ugo.Object{ugo.Int(round)}})
				want := fmt.Sprintf("[undefined,i:%d]", round)
				c.Count("privacy_probes")
				if o.Value != want {
					c.Violation("C12|builtin-module-shared|"+mod, "a change made to an imported builtin module by one VM is visible to another VM (or import returned a different object): got "+o.Value+o.ErrMsg+" want "+want, c12wit{Program: p, Got: o})
				}
			}
		}
		c.Nontrivial("privacy " + mod)
	}
	// nested mutable attributes (empty and non-empty containers) of a builtin module are private per VM too
	idx++
	if idx%c.NBatch == c.Batch && c.Begin(func() string { return "privacy nested containers" }) {
		p := &Program{Src: "param id\np := import(\"plugins\")\nkey := \"k\" + id\np.registry[key] = true\np.nested.inner[key] = id\np.nested.arr[0][key] = id\np.state.n++\np.log[0] += 10\np.buf[0] += 1\np.sync[key] = id\nq := import(\"plugins\")\nreturn [len(q.registry), len(q.nested.inner), len(q.nested.arr[0]), q.state.n, q.log[0], q.buf[0], len(q.sync)]", Builtin: []string{"plugins"}}
		for _, enc := range []bool{false, true} {
			for _, opt := range []int{-1, 0} {
				cr := compileProgram(p, opt)
				if cr.err != nil {
					c.Inconclusive("nested privacy probe does not compile: " + cr.err.Error())
					continue
				}
				bc := cr.bc
				if enc {
					b, err, pan := safeEncode(bc)
					if err != nil || pan != "" {
						continue
					}
					d, err, pan := safeDecode(b, moduleMapFor(p))
					if err != nil || pan != "" {
						c.Violation("C12|decode-fails", "decode fails: "+fmt.Sprint(err)+pan, c12wit{Program: p})
						continue
					}
					bc = d
				}
				for round := 1; round <= 3; round++ {
					o := canon.RunBytecode(bc, canon.RunOpts{Args: []ugo.Object{ugo.Int(round)}})
					want := "[i:1,i:1,i:1,i:1,i:10,i:1,i:1]"
					c.Count("privacy_probes")
					if o.Value != want {
						c.Violation("C12|builtin-module-shared|nested", "nested state of an imported builtin module written by one VM is visible to the next VM over the same Bytecode: got "+o.Value+o.ErrMsg+" want "+want, c12wit{Program: p, Got: o})
						break
					}
				}
			}
		}
		c.Nontrivial("privacy nested")
	}
	// file modules through the repository's FileImporter (module names are paths derived from the importing file's
	// directory): the same file reached from the main script and from other files is ONE module, for every kind of
	// working directory the host may configure (empty, ".", relative, absolute)
	fileGraphs := []struct {
		main  string
		files map[string]string
	}{
		{"global L\ns := import(\"./shared.ugo\")\ns.inc()\na := import(\"./a.ugo\")\nL(a.peek())\nL(import(\"./shared.ugo\").inc())\nreturn [s.inc(), a.peek()]",
			map[string]string{"shared.ugo": "global L\nL(\"body-shared\")\nn := 0\nreturn {inc: func() { n++; return n }, get: func() { return n }}\n",
				"a.ugo": "global L\nL(\"body-a\")\nsh := import(\"./shared.ugo\")\nsh.inc()\nreturn {peek: func() { return sh.get() }}\n"}},
		{"global L\na := import(\"./a.ugo\")\nb := import(\"./b.ugo\")\nL(a(), b())\nreturn [import(\"./leaf.ugo\")(), a(), b()]",
			map[string]string{"leaf.ugo": "global L\nL(\"body-leaf\")\nn := 0\nreturn func() { n++; return n }\n",
				"a.ugo": "global L\nL(\"body-a\")\nl := import(\"./leaf.ugo\")\nreturn func() { return l() }\n",
				"b.ugo": "global L\nL(\"body-b\")\nreturn func() { return import(\"./leaf.ugo\")() + 100 }\n"}},
	}
	for gi, fg := range fileGraphs {
		idx++
		if idx%c.NBatch != c.Batch {
			continue
		}
		fg := fg
		if !c.Begin(func() string { return "file importer graph\n" + fg.main }) {
			continue
		}
		// reference: module identity by import text (all files live in one directory)
		mods := map[string]string{}
		for name, src := range fg.files {
			mods["./"+name] = src
		}
		p := &Program{Src: fg.main, Modules: mods, Tags: []string{"file-importer"}}
		r := runRef(p, nil, ugo.Map{"G": ugo.Int(3)}, 300000)
		if r.Discard != "" {
			c.Inconclusive("file importer graph discarded by the reference: " + r.Discard)
			continue
		}
		for _, wd := range []string{"", ".", "mods", "mods/sub", "/abs/dir"} {
			for _, opt := range []bool{true, false} {
				mm := ugo.NewModuleMap().SetExtImporter(memFileImporter(fg.files, wd, nil))
				cr := safeCompile([]byte(fg.main), ugo.CompilerOptions{ModuleMap: mm, NoOptimize: opt})
				if cr.err != nil || cr.panicv != "" {
					c.Violation("C12|file-importer|compile-fails", "a file module graph does not compile with WorkDir "+fmt.Sprintf("%q", wd)+": "+fmt.Sprint(cr.err)+cr.panicv, c12wit{Program: p, Config: "workdir=" + wd})
					continue
				}
				vm := runVM(cr.bc, nil, ugo.Map{"G": ugo.Int(3)}, false)
				c.Count("file_importer_runs")
				if ok, why := sameOutcome(vm, r); !ok {
					c.Violation("C12|file-importer|"+strings.SplitN(why, ":", 2)[0], "file modules: the same file imported from the main script and from another file is not one module (WorkDir "+fmt.Sprintf("%q", wd)+"): "+why, c12wit{Program: p, Config: "workdir=" + wd, Why: why, Got: vm, Want: r.Outcome})
					break
				}
			}
		}
		c.Nontrivial(fmt.Sprintf("filegraph-%d", gi))
	}
	// file modules in SEVERAL directories: the same relative import text ("./util.ugo") written in files of different
	// directories names different files, and one file reached by different spellings is one module. Expected outcome by
	// construction (every file reports its own tag; counters show which imports share an object).
	{
		files := map[string]string{
			"a/mod.ugo":    "global L\nL(\"body-a-mod\")\nu := import(\"./util.ugo\")\nreturn {tag: func() { return u.tag }, inc: func() { return u.inc() }}\n",
			"b/mod.ugo":    "global L\nL(\"body-b-mod\")\nu := import(\"./util.ugo\")\nreturn {tag: func() { return u.tag }, inc: func() { return u.inc() }}\n",
			"a/util.ugo":   "global L\nL(\"body-a-util\")\nn := 0\nreturn {tag: \"a-util\", inc: func() { n++; return n }}\n",
			"b/util.ugo":   "global L\nL(\"body-b-util\")\nn := 100\nreturn {tag: \"b-util\", inc: func() { n++; return n }}\n",
			"b/c/deep.ugo": "global L\nL(\"body-deep\")\nu := import(\"../util.ugo\")\nv := import(\"./util.ugo\")\nreturn [u.tag, u.inc(), v.tag]\n",
			"b/c/util.ugo": "global L\nL(\"body-c-util\")\nreturn {tag: \"c-util\"}\n",
		}
		mains := []struct{ src, want, wantLog string }{
			{"global L\na := import(\"./a/mod.ugo\")\nb := import(\"./b/mod.ugo\")\nbu := import(\"./b/util.ugo\")\nreturn [a.tag(), b.tag(), bu.tag, a.inc(), b.inc(), bu.inc(), import(\"./a/util.ugo\").inc()]",
				"[s:\"a-util\",s:\"b-util\",s:\"b-util\",i:1,i:101,i:102,i:2]", "body-a-mod,body-a-util,body-b-mod,body-b-util"},
			{"global L\nbu := import(\"./b/util.ugo\")\nb := import(\"./b/mod.ugo\")\na := import(\"./a/mod.ugo\")\nd := import(\"./b/c/deep.ugo\")\nreturn [a.tag(), b.tag(), bu.tag, d, b.inc()]",
				"[s:\"a-util\",s:\"b-util\",s:\"b-util\",[s:\"b-util\",i:101,s:\"c-util\"],i:102]", "body-b-util,body-b-mod,body-a-mod,body-a-util,body-deep,body-c-util"},
		}
		for mi, mn := range mains {
			idx++
			if idx%c.NBatch != c.Batch {
				continue
			}
			mn := mn
			if !c.Begin(func() string { return "file importer, several directories\n" + mn.src }) {
				continue
			}
			p := &Program{Src: mn.src, Tags: []string{"file-importer-dirs"}}
			for _, wd := range []string{"", ".", "mods", "/abs/dir"} {
				for _, noopt := range []bool{true, false} {
					wd := wd
					imp := &importers.FileImporter{WorkDir: wd, FileReader: func(path string) ([]byte, error) {
						// the importer hands over a cleaned path below its working directory (absolute when WorkDir is
						// empty or relative): the file is the one whose name is the longest matching tail of that path
						q := filepath.ToSlash(filepath.Clean(path))
						best := ""
						for name := range files {
							if (q == name || strings.HasSuffix(q, "/"+name)) && len(name) > len(best) {
								best = name
							}
						}
						if best != "" {
							return []byte(files[best]), nil
						}
						return nil, fmt.Errorf("no such file %s", path)
					}}
					cr := safeCompile([]byte(mn.src), ugo.CompilerOptions{ModuleMap: ugo.NewModuleMap().SetExtImporter(imp), NoOptimize: noopt})
					if cr.err != nil || cr.panicv != "" {
						c.Violation("C12|file-importer-dirs|compile-fails", "a file module graph over several directories does not compile with WorkDir "+fmt.Sprintf("%q", wd)+": "+fmt.Sprint(cr.err)+cr.panicv, c12wit{Program: p, Config: "workdir=" + wd})
						continue
					}
					vm := runVM(cr.bc, nil, nil, false)
					c.Count("file_importer_dir_runs")
					var bodies []string
					for _, e := range strings.Split(vm.Log, ";") {
						if i := strings.Index(e, "body-"); i >= 0 {
							bodies = append(bodies, strings.Trim(e[i:], "\" "))
						}
					}
					if vm.Kind != "value" || vm.Value != mn.want || strings.Join(bodies, ",") != mn.wantLog {
						c.Violation("C12|file-importer-dirs|"+vm.Kind, fmt.Sprintf("file modules in several directories (WorkDir %q): got %s %s bodies %v, want %s bodies %s", wd, vm.Kind, trunc(vm.Value+vm.ErrMsg, 200), bodies, mn.want, mn.wantLog), c12wit{Program: p, Config: "workdir=" + wd, Got: vm})
						break
					}
				}
			}
			c.Nontrivial(fmt.Sprintf("filegraph-dirs-%d", mi))
		}
	}
	// generated graphs
	n := c.Pick(150, 15000)
	o := gen.Opts{MaxStmts: 22, MaxDepth: 4, ExprDepth: 2, Try: 0.4, Throw: 0.15, Funcs: 0.7, Shadow: 0.1, LogProb: 0.1, Globals: true, DeepRecursion: 10, Faults: 0.003, ImportProb: 0.3}
	for i := 0; i < n; i++ {
		if stopExploring(c) {
			break
		}
		o.Modules = 1 + c.Rng.Intn(5)
		o.Params = c.Rng.Intn(2)
		gp := gen.Generate(c.Rng, o)
		p := fromGen(gp)
		args := make([]ugo.Object, o.Params)
		for j := range args {
			args[j] = ugo.Int(c.Rng.Intn(5) - 1)
		}
		p.Args = renderArgs(args)
		if !c.Begin(func() string { return p.Src + fmt.Sprintf("\n// modules %v args %v", p.Modules, p.Args) }) {
			continue
		}
		ok, r := m.configs(c, p, args)
		if !ok {
			continue
		}
		c.Count("generated")
		m.note(c, p, r)
		if i%61 == 0 {
			c.Sample(map[string]any{"src": p.Src, "modules": p.Modules})
		}
	}
}

func (m c12) note(c *core.Ctx, p *Program, r refOutcome) {
	if r.In == nil {
		return
	}
	multi := false
	for name, sites := range r.In.ImportSites {
		execs := r.In.ImportsExec[name]
		c.CountN("module_bodies_executed", int64(execs))
		if sites > execs {
			c.CountN("imports_of_already_loaded_module", int64(sites-execs))
		}
		if sites >= 2 {
			multi = true
		}
	}
	if multi {
		c.Nontrivial(progHash(p))
	}
}
