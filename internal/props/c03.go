package props

import (
	"encoding/json"
	"fmt"
	"os"
	"strings"
	"time"

	"github.com/ozanh/ugo"

	"verif/internal/canon"

	"verif/internal/core"
	"verif/internal/gen"
)

// C03 — finally runs exactly once on every exit path and the pending outcome survives it.
type c03 struct{}

func init() { core.Register(c03{}) }

func (c03) ID() string    { return "C03" }
func (c03) Level() string { return "exploration" }
func (c03) Race() bool    { return false }
func (c03) Rule() string {
	return "trees over {L, try/catch, try/finally, try/catch/finally, 2-iteration loop, return, break, continue, throw, runtime error, call of a throwing helper, call of a helper returning through its own finally} " +
		"with exits at every position (try, catch, finally), nesting <=3, <=2 statements per block: EXHAUSTIVE for sizes 1..3 under every (history prefix x wrapper) combination " +
		"(10 history prefixes of already-completed try statements x 4 wrappers: function called once / called from another function's try-finally / called twice from a loop / at script top level), " +
		"size 4 exhaustive with rotating (history, wrapper) in quick and all combinations in thorough, size 5..9 seeded samples; both optimizer settings. " +
		"Oracle: the event log L(id,...) (order AND multiplicity of every try/catch/finally body), returned value and uncaught error must equal the reference interpreter's (ECMAScript completion semantics as documented). " +
		"non-trivial = the reference entered at least one finally block through a non-normal completion; distinct by source hash"
}
func (c03) Batches(tier string) int {
	if tier == "thorough" {
		return 64
	}
	return 32
}
func (c03) Required(string) []string {
	return []string{"compared", "ref.finally-on-1", "ref.finally-on-2", "ref.finally-on-3", "ref.finally-on-throw", "ref.finally-overrides", "ref.catch-entered",
		"exit.ret@finally", "exit.brk@finally", "exit.cont@finally", "exit.throw@finally", "exit.ret@catch", "exit.throw@catch", "exit.rterr@try", "exit.callthrow@try", "history.3", "wrapper.1", "wrapper.2", "wrapper.3", "recursion_try_matrix"}
}
func (c03) Assumptions() []string {
	return []string{"internal/ref implements ECMAScript try/catch/finally completion semantics as docs/error-handling.md states", "parser shared with the code under test"}
}

var c03histories = [][]int{{}, {0}, {1}, {2}, {3}, {4}, {5}, {0, 1}, {3, 5}, {1, 2, 4}}

type c03case struct {
	Src     string `json:"src"`
	History []int  `json:"history"`
	Wrapper int    `json:"wrapper"`
}

// c03priorSrcs: scripts whose run is cut short by Abort while a function called from inside a try statement is running (the
// main function, or a function one level down, is in the middle of try / catch / finally at that moment).
var c03priorSrcs = []string{
	"global ABORT\nf := func() {\n  ABORT()\n  for {\n  }\n}\ntry {\n  f()\n} catch e {\n  return 1\n} finally {\n  x := 2\n}\nreturn 3",
	"global ABORT\nf := func() {\n  ABORT()\n  for {\n  }\n}\ng := func() {\n  try {\n    throw 1\n  } catch e {\n    return f()\n  } finally {\n    x := 2\n  }\n}\nh := func() {\n  try {\n    return g()\n  } finally {\n    y := 1\n  }\n}\nreturn h()",
	"global ABORT\nf := func() {\n  ABORT()\n  for {\n  }\n}\nfor i := 0; i < 2; i++ {\n  try {\n    try {\n      throw i\n    } finally {\n      f()\n    }\n  } catch e {\n  }\n}\nreturn 0",
}

var c03priorBC []*ugo.Bytecode
var c03usedEvery int
var c03usedOff bool // set after a hang or 20 reports: this worker makes no further used-VM runs
var c03usedViol int

// usedVM runs p on VMs whose previous run was abandoned inside try statements (then given the new Bytecode, as Eval, a
// REPL or a host re-using its VM does) and compares with a new VM: try / catch / finally of this run must not be
// affected by the try statements the previous run never left.
func (m c03) usedVM(c *core.Ctx, p *Program) {
	if c03priorBC == nil {
		for _, src := range c03priorSrcs {
			bc, err := ugo.Compile([]byte(src), ugo.CompilerOptions{})
			if err != nil {
				c.Inconclusive("C03 prior script does not compile: " + err.Error())
				return
			}
			c03priorBC = append(c03priorBC, bc)
		}
	}
	cr := compileProgram(p, -1)
	if cr.err != nil || cr.panicv != "" {
		return
	}
	fresh := runVM(cr.bc, nil, ugo.Map{"G": ugo.Int(3)}, false)
	if fresh.Kind == "timeout" {
		return
	}
	for pi, prior := range c03priorBC {
		vm := ugo.NewVM(prior)
		ab := &ugo.Function{Name: "ABORT", Value: func(...ugo.Object) (ugo.Object, error) {
			vm.Abort()
			return ugo.Undefined, nil
		}}
		if _, perr := vm.Run(ugo.Map{"ABORT": ab}); perr == nil {
			c.Inconclusive("C03 prior run was not cut short")
			continue
		}
		vm.SetBytecode(cr.bc)
		rec := &canon.Recorder{}
		used := canon.RunBytecode(cr.bc, canon.RunOpts{VM: vm, Globals: ugo.Map{"L": rec.Func(), "G": ugo.Int(3)}, LogOf: rec.String, Timeout: 60 * time.Second})
		c.Count("used_vm_runs")
		if used.Kind == "timeout" {
			// the same script ended by itself on a new VM: on the used VM it does not. One report, then this worker stops
			// making used-VM runs (every further one would wait for the watchdog too)
			c03usedOff = true
			c.Violation(fmt.Sprintf("C03|used-vm-hang|prior%d", pi), "on a VM whose previous run was aborted inside try statements a script that ends by itself on a new VM was still running after 60 s (the script takes microseconds; stopped by Abort, i.e. it was executing instructions)",
				c02wit{Program: p, Why: fmt.Sprintf("used VM, prior %d: hang", pi), Ref: fresh})
			return
		}
		if used.Key(false) != fresh.Key(false) {
			if c03usedViol++; c03usedViol >= 20 {
				c03usedOff = true
			}
			c.Violation(fmt.Sprintf("C03|used-vm|prior%d|%s", pi, progHash(p)), fmt.Sprintf("on a VM whose previous run was aborted inside try statements the script's try/catch/finally behave differently than on a new VM (new: %s %s | used: %s %s)", fresh.Kind, trunc(fresh.Log, 80), used.Kind, trunc(used.Log, 80)),
				c02wit{Program: p, Why: fmt.Sprintf("used VM, prior %d", pi), VM: used, Ref: fresh})
			return
		}
	}
}

func (m c03) one(c *core.Ctx, stmts []*gen.TNode, hist []int, wrapper int, sample bool) {
	src, exits := gen.RenderTry(stmts, hist, wrapper)
	p := &Program{Src: src, Tags: []string{fmt.Sprintf("history=%v wrapper=%d", hist, wrapper)}}
	if !c.Begin(func() string { return src }) {
		return
	}
	ok, r := checkAgainstRef(c, "C03", p, nil, 100000)
	if !ok {
		return
	}
	if c03usedEvery++; c03usedEvery%5 == 0 && !c03usedOff {
		m.usedVM(c, p)
	}
	for k, v := range exits {
		c.CountN("exit."+k, int64(v))
	}
	c.Count(fmt.Sprintf("history.%d", len(hist)))
	c.Count(fmt.Sprintf("wrapper.%d", wrapper))
	countFeatures(c, r.In, "ref.")
	if r.In.FinallyAbrupt > 0 {
		c.Nontrivial(progHash(p))
	}
	if sample {
		c.Sample(c03case{Src: src, History: hist, Wrapper: wrapper})
	}
}

func (m c03) Run(c *core.Ctx) {
	if c.Replay != nil {
		var w c02wit
		if json.Unmarshal(c.Replay, &w) == nil && w.Program != nil {
			if os.Getenv("VERIF_MINIMIZE") != "" {
				min := minimizeLines(w.Program.Src, func(src string) bool {
					q := *w.Program
					q.Src = src
					sub := core.NewScratchCtx(c)
					checkAgainstRef(sub, "C03", &q, nil, 100000)
					return sub.NumViolations() > 0
				})
				fmt.Println("---- minimized ----")
				fmt.Print(min)
				w.Program.Src = min
			}
			checkAgainstRef(c, "C03", w.Program, nil, 100000)
		}
		return
	}
	e := gen.NewTryEnum(2)
	idx := 0
	// sizes 1..3: every tree under every (history, wrapper)
	for size := 1; size <= 3; size++ {
		for _, tr := range e.List(size, 3, false) {
			for hi, h := range c03histories {
				for w := 0; w < 4; w++ {
					idx++
					if idx%c.NBatch != c.Batch {
						continue
					}
					m.one(c, tr, h, w, idx%20011 == 0)
					_ = hi
				}
			}
		}
	}
	c.Count("exhaustive_size_1_3_done")
	// size 4
	l4 := e.List(4, 3, false)
	for ti, tr := range l4 {
		if c.Thorough() {
			for _, h := range c03histories {
				for w := 0; w < 4; w++ {
					idx++
					if idx%c.NBatch != c.Batch {
						continue
					}
					m.one(c, tr, h, w, false)
				}
			}
		} else {
			idx++
			if idx%c.NBatch != c.Batch {
				continue
			}
			m.one(c, tr, c03histories[(ti+int(c.Seed))%len(c03histories)], (ti/len(c03histories)+int(c.Seed))%4, ti%30011 == 0)
		}
	}
	// recursion x try matrix (exhaustive in both tiers)
	for ri, src := range gen.RecursionTryMatrix() {
		idx++
		if idx%c.NBatch != c.Batch {
			continue
		}
		src := src
		p := &Program{Src: src, Tags: []string{"recursion-try-matrix"}}
		if !c.Begin(func() string { return src }) {
			continue
		}
		ok, r := checkAgainstRef(c, "C03", p, nil, 100000)
		if ok {
			c.Count("recursion_try_matrix")
			countFeatures(c, r.In, "ref.")
			if r.In.FinallyAbrupt > 0 || r.In.Features["catch-entered"] > 0 {
				c.Nontrivial(progHash(p))
			}
			if ri%97 == 0 {
				c.Sample(c03case{Src: src})
			}
		}
	}
	// the call-frame limit reached inside try statements: StackOverflowError is a runtime error like any other, raised by
	// the call that would exceed the limit in the activation that makes it. The reference interpreter has no frame limit,
	// so these are judged by laws over counters the script keeps itself: with a catch in every activation each entered
	// activation but the deepest adds one (result == entries - 1); with a finally in every activation every entered
	// activation's finally runs exactly once (finallies == entries).
	for _, fl := range []struct{ name, src string }{
		{"catch-in-every-activation", "var f\nn := 0\nf = func() {\n  n++\n  try {\n    return f() + 1\n  } catch {\n    return 0\n  }\n}\nr := f()\nreturn [r == n - 1, r, n]"},
		{"finally-in-every-activation", "var f\nn := 0\nm := 0\nf = func() {\n  n++\n  try {\n    return f() + 1\n  } finally {\n    m++\n  }\n}\nmsg := \"\"\ntry {\n  f()\n} catch e {\n  msg = string(e)\n}\nreturn [m == n && msg != \"\", m, n, msg]"},
		{"catch-and-finally-alternating", "var f\nn := 0\nm := 0\nf = func() {\n  n++\n  if n % 2 == 0 {\n    try {\n      return f() + 1\n    } catch {\n      return 0\n    } finally {\n      m++\n    }\n  }\n  try {\n    return f() + 1\n  } finally {\n    m++\n  }\n}\nr := f()\nreturn [m == n && r >= 0 && r < n, m, n]"},
	} {
		idx++
		if idx%c.NBatch != c.Batch {
			continue
		}
		fl := fl
		if !c.Begin(func() string { return "frame-limit law " + fl.name + "\n" + fl.src }) {
			continue
		}
		p := &Program{Src: fl.src, Tags: []string{"frame-limit-law"}}
		for _, opt := range []int{-1, 0} {
			cr := compileProgram(p, opt)
			if cr.err != nil || cr.panicv != "" {
				c.Inconclusive("frame-limit law script does not compile: " + fl.name)
				continue
			}
			for _, rec := range []bool{true, false} {
				out := runVM(cr.bc, nil, nil, rec)
				c.Count("frame_limit_law_runs")
				if out.Kind == "value" && strings.HasPrefix(out.Value, "[true,") || strings.HasPrefix(out.Value, "[true ") {
					c.Count("frame_limit_law_held")
					continue
				}
				c.Violation("C03|frame-limit-law|"+fl.name, fmt.Sprintf("StackOverflowError raised inside try statements is not delivered like any other error (%s, optimizer %d, recover %v): %s %s %s", fl.name, opt, rec, out.Kind, trunc(out.Value, 120), trunc(out.ErrMsg, 120)),
					c02wit{Program: p, Why: fl.name})
			}
		}
		c.Nontrivial("frame-limit-law " + fl.name)
	}
	// larger random trees
	n := c.Pick(1500, 30000)
	for i := 0; i < n; i++ {
		if stopExploring(c) {
			break
		}
		size := 5 + c.Rng.Intn(5)
		tr := gen.RandomList(c.Rng, size, 3+c.Rng.Intn(2), false, 3)
		var h []int
		for k := c.Rng.Intn(4); k > 0; k-- {
			h = append(h, c.Rng.Intn(len(gen.TryHistories)))
		}
		m.one(c, tr, h, c.Rng.Intn(4), i%500 == 0)
		c.Count("random_trees")
	}
}
