package props

import (
	"bytes"
	"encoding/json"
	"fmt"
	"math"
	"sort"
	"strconv"
	"strings"
	"time"
)

// ---------------------------------------------------------------- Go generator

var c20zoneA = time.FixedZone("VRF", 5*3600+1800)
var c20zoneB = time.FixedZone("", -11*3600-59)

var c20times = []time.Time{
	{},
	time.Unix(0, 0).UTC(),
	time.Unix(0, 0),
	time.Date(2024, 2, 29, 23, 59, 59, 999999999, c20zoneA),
	time.Date(1, 1, 1, 0, 0, 0, 1, c20zoneB),
	time.Date(-400, 12, 31, 12, 0, 0, 0, time.UTC),
	time.Date(9999, 12, 31, 23, 59, 59, 0, time.Local),
	time.Unix(1<<40, 999),
	time.Unix(-(1 << 40), 0).In(c20zoneA),
}
var c20locs = []*time.Location{time.UTC, time.Local, c20zoneA, c20zoneB}
var c20raws = []json.RawMessage{nil, {}, json.RawMessage(`null`), json.RawMessage(`{"a":[1,2,{"b":null}]}`), json.RawMessage("\xff\x00 not json")}

func (r *c20rng) registry() any {
	switch r.n(9) {
	case 0:
		return c20times[r.n(len(c20times))]
	case 1:
		return time.Unix(int64(r.u64()>>24)-(1<<39), int64(r.n(1000000000))).In(c20locs[r.n(len(c20locs))])
	case 2:
		if r.n(3) == 0 {
			return (*time.Time)(nil)
		}
		t := c20times[r.n(len(c20times))]
		return &t
	case 3, 4:
		v, _ := r.i64()
		return time.Duration(v)
	case 5:
		if r.n(3) == 0 {
			return (*time.Location)(nil)
		}
		return c20locs[r.n(len(c20locs))]
	case 6:
		return c20raws[r.n(len(c20raws))]
	default:
		s, _ := r.str()
		return json.RawMessage(s)
	}
}

// c20goOpts steers the Go generator: registry leaves on/off and an optional
// value planted in place of the node with pre-order index plantAt.
type c20goOpts struct {
	reg     bool
	plantAt int // -1: none
	planted any
}

func c20genGo(r *c20rng, depth int, st *c20stat, level int, o *c20goOpts) any {
	if o.plantAt >= 0 && st.nodes == o.plantAt {
		st.nodes++
		if level > st.depth {
			st.depth = level
		}
		return o.planted
	}
	st.nodes++
	if level > st.depth {
		st.depth = level
	}
	k := r.n(13)
	if level < 3 && r.n(10) < 6-2*level { // keep the tree alive near the root: 60% / 40% / 20% forced containers
		k = 9 + r.n(4)
	}
	if depth <= 0 || st.nodes >= c20maxNodes {
		k = r.n(9)
	}
	if o.reg && r.n(5) == 0 {
		st.kinds |= 1 << c20kRegistry
		st.edge = true
		return r.registry()
	}
	switch k {
	case 0:
		v, e := r.i64()
		st.edge = st.edge || e
		st.kinds |= 1 << c20kInt
		return v
	case 1:
		v, e := r.u64v()
		st.edge = st.edge || e
		st.kinds |= 1 << c20kUint
		return v
	case 2:
		v, e := r.f64()
		st.edge = st.edge || e
		st.kinds |= 1 << c20kFloat
		if math.IsNaN(v) {
			st.kinds |= 1 << c20kNaN
		}
		if v == 0 && math.Signbit(v) {
			st.kinds |= 1 << c20kNegZero
		}
		return v
	case 3:
		st.kinds |= 1 << c20kBool
		return r.n(2) == 0
	case 4:
		v, e := r.i32()
		st.edge = st.edge || e
		st.kinds |= 1 << c20kChar
		return rune(v)
	case 5:
		s, e := r.str()
		st.edge = st.edge || e
		st.kinds |= 1 << c20kString
		return s
	case 6:
		st.kinds |= 1 << c20kBytes
		switch r.n(5) {
		case 0:
			st.edge = true
			st.kinds |= 1 << c20kNilBytes
			return []byte(nil)
		case 1:
			st.edge = true
			return []byte{}
		}
		s, e := r.str()
		st.edge = st.edge || e
		return []byte(s)
	case 7, 8:
		st.kinds |= 1 << c20kNil
		return nil
	case 9, 10:
		st.kinds |= 1 << c20kArray
		switch r.n(8) {
		case 0:
			st.edge = true
			st.kinds |= 1 << c20kNilArray
			return []any(nil)
		case 1:
			st.edge = true
			st.kinds |= 1 << c20kEmptyArray
			return []any{}
		}
		n := 1 + r.n(4)
		a := make([]any, n)
		for i := range a {
			a[i] = c20genGo(r, depth-1, st, level+1, o)
		}
		return a
	default:
		st.kinds |= 1 << c20kMap
		switch r.n(8) {
		case 0:
			st.edge = true
			st.kinds |= 1 << c20kNilMap
			return map[string]any(nil)
		case 1:
			st.edge = true
			st.kinds |= 1 << c20kEmptyMap
			return map[string]any{}
		}
		n := 1 + r.n(4)
		m := make(map[string]any, n)
		// keys are drawn first so that the pre-order node index does not depend on map order
		keys := make([]string, n)
		for i := range keys {
			keys[i] = r.key()
		}
		for _, k := range keys {
			v := c20genGo(r, depth-1, st, level+1, o)
			m[k] = v // a repeated key overwrites: the later subtree wins, deterministically
		}
		return m
	}
}

// c20containsPlanted reports whether the planted marker survived (a repeated map
// key may overwrite the subtree that held it).
func c20contains(v any, pred func(any) bool) bool {
	if pred(v) {
		return true
	}
	switch x := v.(type) {
	case []any:
		for _, e := range x {
			if c20contains(e, pred) {
				return true
			}
		}
	case map[string]any:
		for _, e := range x {
			if c20contains(e, pred) {
				return true
			}
		}
	}
	return false
}

// ---------------------------------------------------------------- Go renderer (type-exact)

func c20goRender(v any) string {
	var b strings.Builder
	c20goWrite(&b, v, 0)
	return b.String()
}

func c20fbits(f float64) string {
	if math.IsNaN(f) {
		return "NaN"
	}
	return strconv.FormatUint(math.Float64bits(f), 16) + "(" + strconv.FormatFloat(f, 'g', -1, 64) + ")"
}

func c20goWrite(b *strings.Builder, v any, depth int) {
	if depth > 64 {
		b.WriteString("<deep>")
		return
	}
	switch x := v.(type) {
	case nil:
		b.WriteString("nil")
	case int64:
		b.WriteString("int64:" + strconv.FormatInt(x, 10))
	case uint64:
		b.WriteString("uint64:" + strconv.FormatUint(x, 10))
	case float64:
		b.WriteString("float64:" + c20fbits(x))
	case bool:
		b.WriteString("bool:" + strconv.FormatBool(x))
	case int32:
		b.WriteString("rune:" + strconv.FormatInt(int64(x), 10))
	case string:
		b.WriteString("string:" + strconv.Quote(x))
	case []byte:
		if x == nil {
			b.WriteString("[]byte(nil)")
		} else {
			b.WriteString(fmt.Sprintf("[]byte:%x", x))
		}
	case []any:
		if x == nil {
			b.WriteString("[]any(nil)")
			return
		}
		b.WriteString("[")
		for i, e := range x {
			if i > 0 {
				b.WriteString(",")
			}
			c20goWrite(b, e, depth+1)
		}
		b.WriteString("]")
	case map[string]any:
		if x == nil {
			b.WriteString("map[string]any(nil)")
			return
		}
		keys := make([]string, 0, len(x))
		for k := range x {
			keys = append(keys, k)
		}
		sort.Strings(keys)
		b.WriteString("{")
		for i, k := range keys {
			if i > 0 {
				b.WriteString(",")
			}
			b.WriteString(strconv.Quote(k) + ":")
			c20goWrite(b, x[k], depth+1)
		}
		b.WriteString("}")
	case time.Time:
		b.WriteString("time.Time:" + x.Format(time.RFC3339Nano) + "@" + x.Location().String())
	case *time.Time:
		if x == nil {
			b.WriteString("*time.Time(nil)")
		} else {
			b.WriteString("*time.Time:" + x.Format(time.RFC3339Nano) + "@" + x.Location().String())
		}
	case time.Duration:
		b.WriteString("time.Duration:" + strconv.FormatInt(int64(x), 10))
	case *time.Location:
		if x == nil {
			b.WriteString("*time.Location(nil)")
		} else {
			b.WriteString("*time.Location:" + x.String())
		}
	case json.RawMessage:
		if x == nil {
			b.WriteString("json.RawMessage(nil)")
		} else {
			b.WriteString(fmt.Sprintf("json.RawMessage:%x", []byte(x)))
		}
	default:
		b.WriteString(fmt.Sprintf("<%T>", v))
	}
}

// ---------------------------------------------------------------- Go comparator

// c20goEq compares the original canonical Go value with what came back from
// ToInterface(ToObject*(orig)). It returns "" when they are the same Go value
// (nil == empty container, NaN == NaN, all other floats by bits), else a short
// class of the difference followed by the path.
func c20goEq(orig, back any, alt bool, path string) string {
	bad := func(class string) string {
		return class + " at " + path + ": want " + c20short(c20goRender(orig)) + " got " + c20short(c20goRender(back)) + fmt.Sprintf(" (%T)", back)
	}
	switch o := orig.(type) {
	case nil:
		if back != nil {
			return bad("nil-changed")
		}
	case int64:
		if b, ok := back.(int64); !ok {
			return bad("type:int64")
		} else if b != o {
			return bad("value:int64")
		}
	case uint64:
		if b, ok := back.(uint64); !ok {
			return bad("type:uint64")
		} else if b != o {
			return bad("value:uint64")
		}
	case float64:
		b, ok := back.(float64)
		if !ok {
			return bad("type:float64")
		}
		if math.IsNaN(o) {
			if !math.IsNaN(b) {
				return bad("value:float64-nan")
			}
		} else if math.Float64bits(b) != math.Float64bits(o) {
			return bad("value:float64")
		}
	case bool:
		if b, ok := back.(bool); !ok {
			return bad("type:bool")
		} else if b != o {
			return bad("value:bool")
		}
	case int32:
		if alt {
			if b, ok := back.(int64); !ok {
				return bad("type:rune-alt")
			} else if b != int64(o) {
				return bad("value:rune-alt")
			}
		} else if b, ok := back.(int32); !ok {
			return bad("type:rune")
		} else if b != o {
			return bad("value:rune")
		}
	case string:
		if b, ok := back.(string); !ok {
			return bad("type:string")
		} else if b != o {
			return bad("value:string")
		}
	case []byte:
		if b, ok := back.([]byte); !ok {
			return bad("type:bytes")
		} else if !bytes.Equal(b, o) {
			return bad("value:bytes")
		}
	case []any:
		b, ok := back.([]any)
		if !ok {
			return bad("type:slice")
		}
		if len(b) != len(o) {
			return bad("len:slice")
		}
		for i := range o {
			if d := c20goEq(o[i], b[i], alt, path+"["+strconv.Itoa(i)+"]"); d != "" {
				return d
			}
		}
	case map[string]any:
		b, ok := back.(map[string]any)
		if !ok {
			return bad("type:map")
		}
		if len(b) != len(o) {
			return bad("len:map")
		}
		for k, ov := range o {
			bv, ok := b[k]
			if !ok {
				return bad("key-lost:map")
			}
			if d := c20goEq(ov, bv, alt, path+"["+strconv.Quote(k)+"]"); d != "" {
				return d
			}
		}
	case time.Time:
		b, ok := back.(time.Time)
		if !ok {
			return bad("type:time.Time")
		}
		if !c20sameTime(o, b) {
			return bad("value:time.Time")
		}
	case *time.Time:
		if o == nil {
			if back != nil {
				return bad("nil-changed:*time.Time")
			}
			return ""
		}
		b, ok := back.(time.Time)
		if !ok {
			return bad("type:*time.Time")
		}
		if !c20sameTime(*o, b) {
			return bad("value:*time.Time")
		}
	case time.Duration:
		if b, ok := back.(int64); !ok {
			return bad("type:time.Duration")
		} else if b != int64(o) {
			return bad("value:time.Duration")
		}
	case *time.Location:
		if o == nil {
			if back != nil {
				return bad("nil-changed:*time.Location")
			}
			return ""
		}
		if b, ok := back.(*time.Location); !ok {
			return bad("type:*time.Location")
		} else if b != o {
			return bad("value:*time.Location")
		}
	case json.RawMessage:
		if b, ok := back.(json.RawMessage); !ok {
			return bad("type:json.RawMessage")
		} else if !bytes.Equal(b, o) {
			return bad("value:json.RawMessage")
		}
	default:
		return bad("harness:unknown-original-type")
	}
	return ""
}

func c20sameTime(a, b time.Time) bool {
	_, oa := a.Zone()
	_, ob := b.Zone()
	return a.Equal(b) && oa == ob && a.Location().String() == b.Location().String() && a.IsZero() == b.IsZero()
}

func c20short(s string) string {
	if len(s) > 200 {
		return s[:200] + "…"
	}
	return s
}

// c20class is the stable head of a c20goEq difference (fingerprint material).
func c20class(diff string) string {
	if i := strings.Index(diff, " at "); i >= 0 {
		return diff[:i]
	}
	return diff
}
