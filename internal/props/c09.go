//go:build verif

package props

import (
	"context"
	"encoding/json"
	"errors"
	"fmt"
	"os"
	"os/exec"
	"path/filepath"
	"runtime"
	"strings"
	"sync"
	"sync/atomic"
	"time"

	"github.com/ozanh/ugo"

	"verif/internal/canon"
	"verif/internal/core"
)

// C09 — Abort and context cancellation are never lost.
type c09 struct{}

func init() { core.Register(c09{}) }

func (c09) ID() string    { return "C09" }
func (c09) Level() string { return "fault_enumeration" }
func (c09) Race() bool    { return true }
func (c09) Rule() string {
	return "deterministic placement: the goroutine running the script is parked at a named synchronisation point (build tag verif: run.enter/locked/ready/exit of root and child VMs, invoke.pre_check/pre_child_run, pool.acquire.pre_lock/registered, " +
		"pool.release.pre/done, eval.pre_select/goroutine_start/started/ctx_done) at its 1st or 3rd occurrence, the interfering action (Abort once / twice / five times from another goroutine, or context cancel for Eval) is performed either " +
		"completely while parked or racing the release, and the run is released. EXHAUSTIVE over workload kinds (root loop; loop calling a pooled / un-pooled Invoker; infinite function on a child VM; nested child of a child; time.Sleep polling loop; " +
		"Eval.Run of an infinite loop) x reachable points x actions x orderings. Oracle over the recorded event log, on a logical clock (iteration counter incremented by the script): after the action returned the counter may advance by at most B " +
		"iterations (B=50000; 40 for the sleeping workload) before Run/Eval.Run returns, the returned error must be the VM-aborted error (Eval: non-nil), and the same VM must then run a known script correctly. " +
		"A stress part fires Abort from 2 goroutines at random moments under the race detector. non-trivial = the point was reached and the action overlapped a running Run; distinct by (workload, point, occurrence, action, ordering)"
}
func (c09) Batches(string) int { return 16 }
func (c09) Required(string) []string {
	return []string{"placements", "placements_point_reached", "honoured", "followup_ok", "prior_aborted_runs", "sleep_probes", "wl.loop", "wl.cb-pooled", "wl.cb-unpooled", "wl.child-infinite", "wl.nested-child", "wl.sleep", "wl.eval-loop",
		"action.abort", "action.abort2", "action.cancel", "order.parked", "order.racing", "stress_runs"}
}
func (c09) Assumptions() []string {
	return []string{"an Abort that completes before Run was entered is not covered by the statement (run.enter is the first statement of Run)", "wall-clock is used only to rescue a run already judged lost by the iteration counter (and as an inconclusive watchdog)"}
}

type c09wl struct {
	name   string
	src    string
	eval   bool
	bound  int64
	points []string
	prior  bool // the same VM / Eval session already had one run that ended aborted (cancelled)
}

var c09rootPoints = []string{"run.enter", "run.locked", "run.ready"}
var c09invokePoints = []string{"invoke.pre_check", "invoke.pre_child_run", "pool.acquire.pre_lock", "pool.acquire.locked", "pool.acquire.registered", "pool.release.pre", "pool.release.locked", "pool.release.done",
	"child.run.enter", "child.run.locked", "child.run.ready", "child.run.exit"}

func c09workloads() []c09wl {
	return []c09wl{
		{"loop", "global TICK\nfor {\n  TICK()\n}", false, 50000, c09rootPoints, false},
		{"cb-pooled", "global (TICK, CALLP)\nf := func(x) {\n  return x + 1\n}\nfor {\n  TICK()\n  CALLP(f, 1)\n}", false, 50000, append(append([]string{}, c09rootPoints...), c09invokePoints...), false},
		{"cb-unpooled", "global (TICK, CALLU)\nf := func(x) {\n  return x + 1\n}\nfor {\n  TICK()\n  CALLU(f, 1)\n}", false, 3000, append(append([]string{}, c09rootPoints...), "invoke.pre_check", "invoke.pre_child_run", "pool.acquire.pre_lock", "pool.acquire.locked", "pool.acquire.registered", "child.run.enter", "child.run.locked", "child.run.ready", "child.run.exit"), false},
		{"child-infinite", "global (TICK, CALLP)\nCALLP(func() {\n  for {\n    TICK()\n  }\n})\nreturn 1", false, 50000, []string{"run.ready", "invoke.pre_check", "invoke.pre_child_run", "pool.acquire.pre_lock", "pool.acquire.locked", "pool.acquire.registered", "child.run.enter", "child.run.locked", "child.run.ready"}, false},
		{"nested-child", "global (TICK, CALLP)\nCALLP(func() {\n  return CALLP(func() {\n    for {\n      TICK()\n    }\n  })\n})\nreturn 1", false, 50000, []string{"invoke.pre_check", "invoke.pre_child_run", "pool.acquire.registered", "child.run.enter", "child.run.ready"}, false},
		{"sleep", "global TICK\ntime := import(\"time\")\nfor {\n  TICK()\n  time.Sleep(50 * time.Millisecond)\n}", false, 40, c09rootPoints, false},
		{"eval-loop", "global TICK\nfor {\n  TICK()\n}", true, 50000, []string{"eval.pre_select", "eval.goroutine_start", "eval.started", "run.enter", "run.locked", "run.ready"}, false},
		// the abort lands while a callee runs and the caller (main, or a function) is inside a try statement
		{"callee-under-main-try", "global TICK\nspin := func() {\n  for {\n    TICK()\n  }\n}\ntry {\n  spin()\n} catch e {\n  return \"caught\"\n} finally {\n  TICK()\n}\nreturn 1", false, 50000, []string{"run.ready", "tick"}, false},
		{"callee-under-nested-try", "global TICK\nspin := func() {\n  for {\n    TICK()\n  }\n}\nmid := func() {\n  try {\n    return spin()\n  } finally {\n    TICK()\n  }\n}\ntry {\n  return mid()\n} catch e {\n  return 0\n}", false, 50000, []string{"run.ready", "tick"}, false},
		// endless executions without a backward jump: self calls in tail position re-use the frame (returned and discarded form),
		// in the root VM and in a child VM; a loop made of for-in and of a conditional for
		{"tailcall-spin", "global TICK\nvar spin\nspin = func(n) {\n  TICK()\n  return spin(n + 1)\n}\nreturn spin(0)", false, 50000, []string{"run.ready"}, false},
		{"tailcall-discarded-spin", "global TICK\nvar spin\nspin = func(n) {\n  TICK()\n  spin(n + 1)\n}\nreturn spin(0)", false, 50000, []string{"run.ready"}, false},
		{"child-tailcall-spin", "global (TICK, CALLP)\nvar spin\nspin = func(n) {\n  TICK()\n  return spin(n + 1)\n}\nCALLP(spin, 0)\nreturn 1", false, 50000, []string{"run.ready", "invoke.pre_child_run", "child.run.ready"}, false},
		{"forin-loop", "global TICK\narr := [1, 2, 3]\nfor {\n  for v in arr {\n    TICK()\n  }\n}", false, 50000, []string{"run.ready"}, false},
		{"cond-for-loop", "global TICK\nfor x := 0; x >= 0; x++ {\n  TICK()\n}", false, 50000, []string{"run.ready"}, false},
		{"eval-tailcall-spin", "global TICK\nvar spin\nspin = func(n) {\n  TICK()\n  return spin(n + 1)\n}\nreturn spin(0)", true, 50000, []string{"eval.started", "run.ready"}, false},
	}
}

type c09ctl struct {
	mu      sync.Mutex
	root    *ugo.VM
	target  string
	nth     int
	seen    map[string]int
	action  func()
	race    bool
	fired   atomic.Bool
	actDone chan struct{}
	last    atomic.Value
	trace   []string
	storm   bool
}

func (h *c09ctl) hook(point string, vm *ugo.VM) {
	name := point
	if h.root != nil && vm != nil && vm != h.root && strings.HasPrefix(point, "run.") {
		name = "child." + point
	}
	h.mu.Lock()
	h.seen[name]++
	cnt := h.seen[name]
	if len(h.trace) < 64 {
		h.trace = append(h.trace, name)
	}
	h.mu.Unlock()
	h.last.Store(name)
	if h.storm {
		runtime.Gosched()
	}
	if h.action != nil && name == h.target && cnt == h.nth && h.fired.CompareAndSwap(false, true) {
		if strings.HasSuffix(name, ".locked") {
			// the goroutine holds the pool's mutex here: the action runs beside it while the mutex stays held for a
			// moment (an Abort has to wait for the mutex - or, if it gives up instead, is lost), then the section goes on
			go func() {
				h.action()
				close(h.actDone)
			}()
			time.Sleep(3 * time.Millisecond)
			return
		}
		if h.race {
			go func() {
				h.action()
				close(h.actDone)
			}()
			return
		}
		d := make(chan struct{})
		go func() {
			h.action()
			close(d)
		}()
		<-d
		close(h.actDone)
	}
}

type c09wit struct {
	Workload string   `json:"workload"`
	Prior    bool     `json:"prior_aborted_run,omitempty"`
	Point    string   `json:"point"`
	Nth      int      `json:"occurrence"`
	Action   string   `json:"action"`
	Order    string   `json:"ordering"`
	Why      string   `json:"why"`
	Trace    []string `json:"points_seen"`
	Advance  int64    `json:"iterations_after_action"`
	Err      string   `json:"returned_error"`
}

var c09known *ugo.Bytecode

// c09abortBlocked is set when a call of VM.Abort did not return within 5 s ("Abort may be called any number of times"
// and is documented as safe from any goroutine: it must not wait for the script it is supposed to stop).
var c09abortBlocked atomic.Bool

// c09abort calls vm.Abort on its own goroutine and gives up waiting after 5 s.
func c09abort(vm *ugo.VM) bool {
	if c09abortBlocked.Load() {
		return false
	}
	d := make(chan struct{})
	go func() {
		vm.Abort()
		close(d)
	}()
	select {
	case <-d:
		return true
	case <-time.After(5 * time.Second):
		c09abortBlocked.Store(true)
		return false
	}
}

// c09stuck: a run could not be stopped and its goroutine is still spinning; the worker ends its batch early
var c09stuck atomic.Bool

func c09followup(vm *ugo.VM) string {
	if c09known == nil {
		bc, err := ugo.Compile([]byte("param x\nn := 0\nfor i := 0; i < 10; i++ {\n  n += i * x\n}\nreturn n"), ugo.CompilerOptions{})
		if err != nil {
			return "compile: " + err.Error()
		}
		c09known = bc
	}
	// first a later script whose error no handler of its own covers (Run must return that error; nothing left behind by
	// the aborted run may intercept it), then an ordinary one
	if c09known2 == nil {
		bc, err := ugo.Compile([]byte("f := func(n) {\n  if n > 1 {\n    throw error(\"boom\")\n  }\n  return n\n}\ntry {\n  f(1)\n} finally {\n}\nreturn f(2)"), ugo.CompilerOptions{})
		if err != nil {
			return "compile: " + err.Error()
		}
		c09known2 = bc
	}
	var v2 ugo.Object
	var err2 error
	fdone := make(chan struct{})
	go func() {
		defer close(fdone)
		v2, err2 = vm.SetBytecode(c09known2).Run(nil)
	}()
	select {
	case <-fdone:
	case <-time.After(10 * time.Second):
		// a microsecond script: it is looping; stop it (several times if needed) and report
		for i := 0; i < 200; i++ {
			c09abort(vm)
			select {
			case <-fdone:
				i = 200
			case <-time.After(10 * time.Millisecond):
			}
		}
		return "follow-up script ending in an uncaught error does not terminate on the aborted VM"
	}
	if err2 == nil || !strings.Contains(err2.Error(), "boom") {
		return fmt.Sprintf("follow-up script ending in an uncaught error: want the error boom, got (%v, %v)", v2, err2)
	}
	v, err := vm.SetBytecode(c09known).Run(nil, ugo.Int(2))
	if err != nil {
		return "error: " + err.Error()
	}
	return canon.Value(v)
}

var c09known2 *ugo.Bytecode

func c09modules() *ugo.ModuleMap {
	mm := ugo.NewModuleMap()
	mm.Add("time", stdlibModule("time"))
	return mm
}

// placement runs one (workload, point, nth, action, ordering) and judges it.
func (m c09) placement(c *core.Ctx, wl c09wl, point string, nth int, action string, race bool) {
	if c09stuck.Load() || c09abortBlocked.Load() {
		c.Count("skipped_after_unstoppable_run")
		return
	}
	order := "parked"
	if race {
		order = "racing"
	}
	var counter atomic.Int64
	var tickHook func()
	globals := ugo.Map{"TICK": &ugo.Function{Name: "TICK", Value: func(...ugo.Object) (ugo.Object, error) {
		counter.Add(1)
		if tickHook != nil {
			tickHook() // pseudo point "tick": the n-th call of TICK, i.e. somewhere in the middle of the script
		}
		return ugo.Undefined, nil
	}}}
	mkCall := func(pooled bool) *ugo.Function {
		return &ugo.Function{Name: "CALL", ValueEx: func(cl ugo.Call) (ugo.Object, error) {
			f := cl.Get(0)
			var args []ugo.Object
			for i := 1; i < cl.Len(); i++ {
				args = append(args, cl.Get(i))
			}
			inv := ugo.NewInvoker(cl.VM(), f)
			if pooled {
				inv.Acquire()
				defer inv.Release()
			}
			return inv.Invoke(args...)
		}}
	}
	globals["CALLP"] = mkCall(true)
	globals["CALLU"] = mkCall(false)

	ctl := &c09ctl{target: point, nth: nth, seen: map[string]int{}, race: race, actDone: make(chan struct{})}
	var vm *ugo.VM
	var ev *ugo.Eval
	ctx, cancel := context.WithCancel(context.Background())
	defer cancel()
	if wl.eval {
		ev = ugo.NewEval(ugo.CompilerOptions{ModuleMap: c09modules()}, globals)
		vm = ev.VM
		// an earlier fragment of the session: its variable must still be there after the cancelled fragment
		if _, _, err := ev.Run(context.Background(), []byte("keep := 41")); err != nil {
			c.Inconclusive("eval session setup failed: " + err.Error())
			return
		}
	} else {
		bc, err := ugo.Compile([]byte(wl.src), ugo.CompilerOptions{ModuleMap: c09modules()})
		if err != nil {
			c.Inconclusive("workload does not compile: " + err.Error())
			return
		}
		vm = ugo.NewVM(bc)
	}
	ctl.root = vm
	n := 1
	switch action {
	case "abort2":
		n = 2
	case "abort5":
		n = 5
	}
	var queued chan struct{} // closed when the queued second Run has returned
	stopQueued := func() {
		q := queued
		if q == nil {
			return
		}
		queued = nil
		for i := 0; i < 20000 && !c09abortBlocked.Load(); i++ {
			select {
			case <-q:
				c.Count("queued_runs_stopped")
				return
			case <-time.After(500 * time.Microsecond):
			}
			c09abort(vm)
		}
		c.Inconclusive("the queued second Run could not be stopped: " + wl.name + "@" + point)
		c09stuck.Store(true)
	}
	defer stopQueued()
	if action == "abort+run" {
		// Abort, then a second Run of the same VM is started from another goroutine while the first is still inside:
		// it waits for the VM's mutex. The first run (and every child VM it starts from now on) must still stop.
		ctl.action = func() {
			c09abort(vm)
			ctl.mu.Lock()
			before := ctl.seen["run.enter"]
			ctl.mu.Unlock()
			g2 := ugo.Map{"TICK": &ugo.Function{Name: "TICK", Value: func(...ugo.Object) (ugo.Object, error) { return ugo.Undefined, nil }},
				"CALLP": mkCall(true), "CALLU": mkCall(false)}
			q := make(chan struct{})
			queued = q
			go func() {
				defer close(q)
				_, _ = vm.Run(g2)
			}()
			for i := 0; i < 20000; i++ {
				ctl.mu.Lock()
				now := ctl.seen["run.enter"]
				ctl.mu.Unlock()
				if now > before {
					break
				}
				time.Sleep(100 * time.Microsecond)
			}
			time.Sleep(200 * time.Microsecond)
		}
	} else if action == "cancel" {
		ctl.action = cancel
	} else {
		ctl.action = func() {
			for i := 0; i < n; i++ {
				c09abort(vm)
			}
		}
	}
	if wl.prior {
		// first run on the same VM / session, ended by Abort (cancel) while it is demonstrably inside the loop
		pctx, pcancel := context.WithCancel(context.Background())
		pdone := make(chan struct{})
		var perr error
		go func() {
			defer close(pdone)
			if wl.eval {
				_, _, perr = ev.Run(pctx, []byte(wl.src))
			} else {
				_, perr = vm.Run(globals)
			}
		}()
		stopped := false
		for i := 0; i < 200000 && !stopped && !c09abortBlocked.Load(); i++ {
			if counter.Load() >= 3 {
				if wl.eval {
					pcancel()
				} else {
					c09abort(vm)
				}
			}
			select {
			case <-pdone:
				stopped = true
			case <-time.After(100 * time.Microsecond):
			}
		}
		pcancel()
		if c09abortBlocked.Load() {
			c.Violation("C09|abort-blocks|"+wl.name+"+prior|first-run", fmt.Sprintf("VM.Abort does not return (5 s) when called to stop the first run of workload %s: the script is never told to stop", wl.name), c09wit{Workload: wl.name, Prior: true, Point: point, Action: action, Why: "Abort blocks while stopping the prior run"})
			c09stuck.Store(true)
			return
		}
		if !stopped {
			for i := 0; i < 20000 && !stopped; i++ {
				c09abort(vm)
				select {
				case <-pdone:
					stopped = true
				case <-time.After(500 * time.Microsecond):
				}
			}
			c.Inconclusive("prior run could not be stopped by one Abort: " + wl.name)
			return
		}
		if perr == nil {
			c.Inconclusive("prior run did not end with an error: " + wl.name)
			return
		}
		c.Count("prior_aborted_runs")
		counter.Store(0)
	}
	ugo.SetVerifHook(ctl.hook)
	defer ugo.SetVerifHook(nil)
	if point == "tick" {
		tickHook = func() { ctl.hook("tick", nil) }
	}

	var runErr error
	var runVal ugo.Object
	done := make(chan struct{})
	go func() {
		defer close(done)
		if wl.eval {
			runVal, _, runErr = ev.Run(ctx, []byte(wl.src))
		} else {
			runVal, runErr = vm.Run(globals)
		}
	}()
	c.Count("placements")
	c.Count("wl." + wl.name)
	c.Count("action." + action)
	c.Count("order." + order)
	wit := func(why string, adv int64) c09wit {
		ctl.mu.Lock()
		tr := append([]string{}, ctl.trace...)
		ctl.mu.Unlock()
		es := ""
		if runErr != nil {
			es = trunc(runErr.Error(), 200)
		}
		return c09wit{Workload: wl.name, Prior: wl.prior, Point: point, Nth: nth, Action: action, Order: order, Why: why, Trace: tr, Advance: adv, Err: es}
	}
	rescue := func() {
		for i := 0; i < 20000 && !c09abortBlocked.Load(); i++ {
			c09abort(vm)
			cancel()
			select {
			case <-done:
				return
			case <-time.After(500 * time.Microsecond):
			}
		}
	}
	// wait for the action (or for the point to turn out unreachable)
	select {
	case <-ctl.actDone:
	case <-done:
		// finished before the point fired
		if !ctl.fired.Load() {
			c.Count("placements_point_not_reached")
			return
		}
		<-ctl.actDone
	case <-time.After(5 * time.Second):
		if !ctl.fired.Load() {
			c.Count("placements_point_not_reached")
			rescue()
			return
		}
		<-ctl.actDone
	}
	if c09abortBlocked.Load() {
		c.Violation("C09|abort-blocks|"+wl.name+"|"+point, fmt.Sprintf("VM.Abort does not return (5 s) when called at %s of workload %s: the script is never told to stop", point, wl.name), wit("Abort blocks", 0))
		c09stuck.Store(true)
		cancel()
		return
	}
	c.Count("placements_point_reached")
	c.SetAdd("points_reached", wl.name+"@"+point)
	nA := counter.Load()
	lost := false
	var adv int64
	deadline := time.After(20 * time.Second)
poll:
	for {
		select {
		case <-done:
			break poll
		case <-deadline:
			adv = counter.Load() - nA
			if adv > wl.bound {
				lost = true
			} else {
				c.Inconclusive(fmt.Sprintf("run neither returned nor progressed (%s@%s %s): counter +%d", wl.name, point, action, adv))
			}
			rescue()
			break poll
		default:
			adv = counter.Load() - nA
			// under Eval the cancellation reaches the VM through another goroutine (select on ctx.Done, then Abort): how
			// many iterations pass until that goroutine is scheduled is not bounded by instructions (a loaded machine showed
			// 2 x the bound once): those workloads get 100 x the bound before "lost" is decided ahead of the deadline
			if adv > wl.bound && !wl.eval || adv > 100*wl.bound {
				lost = true
				rescue()
				break poll
			}
			time.Sleep(200 * time.Microsecond)
		}
	}
	wlname := wl.name
	if wl.prior {
		wlname += "+prior"
	}
	fp := "C09|lost|" + wlname + "|" + point + "|" + strings.TrimRight(action, "25") // abort, abort2, abort5 share a fingerprint
	select {
	case <-done:
	case <-time.After(10 * time.Second):
		if lost {
			// judged lost by the iteration counter, and not even thousands of further Aborts stop the script: the run's
			// goroutine stays behind spinning, so this worker stops exploring after reporting
			c.Violation(fp, fmt.Sprintf("Abort is lost: %s at %s (occurrence %d, %s) — the script ran %d more iterations and ignored all further Aborts", action, point, nth, order, counter.Load()-nA), wit("lost, unstoppable", counter.Load()-nA))
			c09stuck.Store(true)
			return
		}
		c.Inconclusive("could not stop the run after rescue: " + wl.name + "@" + point)
		c09stuck.Store(true)
		return
	}
	adv = counter.Load() - nA
	stopQueued()
	if c09stuck.Load() || c09abortBlocked.Load() {
		return
	}
	if lost {
		what := "Abort is lost"
		if action == "cancel" {
			what = "context cancellation is lost"
		}
		c.Violation(fp, fmt.Sprintf("%s: %s at %s (occurrence %d, %s) — the script ran %d more iterations until it was rescued by further Aborts", what, action, point, nth, order, adv), wit("lost", adv))
		return
	}
	// returned by itself: the error must be the aborted error (Eval: any error)
	okErr := runErr != nil && (errors.Is(runErr, ugo.ErrVMAborted) || (wl.eval && (errors.Is(runErr, context.Canceled) || runErr != nil)))
	if point == "run.exit" || strings.HasSuffix(point, ".exit") && !strings.HasPrefix(point, "child.") {
		okErr = true
	}
	if !okErr {
		c.Violation("C09|wrong-result|"+wlname+"|"+point+"|"+strings.TrimRight(action, "25"), fmt.Sprintf("after %s at %s the run returned (%v, %v) instead of the VM-aborted error", action, point, runVal, runErr), wit("wrong result", adv))
		return
	}
	c.Count("honoured")
	c.Nontrivial(fmt.Sprintf("%s|%s|%d|%s|%s", wlname, point, nth, action, order))
	// the VM must run later scripts normally
	ugo.SetVerifHook(nil)
	if wl.eval {
		// ... and so must the session: a later fragment sees what the fragments before the cancelled one declared
		var fv ugo.Object
		var fe error
		fd := make(chan struct{})
		go func() {
			defer close(fd)
			fv, _, fe = ev.Run(context.Background(), []byte("return keep + 1"))
		}()
		select {
		case <-fd:
		case <-time.After(10 * time.Second):
			c09abort(vm)
			c.Violation("C09|eval-session-after-cancel|"+wlname+"|"+point+"|hang", "the Eval session does not evaluate a later fragment after a cancelled one (10 s)", wit("session follow-up hangs", adv))
			c09stuck.Store(true)
			return
		}
		if fe != nil || fv != ugo.Int(42) {
			c.Violation("C09|eval-session-after-cancel|"+wlname+"|"+point, fmt.Sprintf("after a fragment was cancelled at %s the session lost its state: `keep := 41` ... `return keep + 1` gives (%v, %v)", point, fv, trunc(fmt.Sprint(fe), 160)), wit("session follow-up", adv))
			return
		}
		c.Count("eval_session_followup_ok")
	}
	if got := c09followup(vm); got != "i:90" {
		c.Violation("C09|followup|"+wlname+"|"+point, "an aborted VM does not run a later script normally: "+got, wit("follow-up "+got, adv))
		return
	}
	c.Count("followup_ok")
}

// sleepProbe: Abort (or context cancellation) while the script is inside time.Sleep(d), for short and very long d, in the
// root VM, in a child VM and under Eval. The callback polls for the abort every 10 ms, so Run must be back long before the
// 10 s allowed here; the verdict needs a clock because no instruction is executed while the script sleeps.
func (m c09) sleepProbe(c *core.Ctx, dur string, mode string) {
	var counter atomic.Int64
	globals := ugo.Map{"TICK": &ugo.Function{Name: "TICK", Value: func(...ugo.Object) (ugo.Object, error) {
		counter.Add(1)
		return ugo.Undefined, nil
	}}}
	globals["CALLP"] = &ugo.Function{Name: "CALLP", ValueEx: func(cl ugo.Call) (ugo.Object, error) {
		inv := ugo.NewInvoker(cl.VM(), cl.Get(0))
		inv.Acquire()
		defer inv.Release()
		return inv.Invoke()
	}}
	src := "global (TICK, CALLP)\ntime := import(\"time\")\nTICK()\ntime.Sleep(" + dur + ")\nreturn 1\n"
	if mode == "child" {
		src = "global (TICK, CALLP)\ntime := import(\"time\")\nCALLP(func() {\n  TICK()\n  time.Sleep(" + dur + ")\n})\nreturn 1\n"
	}
	ctx, cancel := context.WithCancel(context.Background())
	defer cancel()
	var vm *ugo.VM
	var ev *ugo.Eval
	if mode == "eval" {
		ev = ugo.NewEval(ugo.CompilerOptions{ModuleMap: c09modules()}, globals)
		vm = ev.VM
	} else {
		bc, err := ugo.Compile([]byte(src), ugo.CompilerOptions{ModuleMap: c09modules()})
		if err != nil {
			c.Inconclusive("sleep probe does not compile: " + err.Error())
			return
		}
		vm = ugo.NewVM(bc)
	}
	var runErr error
	done := make(chan struct{})
	go func() {
		defer close(done)
		if mode == "eval" {
			_, _, runErr = ev.Run(ctx, []byte(src))
		} else {
			_, runErr = vm.Run(globals)
		}
	}()
	for i := 0; counter.Load() == 0 && i < 100000; i++ {
		time.Sleep(100 * time.Microsecond)
	}
	if counter.Load() == 0 {
		c.Inconclusive("sleep probe: the script did not start")
		c09abort(vm)
		return
	}
	time.Sleep(30 * time.Millisecond) // the script is inside Sleep now
	if mode == "eval" {
		cancel()
	} else {
		c09abort(vm)
	}
	c.Count("sleep_probes")
	select {
	case <-done:
		if runErr == nil {
			c.Violation("C09|wrong-result|sleep|"+mode, "Run returned without error after an Abort during time.Sleep("+dur+")", c09wit{Workload: "sleep " + dur + " " + mode, Action: "abort", Why: "no error"})
			return
		}
		c.Count("honoured")
		c.Nontrivial("sleep|" + dur + "|" + mode)
	case <-time.After(10 * time.Second):
		c.Violation("C09|lost|sleep|"+mode, "Abort during time.Sleep("+dur+") ("+mode+"): Run is still not back after 10 s (the callback is documented to watch for the abort)", c09wit{Workload: "sleep " + dur + " " + mode, Action: "abort", Why: "not honoured within 10 s"})
		c09stuck.Store(true)
	}
}

func (m c09) stress(c *core.Ctx, wl c09wl, spin int) {
	if c09stuck.Load() || c09abortBlocked.Load() {
		c.Count("skipped_after_unstoppable_run")
		return
	}
	var counter atomic.Int64
	globals := ugo.Map{"TICK": &ugo.Function{Name: "TICK", Value: func(...ugo.Object) (ugo.Object, error) {
		counter.Add(1)
		return ugo.Undefined, nil
	}}}
	mkCall := func(pooled bool) *ugo.Function {
		return &ugo.Function{Name: "CALL", ValueEx: func(cl ugo.Call) (ugo.Object, error) {
			var args []ugo.Object
			for i := 1; i < cl.Len(); i++ {
				args = append(args, cl.Get(i))
			}
			inv := ugo.NewInvoker(cl.VM(), cl.Get(0))
			if pooled {
				inv.Acquire()
				defer inv.Release()
			}
			return inv.Invoke(args...)
		}}
	}
	globals["CALLP"] = mkCall(true)
	globals["CALLU"] = mkCall(false)
	bc, err := ugo.Compile([]byte(wl.src), ugo.CompilerOptions{ModuleMap: c09modules()})
	if err != nil {
		return
	}
	vm := ugo.NewVM(bc)
	ctl := &c09ctl{root: vm, seen: map[string]int{}, storm: true, actDone: make(chan struct{})}
	ugo.SetVerifHook(ctl.hook)
	defer ugo.SetVerifHook(nil)
	done := make(chan struct{})
	var runErr error
	entered := make(chan struct{})
	go func() {
		defer close(done)
		close(entered)
		_, runErr = vm.Run(globals)
	}()
	<-entered
	// make sure Run was entered (the statement only covers Aborts after that)
	for {
		ctl.mu.Lock()
		e := ctl.seen["run.enter"]
		ctl.mu.Unlock()
		if e > 0 {
			break
		}
		runtime.Gosched()
	}
	for i := 0; i < spin; i++ {
		runtime.Gosched()
	}
	at, _ := ctl.last.Load().(string)
	var wg sync.WaitGroup
	for g := 0; g < 2; g++ {
		wg.Add(1)
		go func() {
			defer wg.Done()
			c09abort(vm)
		}()
	}
	wg.Wait()
	if c09abortBlocked.Load() {
		c.Violation("C09|abort-blocks|"+wl.name+"|stress", "stress: VM.Abort does not return (5 s)", c09wit{Workload: wl.name, Point: at, Action: "abort-x2-concurrent", Order: "stress", Why: "Abort blocks"})
		c09stuck.Store(true)
		return
	}
	nA := counter.Load()
	c.Count("stress_runs")
	c.SetAdd("stress_abort_landed_after_point", wl.name+"@"+at)
	lost := false
	for {
		select {
		case <-done:
		default:
			if counter.Load()-nA > wl.bound {
				lost = true
				for i := 0; i < 20000; i++ {
					c09abort(vm)
					select {
					case <-done:
						i = 20000
					case <-time.After(500 * time.Microsecond):
					}
				}
			} else {
				time.Sleep(200 * time.Microsecond)
				continue
			}
		}
		break
	}
	select {
	case <-done:
	case <-time.After(10 * time.Second):
		c09stuck.Store(true)
		if !lost {
			c.Inconclusive("stress: run neither progressed nor returned: " + wl.name + "@" + at)
			return
		}
	}
	if lost {
		c.Violation("C09|lost|"+wl.name+"|"+at+"|abort", fmt.Sprintf("stress: Abort from 2 goroutines right after point %s was lost", at),
			c09wit{Workload: wl.name, Point: at, Action: "abort-x2-concurrent", Order: "stress", Why: "lost", Advance: counter.Load() - nA})
		return
	}
	if !errors.Is(runErr, ugo.ErrVMAborted) && at != "run.enter" {
		// (an abort that raced run.enter itself may legitimately precede it)
		c.Violation("C09|wrong-result|"+wl.name+"|stress|abort", fmt.Sprintf("stress: run returned %v", runErr), c09wit{Workload: wl.name, Point: at, Action: "abort-x2-concurrent", Order: "stress", Why: "wrong result"})
		return
	}
	c.Nontrivial("stress|" + wl.name + "|" + at)
}

// cmdUgo runs the command line interpreter with a tiny -timeout on an endless script: the context is
// cancelled around the moment the VM goroutine starts; the process must exit by itself.
func (m c09) cmdUgo(c *core.Ctx) {
	bin := filepath.Join(core.VerifDir(), "bin", "ugo")
	if _, err := os.Stat(bin); err != nil {
		c.Count("cmd_ugo_binary_missing")
		return
	}
	dir, err := os.MkdirTemp(filepath.Join(core.VerifDir(), "work"), "c09ugo-")
	if err != nil {
		return
	}
	defer os.RemoveAll(dir)
	script := filepath.Join(dir, "loop.ugo")
	_ = os.WriteFile(script, []byte("x := 0\nfor {\n  x++\n}\n"), 0o644)
	n := c.Pick(40, 600)
	for i := 0; i < n; i++ {
		to := []string{"1ns", "1us", "20us", "50us", "100us", "200us", "500us", "1ms", "3ms"}[i%9]
		if !c.Begin(func() string { return "cmd/ugo -timeout " + to + " loop.ugo" }) {
			continue
		}
		ctx, cancel := context.WithTimeout(context.Background(), 20*time.Second)
		cmd := exec.CommandContext(ctx, bin, "-timeout", to, script)
		out, err := cmd.CombinedOutput()
		killed := ctx.Err() != nil
		cancel()
		c.Count("cmd_ugo_runs")
		if killed {
			c.Violation("C09|lost|cmd-ugo|timeout|cancel", "cmd/ugo -timeout "+to+" on an endless script did not exit within 20 s (cancellation lost)",
				c09wit{Workload: "cmd-ugo", Point: "process", Action: "timeout " + to, Why: "lost", Err: trunc(string(out), 300)})
			return
		}
		if err == nil {
			c.Violation("C09|wrong-result|cmd-ugo|timeout", "cmd/ugo -timeout on an endless script exited with status 0", c09wit{Workload: "cmd-ugo", Action: "timeout " + to, Why: "exit 0", Err: trunc(string(out), 300)})
			return
		}
		c.Nontrivial("cmd-ugo|" + to)
	}
}

func (m c09) Run(c *core.Ctx) {
	wls := c09workloads()
	byName := map[string]c09wl{}
	for _, w := range wls {
		byName[w.name] = w
	}
	if c.Replay != nil {
		var w c09wit
		if json.Unmarshal(c.Replay, &w) == nil {
			if wl, ok := byName[w.Workload]; ok {
				act := w.Action
				if !strings.HasPrefix(act, "abort") && act != "cancel" {
					act = "abort"
				}
				if strings.Contains(act, "concurrent") {
					act = "abort2"
				}
				nth := w.Nth
				if nth == 0 {
					nth = 1
				}
				wl.prior = w.Prior
				for i := 0; i < 5; i++ {
					m.placement(c, wl, w.Point, nth, act, w.Order == "racing")
				}
			}
		}
		return
	}
	idx := 0
	reps := c.Pick(1, 60)
	for _, wl := range wls {
		actions := []string{"abort", "abort2", "abort5"}
		if wl.eval {
			actions = []string{"cancel"}
		}
		for _, pt := range wl.points {
			for _, nth := range []int{1, 3} {
				if nth == 3 && (strings.HasPrefix(pt, "run.") || strings.HasPrefix(pt, "eval.")) {
					continue // root points occur once
				}
				if nth == 3 && (wl.name == "child-infinite" || wl.name == "nested-child") {
					continue
				}
				for _, act := range actions {
					if act == "abort5" && nth == 3 {
						continue
					}
					if strings.HasPrefix(pt, "eval.") && act != "cancel" {
						continue
					}
					for _, race := range []bool{false, true} {
						idx++
						if idx%c.NBatch != c.Batch {
							continue
						}
						desc := fmt.Sprintf("%s point=%s nth=%d action=%s racing=%v", wl.name, pt, nth, act, race)
						if !c.Begin(func() string { return desc }) {
							continue
						}
						for r := 0; r < reps; r++ {
							m.placement(c, wl, pt, nth, act, race)
						}
						if idx%23 == 0 {
							c.Sample(desc)
						}
					}
				}
			}
		}
	}
	// the same placements on a VM / Eval session whose previous run ended aborted
	for _, wl := range wls {
		wl.prior = true
		act := "abort"
		if wl.eval {
			act = "cancel"
		}
		for _, pt := range wl.points {
			for _, race := range []bool{false, true} {
				idx++
				if idx%c.NBatch != c.Batch {
					continue
				}
				desc := fmt.Sprintf("%s+prior point=%s nth=1 action=%s racing=%v", wl.name, pt, act, race)
				if !c.Begin(func() string { return desc }) {
					continue
				}
				for r := 0; r < reps; r++ {
					m.placement(c, wl, pt, 1, act, race)
				}
			}
		}
	}
	// Abort followed by a second Run queued on the same VM while the first is still inside a callback / child VM
	for _, name := range []string{"child-infinite", "nested-child", "child-tailcall-spin", "cb-pooled", "loop"} {
		wl := byName[name]
		for _, pt := range wl.points {
			if pt == "run.enter" {
				continue // neither Run holds the mutex yet: which of the two runs first is not determined
			}
			for _, race := range []bool{false, true} {
				idx++
				if idx%c.NBatch != c.Batch {
					continue
				}
				desc := fmt.Sprintf("%s point=%s nth=1 action=abort+run racing=%v", wl.name, pt, race)
				if !c.Begin(func() string { return desc }) {
					continue
				}
				for r := 0; r < reps; r++ {
					m.placement(c, wl, pt, 1, "abort+run", race)
				}
			}
		}
	}
	for _, dur := range []string{"200 * time.Millisecond", "2 * time.Second", "time.Hour", "720 * time.Hour"} {
		for _, mode := range []string{"root", "child", "eval"} {
			idx++
			if idx%c.NBatch != c.Batch {
				continue
			}
			dur, mode := dur, mode
			if !c.Begin(func() string { return "sleep probe " + dur + " " + mode }) {
				continue
			}
			if c09stuck.Load() || c09abortBlocked.Load() {
				continue
			}
			m.sleepProbe(c, dur, mode)
		}
	}
	// process level: cmd/ugo -timeout on an endless script must exit by itself
	idx++
	if idx%c.NBatch == c.Batch {
		m.cmdUgo(c)
	}
	// stress
	n := c.Pick(12, 3000)
	for i := 0; i < n; i++ {
		wl := wls[[]int{0, 1, 2, 3, 4, 7, 8, 9}[c.Rng.Intn(8)]]
		spin := c.Rng.Intn(400)
		if !c.Begin(func() string { return fmt.Sprintf("stress %s spin=%d", wl.name, spin) }) {
			continue
		}
		m.stress(c, wl, spin)
	}
}
