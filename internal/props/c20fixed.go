package props

import (
	"encoding/json"
	"errors"
	"fmt"
	"math"
	"math/big"
	"time"
	"unsafe"
	cjson "verif/internal/collide/json"
	ctime "verif/internal/collide/time"

	"github.com/ozanh/ugo"
	ufmt "github.com/ozanh/ugo/stdlib/fmt"
	ujson "github.com/ozanh/ugo/stdlib/json"
	utime "github.com/ozanh/ugo/stdlib/time"
)

// ---------------------------------------------------------------- numeric width table

// c20num is one typed Go number together with its exact mathematical value.
type c20num struct {
	typ   string
	v     any
	class byte // 's' signed, 'u' unsigned, 'f' float
	val   *big.Float
	nan   bool
	edge  bool
}

var c20numTypes = []string{"int", "int8", "int16", "int32(rune)", "int64", "uint", "uint8(byte)", "uint16", "uint32", "uint64", "uintptr", "float32", "float64"}

func c20bitsOf(t int) uint {
	switch c20numTypes[t] {
	case "int8", "uint8(byte)":
		return 8
	case "int16", "uint16":
		return 16
	case "int32(rune)", "uint32", "float32":
		return 32
	case "int", "uint":
		return uint(unsafe.Sizeof(int(0)) * 8)
	case "uintptr":
		return uint(unsafe.Sizeof(uintptr(0)) * 8)
	}
	return 64
}

// c20mkNum builds the value of type index t from a bit pattern (truncated to the width).
func c20mkNum(t int, bits uint64) c20num {
	n := c20num{typ: c20numTypes[t]}
	s := func(v any, i int64) { n.v, n.class, n.val = v, 's', new(big.Float).SetInt64(i) }
	u := func(v any, x uint64) { n.v, n.class, n.val = v, 'u', new(big.Float).SetUint64(x) }
	f := func(v any, x float64) {
		n.v, n.class = v, 'f'
		if math.IsNaN(x) {
			n.nan = true
		} else {
			n.val = new(big.Float).SetFloat64(x)
		}
	}
	switch n.typ {
	case "int":
		s(int(bits), int64(int(bits)))
	case "int8":
		s(int8(bits), int64(int8(bits)))
	case "int16":
		s(int16(bits), int64(int16(bits)))
	case "int32(rune)":
		s(rune(int32(bits)), int64(int32(bits)))
	case "int64":
		s(int64(bits), int64(bits))
	case "uint":
		u(uint(bits), uint64(uint(bits)))
	case "uint8(byte)":
		u(byte(bits), uint64(uint8(bits)))
	case "uint16":
		u(uint16(bits), uint64(uint16(bits)))
	case "uint32":
		u(uint32(bits), uint64(uint32(bits)))
	case "uint64":
		u(bits, bits)
	case "uintptr":
		u(uintptr(bits), uint64(uintptr(bits)))
	case "float32":
		x := math.Float32frombits(uint32(bits))
		f(x, float64(x))
	case "float64":
		x := math.Float64frombits(bits)
		f(x, x)
	}
	return n
}

// c20table is the exhaustive part: every type x {zero, 1, max, min, -1, ...}.
func c20table() []c20num {
	var rows []c20num
	for t, name := range c20numTypes {
		w := c20bitsOf(t)
		var pats []uint64
		switch name {
		case "float32":
			for _, x := range []float32{0, float32(math.Copysign(0, -1)), 1, -1, math.MaxFloat32, -math.MaxFloat32, math.SmallestNonzeroFloat32,
				float32(math.Inf(1)), float32(math.Inf(-1)), float32(math.NaN()), 0.1, 16777217} {
				pats = append(pats, uint64(math.Float32bits(x)))
			}
		case "float64":
			for _, x := range []float64{0, math.Copysign(0, -1), 1, -1, math.MaxFloat64, -math.MaxFloat64, math.SmallestNonzeroFloat64,
				math.Inf(1), math.Inf(-1), math.NaN(), 0.1, 1<<53 + 2} {
				pats = append(pats, math.Float64bits(x))
			}
		default:
			// zero, 1, max-signed (= high-bit-clear all ones), min-signed (= high bit), -1 (= all ones = max-unsigned), 2
			pats = []uint64{0, 1, 1<<(w-1) - 1, 1 << (w - 1), ^uint64(0), 2}
		}
		for i, p := range pats {
			n := c20mkNum(t, p)
			n.edge = !(n.class != 'f' && i == 5)
			rows = append(rows, n)
		}
	}
	return rows
}

// c20numOf extracts the exact value of a numeric uGO object.
func c20numOf(o ugo.Object) (val *big.Float, nan bool, kind string) {
	switch x := o.(type) {
	case ugo.Int:
		return new(big.Float).SetInt64(int64(x)), false, "int"
	case ugo.Uint:
		return new(big.Float).SetUint64(uint64(x)), false, "uint"
	case ugo.Char:
		return new(big.Float).SetInt64(int64(x)), false, "char"
	case ugo.Float:
		if math.IsNaN(float64(x)) {
			return nil, true, "float"
		}
		return new(big.Float).SetFloat64(float64(x)), false, "float"
	}
	return nil, false, ""
}

// ---------------------------------------------------------------- unsupported Go types

type c20S struct {
	A int
	B string
}
type c20myInt int
type c20myInt64 int64
type c20myUint8 uint8
type c20myString string
type c20myBytes []byte
type c20mySlice []any
type c20myMap map[string]any
type c20myFloat float64
type c20myBool bool
type c20myFn func(...ugo.Object) (ugo.Object, error)
type c20iface interface{ M() }

type c20lab struct {
	label string
	v     any
}

func c20unsupported() []c20lab {
	i := 7
	s := "s"
	var op ugo.Object = ugo.Int(1)
	d := time.Duration(5)
	rm := json.RawMessage("1")
	sl := []any{int64(1)}
	mp := map[string]any{"a": int64(1)}
	return []c20lab{
		// types from OTHER packages that print like supported ones ("time.Time", "time.Duration", "json.RawMessage" ...)
		{"collide time.Time", ctime.Time{X: 1}},
		{"collide *time.Time", &ctime.Time{X: 1}},
		{"collide time.Duration", ctime.Duration(5)},
		{"collide *time.Location", &ctime.Location{Name: "x"}},
		{"collide time.Location", ctime.Location{Name: "x"}},
		{"collide time.Month", ctime.Month(3)},
		{"collide json.RawMessage", cjson.RawMessage("1")},
		{"collide json.Number", cjson.Number("1")},
		{"stdlib/time.Time struct value (not the pointer object)", utime.Time{}},
		{"struct{}", struct{}{}},
		{"struct", c20S{1, "x"}},
		{"*struct", &c20S{1, "x"}},
		{"*struct(nil)", (*c20S)(nil)},
		{"chan int", make(chan int)},
		{"chan int(nil)", (chan int)(nil)},
		{"<-chan Object", (<-chan ugo.Object)(nil)},
		{"map[int]string", map[int]string{1: "a"}},
		{"map[string]int", map[string]int{"a": 1}},
		{"map[string]string", map[string]string{}},
		{"map[string]string(nil)", map[string]string(nil)},
		{"map[string][]any", map[string][]any{"a": nil}},
		{"map[any]any", map[any]any{"a": 1}},
		{"map[string]ugo.Int", map[string]ugo.Int{"a": 1}},
		{"map[c20myString]any", map[c20myString]any{}},
		{"[]int", []int{1}},
		{"[]int64(nil)", []int64(nil)},
		{"[]string", []string{"a"}},
		{"[][]byte", [][]byte{}},
		{"[][]any", [][]any{{}}},
		{"[]map[string]any", []map[string]any{}},
		{"[]ugo.Int", []ugo.Int{1}},
		{"[]error", []error{errors.New("x")}},
		{"[]time.Time", []time.Time{{}}},
		{"[3]int", [3]int{}},
		{"[0]byte", [0]byte{}},
		{"[1]ugo.Object", [1]ugo.Object{ugo.Int(1)}},
		{"[2]any", [2]any{}},
		{"func()", func() {}},
		{"func(int)int", func(x int) int { return x }},
		{"func(Object)(Object,error)", func(o ugo.Object) (ugo.Object, error) { return o, nil }},
		{"func(...Object)Object", func(...ugo.Object) ugo.Object { return nil }},
		{"func(...any)(Object,error)", func(...any) (ugo.Object, error) { return nil, nil }},
		{"CallableExFunc", ugo.CallableExFunc(func(ugo.Call) (ugo.Object, error) { return nil, nil })},
		{"named callable", c20myFn(func(...ugo.Object) (ugo.Object, error) { return nil, nil })},
		{"func()(nil)", (func())(nil)},
		{"complex64", complex64(1)},
		{"complex128", complex128(1i)},
		{"*int", &i},
		{"*int(nil)", (*int)(nil)},
		{"**int", new(*int)},
		{"*string", &s},
		{"*[]any", &sl},
		{"*map[string]any", &mp},
		{"*ugo.Object", &op},
		{"*time.Duration", &d},
		{"*json.RawMessage", &rm},
		{"**time.Time", new(*time.Time)},
		{"**time.Location", new(*time.Location)},
		{"unsafe.Pointer", unsafe.Pointer(nil)},
		{"named int", c20myInt(3)},
		{"named int64", c20myInt64(3)},
		{"named uint8", c20myUint8(3)},
		{"named string", c20myString("x")},
		{"named []byte", c20myBytes("x")},
		{"named []any", c20mySlice{int64(1)}},
		{"named map", c20myMap{"a": int64(1)}},
		{"named float64", c20myFloat(1.5)},
		{"named bool", c20myBool(true)},
		{"time.Month", time.Month(3)},
		{"time.Weekday", time.Weekday(3)},
		{"json.Number", json.Number("12")},
		{"*big.Int", big.NewInt(5)},
		{"big.Int", *big.NewInt(5)},
		{"*big.Float", big.NewFloat(1)},
		{"*c20iface(nil)", (*c20iface)(nil)},
		{"*any", new(any)},
		{"json.Delim", json.Delim('[')},
	}
}

// c20wrap puts v at the bottom of container shape s.
func c20wrap(shape int, v any) any {
	switch shape {
	case 1:
		return []any{int64(1), v, "tail"}
	case 2:
		return map[string]any{"a": "x", "k": v}
	case 3:
		return []any{map[string]any{"k": []any{map[string]any{"z": []any{v}}}}, nil}
	}
	return v
}

// c20unwrapObj follows the same path in a converted object; ok=false if the shape is not as expected.
func c20unwrapObj(shape int, o ugo.Object) (ugo.Object, bool) {
	idx := func(o ugo.Object, i int) (ugo.Object, bool) {
		a, ok := o.(ugo.Array)
		if !ok || i >= len(a) {
			return nil, false
		}
		return a[i], true
	}
	key := func(o ugo.Object, k string) (ugo.Object, bool) {
		m, ok := o.(ugo.Map)
		if !ok {
			return nil, false
		}
		v, ok := m[k]
		return v, ok
	}
	ok := true
	switch shape {
	case 1:
		return idx(o, 1)
	case 2:
		return key(o, "k")
	case 3:
		if o, ok = idx(o, 0); !ok {
			return nil, false
		}
		if o, ok = key(o, "k"); !ok {
			return nil, false
		}
		if o, ok = idx(o, 0); !ok {
			return nil, false
		}
		if o, ok = key(o, "z"); !ok {
			return nil, false
		}
		return idx(o, 0)
	}
	return o, true
}

var c20shapeName = [...]string{"scalar", "in []any", "in map[string]any", "5 levels deep"}

// ---------------------------------------------------------------- registry values (fixed list)

func c20registryFixed() []c20lab {
	var l []c20lab
	for i := range c20times {
		t := c20times[i]
		l = append(l, c20lab{"time.Time", t}, c20lab{"*time.Time", &t})
	}
	l = append(l, c20lab{"*time.Time(nil)", (*time.Time)(nil)})
	for _, d := range []time.Duration{0, 1, -1, math.MaxInt64, math.MinInt64, time.Hour} {
		l = append(l, c20lab{"time.Duration", d})
	}
	for _, loc := range c20locs {
		l = append(l, c20lab{"*time.Location", loc})
	}
	l = append(l, c20lab{"*time.Location(nil)", (*time.Location)(nil)})
	for _, r := range c20raws {
		l = append(l, c20lab{"json.RawMessage", r})
	}
	return l
}

// ---------------------------------------------------------------- odd inputs for the no-panic rule

// c20nilErr is an error whose method tolerates a nil receiver.
type c20nilErr struct{ s string }

func (e *c20nilErr) Error() string {
	if e == nil {
		return "<nil c20nilErr>"
	}
	return e.s
}

// c20valErr is a non-pointer error type.
type c20valErr int

func (e c20valErr) Error() string { return fmt.Sprint("valErr ", int(e)) }

func c20odd() []c20lab {
	fn := func(args ...ugo.Object) (ugo.Object, error) { return ugo.Undefined, nil }
	l := []c20lab{
		{"Object(nil) via any(nil)", nil},
		{"(*SyncMap)(nil)", (*ugo.SyncMap)(nil)},
		{"&SyncMap{Value:nil}", &ugo.SyncMap{}},
		{"&SyncMap{a:nil Object}", &ugo.SyncMap{Value: ugo.Map{"a": nil}}},
		{"&SyncMap nested", &ugo.SyncMap{Value: ugo.Map{"a": ugo.Array{(*ugo.SyncMap)(nil), &ugo.SyncMap{}}}}},
		{"Array{nil}", ugo.Array{nil}},
		{"Array{nil *SyncMap}", ugo.Array{(*ugo.SyncMap)(nil)}},
		{"Map{a:nil}", ugo.Map{"a": nil}},
		{"Array(nil)", ugo.Array(nil)},
		{"Map(nil)", ugo.Map(nil)},
		{"Bytes(nil)", ugo.Bytes(nil)},
		{"Map{a:Array{Map{b:nil}}}", ugo.Map{"a": ugo.Array{ugo.Map{"b": nil}}}},
		{"map[string]Object(nil)", map[string]ugo.Object(nil)},
		{"map[string]Object{a:nil}", map[string]ugo.Object{"a": nil}},
		{"map[string]Object{}", map[string]ugo.Object{}},
		{"[]Object(nil)", []ugo.Object(nil)},
		{"[]Object{nil}", []ugo.Object{nil}},
		{"[]Object{Int,nil *SyncMap}", []ugo.Object{ugo.Int(1), (*ugo.SyncMap)(nil)}},
		{"[]any{[]Object(nil),map[string]Object(nil)}", []any{[]ugo.Object(nil), map[string]ugo.Object(nil)}},
		{"[]any{nil,[]any(nil),map(nil),[]byte(nil)}", []any{nil, []any(nil), map[string]any(nil), []byte(nil)}},
		{"map[string]any{\"\":nil}", map[string]any{"": nil}},
		{"errors.New", errors.New("boom")},
		{"wrapped error", fmt.Errorf("w: %w", errors.New("inner"))},
		{"error with empty message", errors.New("")},
		{"value-type error", c20valErr(3)},
		{"typed-nil error (nil-safe method)", (*c20nilErr)(nil)},
		{"[]any{error}", []any{errors.New("x")}},
		{"map{e:error}", map[string]any{"e": c20valErr(1)}},
		{"CallableFunc(nil)", ugo.CallableFunc(nil)},
		{"CallableFunc", ugo.CallableFunc(fn)},
		{"[]any{CallableFunc(nil)}", []any{ugo.CallableFunc(nil), ugo.CallableFunc(fn)}},
		{"Undefined", ugo.Undefined},
		{"(*UndefinedType)(nil)", (*ugo.UndefinedType)(nil)},
		{"(*Error)(nil)", (*ugo.Error)(nil)},
		{"&Error{}", &ugo.Error{}},
		{"ErrType", ugo.ErrType},
		{"(*RuntimeError)(nil)", (*ugo.RuntimeError)(nil)},
		{"&RuntimeError{}", &ugo.RuntimeError{}},
		{"(*ObjectPtr)(nil)", (*ugo.ObjectPtr)(nil)},
		{"&ObjectPtr{}", &ugo.ObjectPtr{}},
		{"(*Function)(nil)", (*ugo.Function)(nil)},
		{"&Function{}", &ugo.Function{}},
		{"(*BuiltinFunction)(nil)", (*ugo.BuiltinFunction)(nil)},
		{"builtin len", ugo.BuiltinObjects[ugo.BuiltinLen]},
		{"(*CompiledFunction)(nil)", (*ugo.CompiledFunction)(nil)},
		{"&CompiledFunction{}", &ugo.CompiledFunction{}},
		{"&utime.Time{}", &utime.Time{}},
		{"&utime.Location{Value:nil}", &utime.Location{}},
		{"&utime.Location{UTC}", &utime.Location{Value: time.UTC}},
		{"&ujson.RawMessage{}", &ujson.RawMessage{}},
		{"&ujson.RawMessage{x}", &ujson.RawMessage{Value: []byte("x")}},
		{"&ujson.EncoderOptions{}", &ujson.EncoderOptions{}},
		{"(*ujson.EncoderOptions)(nil)", (*ujson.EncoderOptions)(nil)},
		{"Array{&utime.Time{},&ujson.RawMessage{}}", ugo.Array{&utime.Time{}, &ujson.RawMessage{}, &utime.Location{Value: time.Local}}},
		// typed-nil Objects of the registry types: accepted by ToObject (they are Objects), then fed to ToInterface
		{"(*utime.Time)(nil)", (*utime.Time)(nil)},
		{"(*utime.Location)(nil)", (*utime.Location)(nil)},
		{"(*ujson.RawMessage)(nil)", (*ujson.RawMessage)(nil)},
	}
	if f, ok := ufmt.Module["ScanArg"].(*ugo.Function); ok && f.Value != nil {
		for _, tn := range []string{"string", "int", "uint", "float", "bool", "char", "bytes"} {
			if sa, err := f.Value(ugo.String(tn)); err == nil && sa != nil {
				l = append(l, c20lab{"scanArg(" + tn + ")", sa})
			}
		}
	}
	return l
}
