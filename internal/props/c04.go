package props

import (
	"bytes"
	"encoding/json"
	"fmt"
	"io"
	"runtime/debug"
	"sort"
	"strings"

	"github.com/ozanh/ugo"
	"github.com/ozanh/ugo/encoder"

	"verif/internal/canon"
	"verif/internal/core"
	"verif/internal/gen"
)

// C04 — encoding bytecode and decoding it again preserves behaviour.
type c04 struct{}

func init() { core.Register(c04{}) }

func (c04) ID() string    { return "C04" }
func (c04) Level() string { return "exploration" }
func (c04) Race() bool    { return false }
func (c04) Rule() string {
	return "each compiled program bc is encoded (b1), decoded with the same builtin modules (bc'), re-encoded (b2) and decoded again (bc''); bc, bc' and bc'' are run on 3 argument vectors and value, " +
		"event log, globals, error name+message and the stack trace as file:line must agree; encode/decode of compiler output must never fail or panic. " +
		"Workload: fixed constants profile (every constant kind at its extremes, varint-width edges, non-UTF-8 strings, >256 constants, nested functions, zero-field functions, synthetic builtin modules holding every value type) " +
		"+ seeded generated programs with source modules and stdlib builtin modules, optimizer on (so folded NaN/Inf/-0 constants occur). " +
		"non-trivial = bytecode has >=1 jump and >=1 non-scalar constant; distinct by source hash"
}
func (c04) Batches(string) int { return 32 }
func (c04) Required(string) []string {
	return []string{"roundtrips", "const_profile", "generated", "with_source_modules", "with_builtin_modules", "error_outcomes_with_trace", "kind.float", "kind.string", "kind.compiledFunction", "kind.map", "boundary_roundtrips", "writer_fault_points", "mixed_module_kinds"}
}
func (c04) Assumptions() []string {
	return []string{"running the original bytecode is the reference", "canon.Outcome comparison (floats by bits, traces as file:line)"}
}

type c04wit struct {
	Program *Program `json:"program"`
	Why     string   `json:"why"`
	Orig    any      `json:"original"`
	Dec     any      `json:"decoded"`
	Stage   string   `json:"stage"`
}

func safeEncode(bc *ugo.Bytecode) (b []byte, err error, pan string) {
	defer func() {
		if r := recover(); r != nil {
			pan = fmt.Sprint(r) + "|" + stackTopRepo(string(debug.Stack()))
		}
	}()
	var buf bytes.Buffer
	err = encoder.EncodeBytecodeTo(bc, &buf)
	return buf.Bytes(), err, ""
}

// limitWriter accepts limit bytes and fails afterwards (a full disk, a closed pipe); chunk > 0 makes it accept at most chunk
// bytes per call without an error (a legal short write must be reported by the caller as io.ErrShortWrite).
type limitWriter struct {
	buf   bytes.Buffer
	limit int
	short bool
}

func (w *limitWriter) Write(p []byte) (int, error) {
	room := w.limit - w.buf.Len()
	if room >= len(p) {
		return w.buf.Write(p)
	}
	if room < 0 {
		room = 0
	}
	w.buf.Write(p[:room])
	if w.short {
		return room, nil
	}
	return room, fmt.Errorf("injected write failure after %d bytes", w.limit)
}

// writerFaults: whenever EncodeBytecodeTo reports success, the destination holds the complete encoding.
func (m c04) writerFaults(c *core.Ctx, p *Program, bc *ugo.Bytecode) {
	full, err, pan := safeEncode(bc)
	if err != nil || pan != "" {
		return
	}
	step := 1
	if len(full) > 3000 {
		step = len(full)/1500 + 1
	}
	// (a writer that returns n < len(p) without an error would break the io.Writer contract and is not used)
	for _, short := range []bool{false} {
		for limit := 0; limit < len(full); limit += step {
			w := &limitWriter{limit: limit, short: short}
			var eerr error
			var epan string
			func() {
				defer func() {
					if r := recover(); r != nil {
						epan = fmt.Sprint(r)
					}
				}()
				eerr = encoder.EncodeBytecodeTo(bc, w)
			}()
			c.Count("writer_fault_points")
			if epan != "" {
				c.Violation("C04|encode-panic|writer-fault", "EncodeBytecodeTo panics when the writer fails: "+epan, c04wit{Program: p, Stage: fmt.Sprintf("writer fails after %d of %d bytes", limit, len(full))})
				return
			}
			if eerr == nil && !bytes.Equal(w.buf.Bytes(), full) {
				c.Violation("C04|encode-reports-success-on-incomplete-write", fmt.Sprintf("EncodeBytecodeTo returned nil although the writer took only %d of %d bytes (short=%v): the stored encoding is not the program", w.buf.Len(), len(full), short), c04wit{Program: p, Stage: fmt.Sprintf("writer limit %d of %d bytes, short write=%v", limit, len(full), short)})
				return
			}
		}
	}
}

// c04structure renders everything a decoded Bytecode holds (maps in canonical order), for comparing two decodes.
func c04structure(bc *ugo.Bytecode) string {
	var sb strings.Builder
	fn := func(f *ugo.CompiledFunction) {
		if f == nil {
			sb.WriteString("nil-fn|")
			return
		}
		keys := make([]int, 0, len(f.SourceMap))
		for k := range f.SourceMap {
			keys = append(keys, k)
		}
		sort.Ints(keys)
		fmt.Fprintf(&sb, "fn p%d l%d v%v %x sm[", f.NumParams, f.NumLocals, f.Variadic, f.Instructions)
		for _, k := range keys {
			fmt.Fprintf(&sb, "%d:%d,", k, f.SourceMap[k])
		}
		sb.WriteString("]|")
	}
	fmt.Fprintf(&sb, "mods%d|", bc.NumModules)
	fn(bc.Main)
	for _, k := range bc.Constants {
		if cf, ok := k.(*ugo.CompiledFunction); ok {
			fn(cf)
		} else {
			sb.WriteString(canon.Value(k) + "|")
		}
	}
	if bc.FileSet != nil {
		fmt.Fprintf(&sb, "fs base%d ", bc.FileSet.Base)
		for _, f := range bc.FileSet.Files {
			fmt.Fprintf(&sb, "%s %d %d %v;", f.Name, f.Base, f.Size, f.Lines)
		}
	}
	return sb.String()
}

// chunkReader delivers data in chunks of at most chunk bytes; with eofWithData the last chunk is returned together with
// io.EOF, otherwise io.EOF comes with a later empty read. Both are allowed by the io.Reader contract.
type chunkReader struct {
	data        []byte
	chunk       int
	eofWithData bool
}

func (r *chunkReader) Read(p []byte) (int, error) {
	if len(r.data) == 0 {
		return 0, io.EOF
	}
	n := r.chunk
	if n > len(p) {
		n = len(p)
	}
	if n > len(r.data) {
		n = len(r.data)
	}
	copy(p, r.data[:n])
	r.data = r.data[n:]
	if len(r.data) == 0 && r.eofWithData {
		return n, io.EOF
	}
	return n, nil
}

func safeDecode(b []byte, mm *ugo.ModuleMap) (bc *ugo.Bytecode, err error, pan string) {
	defer func() {
		if r := recover(); r != nil {
			pan = fmt.Sprint(r) + "|" + stackTopRepo(string(debug.Stack()))
		}
	}()
	bc, err = encoder.DecodeBytecodeFrom(bytes.NewReader(b), mm)
	return
}

var c04constProfile = []string{
	"param p\nx := [9223372036854775807, -9223372036854775807 - 1, 0, -1, 18446744073709551615u, 0u, 1u]\nreturn p ? x : string(x)",
	"param p\nx := [0.0, -0.0, 1.5, 5e-324, 1.7976931348623157e308, 2.2250738585072014e-308, float(\"NaN\"), float(\"Inf\"), float(\"-Inf\")]\nreturn p ? x : sprintf(\"%v\", x)",
	"param p\nx := -0.0\nif p {\n  x = 1.0\n}\nreturn string(x)",
	"param p\nreturn [1 / (p ? 1.0 : -0.0 + 2.0), -0.0, string(-0.0), 0.0 * -1.0]",
	"param p\nx := ['a', '\\x00', '\\U0010FFFF', char(1114111), 'é', char(-1)]\nreturn p ? x : string(x)",
	"param p\nx := [\"\", \"a\", \"\\xff\\xfe\", \"é\", `raw\\n`, \"\\x00\"]\nreturn p ? x : len(x[2])",
	"param p\nreturn [true, false, undefined, p]",
	"param p\nf := func() {\n  return func() {\n    return func() {\n      return func(a, ...b) {\n        return [a, b, p]\n      }\n    }\n  }\n}\nreturn f()()()(1, 2, 3)",
	"param p\nf := func() {}\ng := func(...a) { return a }\nh := func(a) { return a }\nreturn [f(), g(), g(1), h(p)]",
	"global L\nparam p\ntry {\n  if p {\n    throw error(\"boom\")\n  }\n  L(1)\n} catch e {\n  L(e.Message)\n} finally {\n  L(2)\n}\nfor i := 0; i < 3; i++ {\n  if i == 1 {\n    continue\n  }\n  L(i)\n}\nreturn p && 1 || 2",
	"param p\nf := func(n) {\n  if n == 0 {\n    return [1][p ? 5 : 0]\n  }\n  return f2(n - 1)\n}\nvar f2\nf2 = f\nreturn f(3)",
}

func c04bigConsts() string {
	var sb strings.Builder
	sb.WriteString("param p\nx := [")
	for i := 0; i < 300; i++ {
		if i > 0 {
			sb.WriteString(", ")
		}
		sb.WriteString(fmt.Sprintf("%d, \"s%d\"", 1000+i, i))
	}
	sb.WriteString("]\nreturn p ? len(x) : x[599]\n")
	return sb.String()
}

func c04longStrings() string {
	var sb strings.Builder
	sb.WriteString("param p\nx := [")
	for i, n := range []int{1, 127, 128, 129, 16383, 16384, 16385} {
		if i > 0 {
			sb.WriteString(", ")
		}
		sb.WriteString("\"" + strings.Repeat("z", n) + "\"")
	}
	sb.WriteString("]\nr := []\nfor s in x {\n  r = append(r, len(s))\n}\nreturn p ? r : x[3]\n")
	return sb.String()
}

// syntheticModule holds every value type a builtin module map may contain.
func c04syntheticModule() map[string]ugo.Object {
	return map[string]ugo.Object{
		"izero": ugo.Int(0), "ione": ugo.Int(1), "uzero": ugo.Uint(0), "fzero": ugo.Float(0), "fneg": ugo.Float(-2.5),
		"czero": ugo.Char(0), "ca": ugo.Char('a'), "sempty": ugo.String(""), "s": ugo.String("str"), "t": ugo.True, "f": ugo.False,
		"undef": ugo.Undefined, "bytes": ugo.Bytes{1, 2, 3}, "bempty": ugo.Bytes{}, "arr": ugo.Array{ugo.Int(1), ugo.String("x"), ugo.Array{}},
		"aempty": ugo.Array{}, "map": ugo.Map{"k": ugo.Int(1), "n": ugo.Map{}, "": ugo.String("empty key, nested")}, "mempty": ugo.Map{},
		"": ugo.String("attribute with the empty name"), " ": ugo.Int(32), "ключ": ugo.String("non-ascii key"),
		"syncempty": &ugo.SyncMap{Value: ugo.Map{}}, "syncempty2": &ugo.SyncMap{Value: ugo.Map{}}, "mempty2": ugo.Map{}, "nestedempties": ugo.Array{ugo.Map{}, &ugo.SyncMap{Value: ugo.Map{}}, ugo.Map{}, ugo.Array{}, ugo.Bytes{}},
		"smapkeys": &ugo.SyncMap{Value: ugo.Map{"": ugo.Int(1), "a": ugo.Int(2), "b": ugo.Int(3)}},
		"err":      &ugo.Error{Name: "ModErr", Message: "m"}, "sync": &ugo.SyncMap{Value: ugo.Map{"a": ugo.Int(1)}},
		"fn":  &ugo.Function{Name: "fn", Value: func(a ...ugo.Object) (ugo.Object, error) { return ugo.Int(len(a)), nil }},
		"bfn": ugo.BuiltinObjects[ugo.BuiltinTypeName],
		// functions nested in container attributes
		"ops":   ugo.Map{"double": &ugo.Function{Name: "double", Value: func(a ...ugo.Object) (ugo.Object, error) { return ugo.Int(2 * len(a)), nil }}, "k": ugo.Int(5)},
		"hooks": ugo.Array{&ugo.Function{Name: "h0", Value: func(a ...ugo.Object) (ugo.Object, error) { return ugo.String("h0"), nil }}, ugo.Int(1), ugo.Map{"deep": &ugo.Function{Name: "deep", Value: func(a ...ugo.Object) (ugo.Object, error) { return ugo.String("deep"), nil }}}},
		// several values of one kind that the encoder serializes through its generic fallback, in one container
		"err2":   &ugo.Error{Name: "ModErr2", Message: "m2", Cause: &ugo.Error{Name: "Cause", Message: "c"}},
		"errs":   ugo.Map{"e1": &ugo.Error{Name: "E1", Message: "one"}, "e2": &ugo.Error{Name: "E2", Message: "two"}, "e3": &ugo.Error{Name: "E3", Message: "three"}},
		"errarr": ugo.Array{&ugo.Error{Name: "A0", Message: "zero"}, &ugo.Error{Name: "A1", Message: "one"}},
		"serrs":  &ugo.SyncMap{Value: ugo.Map{"a": &ugo.Error{Name: "SA", Message: "a"}, "b": &ugo.Error{Name: "SB", Message: "b"}}},
		"smapfn": &ugo.SyncMap{Value: ugo.Map{"f": &ugo.Function{Name: "sf", Value: func(a ...ugo.Object) (ugo.Object, error) { return ugo.String("sf"), nil }}}},
	}
}

// c04plainModule is the third module kind: an Importable whose Import returns a plain object (here a Map without a
// module name marker), which the compiler stores as an ordinary constant.
type c04plainModule struct{}

func (c04plainModule) Import(string) (any, error) {
	return ugo.Map{"v": ugo.Int(7), "list": ugo.Array{ugo.Int(1), ugo.String("two")}, "nested": ugo.Map{"a": ugo.Float(1.5)}}, nil
}

// programs mixing the module kinds in every import order (the serializer post-processes decoded module constants in
// constant order)
var c04mixedModules = []string{
	"global L\nparam p\npl := import(\"plainmap\")\nm := import(\"synth\")\ns := import(\"strings\")\nreturn [pl.v, pl.list, m.fn(1, 2), m.ops.double(1), s.ToUpper(\"ab\"), m.bfn(1)]\n",
	"global L\nparam p\ns := import(\"strings\")\npl := import(\"plainmap\")\nm := import(\"synth\")\nreturn [s.ToUpper(\"ab\"), pl.nested.a, m.fn(1, 2), m.hooks[0](), m.smapfn.f()]\n",
	"global L\nparam p\nm := import(\"synth\")\ns := import(\"strings\")\npl := import(\"plainmap\")\nk := {lit: 1}\nreturn [m.fn(1), s.Repeat(\"a\", 2), pl.v, k]\n",
	"global L\nparam p\nk := {lit: [1, {deep: 2}]}\nf := func() {\n  return import(\"plainmap\").v\n}\nt := import(\"time\")\nj := import(\"json\")\nreturn [k, f(), string(j.Marshal(k)), t.Second > 0, import(\"fmt\").Sprintf(\"%d\", 5)]\n",
}

const c04synthUser = "global L\nparam p\nm := import(\"synth\")\nr := [m.izero, m.ione, m.uzero, m.fzero, m.fneg, m.czero, m.ca, m.sempty, m.s, m.t, m.f, m.undef, m.bytes, m.bempty, m.arr, m.aempty, m.map, m.mempty, string(m.err), m.sync, m.fn(1, 2), m.bfn(1), m.__module_name__, m.ops.double(1, 2, 3), m.ops.k, m.hooks[0](), m.hooks[2].deep(), m.smapfn.f(), string(m.err2), string(m.err2.Cause), string(m.errs.e1), string(m.errs.e2), string(m.errs.e3), string(m.errarr[0]), string(m.errarr[1]), string(m.serrs.a), string(m.serrs.b), m[\"\"], m[\" \"], m[\"ключ\"], m.map[\"\"], m.smapkeys[\"\"], m.smapkeys.a, len(m.smapkeys), len(m.map), typeName(m.syncempty), typeName(m.mempty), typeName(m.mempty2), typeName(m.syncempty2), m.nestedempties, typeName(m.nestedempties[0]), typeName(m.nestedempties[1]), typeName(m.nestedempties[2])]\nm.arr[0] = 99\nm.map.k = 98\nreturn p ? r : [import(\"synth\").arr, import(\"synth\").map]\n"

func bytecodeKinds(c *core.Ctx, bc *ugo.Bytecode) (jumps int, nonScalar int) {
	for _, k := range bc.Constants {
		c.Count("kind." + k.TypeName())
		switch k.(type) {
		case *ugo.CompiledFunction, ugo.Map, ugo.Array:
			nonScalar++
		}
	}
	scan := func(insts []byte) {
		ugo.IterateInstructions(insts, func(_ int, op ugo.Opcode, _ []int, _ int) bool {
			switch op {
			case ugo.OpJump, ugo.OpJumpFalsy, ugo.OpAndJump, ugo.OpOrJump, ugo.OpSetupTry:
				jumps++
			}
			return true
		})
	}
	scan(bc.Main.Instructions)
	for _, k := range bc.Constants {
		if cf, ok := k.(*ugo.CompiledFunction); ok {
			scan(cf.Instructions)
		}
	}
	return
}

func (m c04) roundTrip(c *core.Ctx, p *Program, mm *ugo.ModuleMap, argVectors [][]ugo.Object, optLimit int) bool {
	opts := ugo.CompilerOptions{ModuleMap: mm}
	if optLimit < 0 {
		opts.NoOptimize = true
	}
	cr := safeCompile([]byte(p.Src), opts)
	if cr.err != nil || cr.panicv != "" {
		c.Count("discarded_compile_error")
		return false
	}
	b1, err, pan := safeEncode(cr.bc)
	if pan != "" || err != nil {
		c.Violation("C04|encode-fails|"+core.NormMsg(pan+fmt.Sprint(err)), "encoding compiler output fails: "+pan+fmt.Sprint(err), c04wit{Program: p, Stage: "encode1"})
		return false
	}
	bc1, err, pan := safeDecode(b1, mm)
	if pan != "" || err != nil {
		c.Violation("C04|decode-fails|"+core.NormMsg(pan+fmt.Sprint(err)), "decoding an encoding of compiler output fails: "+pan+fmt.Sprint(err), c04wit{Program: p, Stage: "decode1"})
		return false
	}
	b2, err, pan := safeEncode(bc1)
	if pan != "" || err != nil {
		c.Violation("C04|reencode-fails|"+core.NormMsg(pan+fmt.Sprint(err)), "re-encoding decoded bytecode fails: "+pan+fmt.Sprint(err), c04wit{Program: p, Stage: "encode2"})
		return false
	}
	bc2, err, pan := safeDecode(b2, mm)
	if pan != "" || err != nil {
		c.Violation("C04|redecode-fails|"+core.NormMsg(pan+fmt.Sprint(err)), "decoding the re-encoding fails: "+pan+fmt.Sprint(err), c04wit{Program: p, Stage: "decode2"})
		return false
	}
	c.Count("roundtrips")
	// the same bytes through readers that deliver them in other ways the io.Reader contract allows: small chunks, and the
	// last chunk together with io.EOF (as gzip / flate readers and iotest.DataErrReader do). What is decoded must not
	// depend on how the bytes arrive: the decoded program re-encodes to the same bytes as the one read from a bytes.Reader.
	for _, chunk := range []int{1, 3, 4, 7, 512, len(b1) - 4, len(b1) - 1, len(b1), len(b1) + 10} {
		if chunk <= 0 {
			continue
		}
		for _, eofWithData := range []bool{true, false} {
			var bcr *ugo.Bytecode
			var rerr error
			var rpan string
			func() {
				defer func() {
					if r := recover(); r != nil {
						rpan = fmt.Sprint(r)
					}
				}()
				bcr, rerr = encoder.DecodeBytecodeFrom(&chunkReader{data: b1, chunk: chunk, eofWithData: eofWithData}, mm)
			}()
			c.Count("reader_shapes")
			stage := fmt.Sprintf("reader delivering %d-byte chunks, last chunk with io.EOF=%v (%d bytes)", chunk, eofWithData, len(b1))
			if rpan != "" || rerr != nil {
				c.Violation("C04|decode-depends-on-reader|fails", "decoding fails when the bytes arrive through a "+stage+": "+rpan+fmt.Sprint(rerr), c04wit{Program: p, Stage: stage})
				return false
			}
			if c04structure(bcr) != c04structure(bc1) {
				c.Violation("C04|decode-depends-on-reader|differs", "the program decoded through a "+stage+" is not the program decoded from a bytes.Reader", c04wit{Program: p, Stage: stage})
				return false
			}
		}
	}
	if bytes.Equal(b1, b2) {
		c.Count("reencoding_byte_identical")
	}
	for _, args := range argVectors {
		o0 := runVM(cr.bc, args, ugo.Map{"G": ugo.Int(3)}, true)
		for stage, bc := range map[string]*ugo.Bytecode{"decoded": bc1, "redecoded": bc2} {
			o := runVM(bc, args, ugo.Map{"G": ugo.Int(3)}, true)
			if o0.Kind == "timeout" || o.Kind == "timeout" {
				c.Inconclusive("watchdog " + progHash(p))
				continue
			}
			if o0.Kind == "error" && o0.Trace != "" {
				c.Count("error_outcomes_with_trace")
			}
			if o.Key(true) != o0.Key(true) {
				why := "outcome"
				switch {
				case o.Kind != o0.Kind:
					why = "kind"
				case o.Value != o0.Value:
					why = "value"
				case o.Log != o0.Log:
					why = "event log"
				case o.ErrName != o0.ErrName || o.ErrMsg != o0.ErrMsg:
					why = "error"
				case o.Trace != o0.Trace:
					why = "stack trace positions"
				}
				c.Violation("C04|diff|"+stage+"|"+why+"|"+progHash(p), stage+" bytecode behaves differently ("+why+")", c04wit{Program: p, Why: why, Orig: o0, Dec: o, Stage: stage})
				return true
			}
		}
	}
	return true
}

func (m c04) Run(c *core.Ctx) {
	if c.Replay != nil {
		var w c04wit
		if json.Unmarshal(c.Replay, &w) == nil && w.Program != nil {
			mm := moduleMapFor(w.Program)
			mm.AddBuiltinModule("synth", c04syntheticModule())
			mm.Add("plainmap", c04plainModule{})
			m.roundTrip(c, w.Program, mm, [][]ugo.Object{{ugo.True}, {ugo.False}, {}, {ugo.Int(2), ugo.Int(0)}}, 0)
			m.roundTrip(c, w.Program, mm, [][]ugo.Object{{ugo.True}, {ugo.False}, {}, {ugo.Int(2), ugo.Int(0)}}, -1)
		}
		return
	}
	idx := 0
	boolVectors := [][]ugo.Object{{ugo.True}, {ugo.False}, {}}
	fixed := append([]string{}, c04constProfile...)
	fixed = append(fixed, c04bigConsts(), c04longStrings(), c04synthUser)
	for _, src := range fixed {
		for _, opt := range []int{-1, 0} {
			idx++
			if idx%c.NBatch != c.Batch {
				continue
			}
			p := &Program{Src: src, Tags: []string{"const-profile"}}
			if !c.Begin(func() string { return src }) {
				continue
			}
			mm := ugo.NewModuleMap()
			mm.AddBuiltinModule("synth", c04syntheticModule())
			if cr := safeCompile([]byte(src), ugo.CompilerOptions{ModuleMap: mm, NoOptimize: opt < 0}); cr.bc != nil && opt == 0 {
				m.writerFaults(c, p, cr.bc)
			}
			if m.roundTrip(c, p, mm, boolVectors, opt) {
				c.Count("const_profile")
				c.Nontrivial(fmt.Sprint(opt) + progHash(p))
			}
		}
	}
	for mi, src := range c04mixedModules {
		for _, opt := range []int{-1, 0} {
			idx++
			if idx%c.NBatch != c.Batch {
				continue
			}
			src := src
			p := &Program{Src: src, Tags: []string{"mixed-module-kinds"}, Builtin: []string{"strings", "time", "json", "fmt"}}
			if !c.Begin(func() string { return src }) {
				continue
			}
			mm := moduleMapFor(p)
			mm.AddBuiltinModule("synth", c04syntheticModule())
			mm.Add("plainmap", c04plainModule{})
			if m.roundTrip(c, p, mm, boolVectors, opt) {
				c.Count("mixed_module_kinds")
				c.Nontrivial(fmt.Sprintf("mixed-%d-%d", mi, opt))
			}
		}
	}
	// every program of the operand-width boundary enumeration (255/256/257 locals, parameters, captured variables,
	// call arguments, 65535/65536 constants, elements, jump distances, deep nestings ...) that compiles must survive the round trip
	for _, bcase := range c05boundary() {
		if strings.HasPrefix(bcase.name, "fold ") || strings.Contains(bcase.name, "-token-") || strings.HasPrefix(bcase.name, "parse-errors") {
			continue
		}
		idx++
		if idx%c.NBatch != c.Batch {
			continue
		}
		bcase := bcase
		if !c.Begin(func() string { return "boundary " + bcase.name }) {
			continue
		}
		p := &Program{Src: bcase.src, Tags: []string{"boundary " + bcase.name}}
		if strings.HasPrefix(bcase.name, "locals-module-") {
			var k int
			fmt.Sscanf(strings.TrimPrefix(bcase.name, "locals-module-"), "%d", &k)
			p.Modules = map[string]string{"big": c05bigModuleSrc(k)}
		}
		mm := moduleMapFor(p)
		opt := []int{-1, 0}[idx%2]
		if m.roundTrip(c, p, mm, [][]ugo.Object{{}}, opt) {
			c.Count("boundary_roundtrips")
			c.Nontrivial("boundary " + bcase.name)
		}
	}
	n := c.Pick(400, 30000)
	o := gen.Opts{MaxStmts: 26, MaxDepth: 4, ExprDepth: 3, Try: 0.35, Throw: 0.15, Funcs: 0.6, Shadow: 0.2, LogProb: 0.2,
		Consts: 0.5, Globals: true, DeepRecursion: 20, Faults: 0.004}
	for i := 0; i < n; i++ {
		if stopExploring(c) {
			break
		}
		o.Params = 1 + c.Rng.Intn(2)
		o.Modules = 0
		o.BuiltinMods = nil
		if c.Rng.Intn(3) == 0 {
			o.Modules = 1 + c.Rng.Intn(3)
		}
		if c.Rng.Intn(4) == 0 {
			o.BuiltinMods = [][]string{{"strings"}, {"time"}, {"fmt", "json"}, {"strings", "time", "fmt", "json"}}[c.Rng.Intn(4)]
		}
		gp := gen.Generate(c.Rng, o)
		p := fromGen(gp)
		vecs := make([][]ugo.Object, 3)
		for v := range vecs {
			for j := 0; j < o.Params; j++ {
				vecs[v] = append(vecs[v], ugo.Int(c.Rng.Intn(9)-2))
			}
		}
		opt := []int{-1, 0}[c.Rng.Intn(2)]
		if !c.Begin(func() string { return p.Src + fmt.Sprintf("\n// args %v opt %d", vecs, opt) }) {
			continue
		}
		mm := moduleMapFor(p)
		if !m.roundTrip(c, p, mm, vecs, opt) {
			continue
		}
		c.Count("generated")
		if len(p.Modules) > 0 {
			c.Count("with_source_modules")
		}
		if len(p.Builtin) > 0 {
			c.Count("with_builtin_modules")
		}
		cr := safeCompile([]byte(p.Src), ugo.CompilerOptions{ModuleMap: mm, NoOptimize: opt < 0})
		if cr.bc != nil {
			if j, ns := bytecodeKinds(c, cr.bc); j >= 1 && ns >= 1 {
				c.Nontrivial(progHash(p))
			}
		}
		if i%151 == 0 {
			c.Sample(map[string]any{"src": p.Src, "modules": p.Modules, "builtin": p.Builtin})
		}
	}
	_ = canon.Value
}
