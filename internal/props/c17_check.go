package props

import (
	"bytes"
	stdjson "encoding/json"
	"fmt"
	"math"
	"regexp"
	"runtime/debug"
	"sort"
	"strconv"
	"strings"
	"unicode/utf8"

	"github.com/ozanh/ugo"
	ujson "github.com/ozanh/ugo/stdlib/json"

	"verif/internal/core"
)

// ---------------------------------------------------------------------------
// helpers

type c17finding struct {
	fp    string
	what  string
	check string
	got   string
	want  string
	min   string
}

// c17guard runs f and reports a recovered panic (message, first /repo frame).
func c17guard(f func()) (msg, top string) {
	defer func() {
		if r := recover(); r != nil {
			msg = fmt.Sprint(r)
			if msg == "" {
				msg = "panic"
			}
			top = "?"
			for _, ln := range strings.Split(string(debug.Stack()), "\n") {
				if strings.HasPrefix(ln, "github.com/ozanh/ugo") {
					if i := strings.LastIndex(ln, "("); i > 0 {
						ln = ln[:i]
					}
					top = strings.TrimPrefix(ln, "github.com/ozanh/ugo")
					break
				}
			}
		}
	}()
	f()
	return
}

var c17sq = regexp.MustCompile(`'(\\.|[^'])*'`)

func c17normErr(err error) string {
	if err == nil {
		return "nil"
	}
	return core.NormMsg(c17sq.ReplaceAllString(err.Error(), "C"))
}

func c17clip(b []byte) string {
	if len(b) > 400 {
		return strconv.Quote(string(b[:300])) + "...(" + strconv.Itoa(len(b)) + " bytes)"
	}
	return strconv.Quote(string(b))
}

// c17normBF rewrites the short escapes \b and \f inside JSON strings to \u0008 / \u000c.
func c17normBF(b []byte) []byte {
	if !bytes.Contains(b, []byte(`\b`)) && !bytes.Contains(b, []byte(`\f`)) {
		return b
	}
	out := make([]byte, 0, len(b)+16)
	inStr := false
	for i := 0; i < len(b); i++ {
		c := b[i]
		if !inStr {
			if c == '"' {
				inStr = true
			}
			out = append(out, c)
			continue
		}
		if c == '\\' && i+1 < len(b) {
			switch b[i+1] {
			case 'b':
				out = append(out, `\u0008`...)
			case 'f':
				out = append(out, `\u000c`...)
			default:
				out = append(out, c, b[i+1])
			}
			i++
			continue
		}
		if c == '"' {
			inStr = false
		}
		out = append(out, c)
	}
	return out
}

// c17eqObj: strict structural equality of two uGO values (floats by bits).
func c17eqObj(a, b ugo.Object) bool {
	switch x := a.(type) {
	case *ugo.UndefinedType:
		_, ok := b.(*ugo.UndefinedType)
		return ok
	case ugo.Bool:
		y, ok := b.(ugo.Bool)
		return ok && x == y
	case ugo.Float:
		y, ok := b.(ugo.Float)
		return ok && math.Float64bits(float64(x)) == math.Float64bits(float64(y))
	case ugo.Int:
		y, ok := b.(ugo.Int)
		return ok && x == y
	case ugo.Uint:
		y, ok := b.(ugo.Uint)
		return ok && x == y
	case ugo.Char:
		y, ok := b.(ugo.Char)
		return ok && x == y
	case ugo.String:
		y, ok := b.(ugo.String)
		return ok && x == y
	case ugo.Bytes:
		y, ok := b.(ugo.Bytes)
		return ok && bytes.Equal(x, y)
	case ugo.Array:
		y, ok := b.(ugo.Array)
		if !ok || len(x) != len(y) {
			return false
		}
		for i := range x {
			if !c17eqObj(x[i], y[i]) {
				return false
			}
		}
		return true
	case ugo.Map:
		y, ok := b.(ugo.Map)
		if !ok || len(x) != len(y) {
			return false
		}
		for k, v := range x {
			w, ok := y[k]
			if !ok || !c17eqObj(v, w) {
				return false
			}
		}
		return true
	case *ugo.Error:
		y, ok := b.(*ugo.Error)
		return ok && x.Name == y.Name && x.Message == y.Message
	}
	return false
}

// c17eqRef compares a uGO value with an encoding/json `any` value; returns "" or the kind of difference.
func c17eqRef(u ugo.Object, r any) string {
	switch y := r.(type) {
	case nil:
		if _, ok := u.(*ugo.UndefinedType); !ok {
			return "type"
		}
	case bool:
		x, ok := u.(ugo.Bool)
		if !ok {
			return "type"
		}
		if bool(x) != y {
			return "bool"
		}
	case float64:
		x, ok := u.(ugo.Float)
		if !ok {
			return "type"
		}
		if math.Float64bits(float64(x)) != math.Float64bits(y) {
			return "number"
		}
	case string:
		x, ok := u.(ugo.String)
		if !ok {
			return "type"
		}
		if string(x) != y {
			return "string"
		}
	case []any:
		x, ok := u.(ugo.Array)
		if !ok {
			return "type"
		}
		if len(x) != len(y) {
			return "array-length"
		}
		for i := range x {
			if d := c17eqRef(x[i], y[i]); d != "" {
				return d
			}
		}
	case map[string]any:
		x, ok := u.(ugo.Map)
		if !ok {
			return "type"
		}
		if len(x) != len(y) {
			return "keys"
		}
		keys := make([]string, 0, len(y))
		for k := range y {
			keys = append(keys, k)
		}
		sort.Strings(keys)
		for _, k := range keys {
			xv, ok := x[k]
			if !ok {
				return "keys"
			}
			if d := c17eqRef(xv, y[k]); d != "" {
				return d
			}
		}
	default:
		return "type"
	}
	return ""
}

// c17toGo converts a plain value; nilMask bit0: nil map->empty, bit1: nil array->empty, bit2: nil bytes->empty.
func c17toGo(v ugo.Object, nilMask int) any {
	switch o := v.(type) {
	case ugo.Map:
		if o == nil && nilMask&1 == 0 {
			return map[string]any(nil)
		}
		m := make(map[string]any, len(o))
		for k, x := range o {
			m[k] = c17toGo(x, nilMask)
		}
		return m
	case ugo.Array:
		if o == nil && nilMask&2 == 0 {
			return []any(nil)
		}
		a := make([]any, len(o))
		for i, x := range o {
			a[i] = c17toGo(x, nilMask)
		}
		return a
	case ugo.Bytes:
		if o == nil && nilMask&4 == 0 {
			return []byte(nil)
		}
		if o == nil {
			return []byte{}
		}
		return []byte(o)
	}
	return ugo.ToInterface(v)
}

type c17mres struct {
	out      []byte
	err      error
	panicMsg string
	panicTop string
}

func c17marshal(v ugo.Object) (r c17mres) {
	r.panicMsg, r.panicTop = c17guard(func() { r.out, r.err = ujson.Marshal(v) })
	return
}

func c17marshalIndent(v ugo.Object, p, i string) (r c17mres) {
	r.panicMsg, r.panicTop = c17guard(func() { r.out, r.err = ujson.MarshalIndent(v, p, i) })
	return
}

// c17objRes renders the result of a module function (Bytes | *Error | other) for route comparison.
func c17objKey(o ugo.Object, err error, depthSafe bool) string {
	if err != nil {
		return "goerr:" + err.Error()
	}
	switch x := o.(type) {
	case nil:
		return "<nil>"
	case ugo.Bytes:
		return "bytes:" + string(x)
	case *ugo.Error:
		return "error:" + x.Message
	case ugo.Bool:
		return "bool:" + strconv.FormatBool(bool(x))
	}
	return "T:" + fmt.Sprintf("%T", o)
}

// children of a container value, in deterministic order.
func c17children(v ugo.Object) []ugo.Object {
	switch o := v.(type) {
	case ugo.Array:
		return o
	case ugo.Map:
		keys := make([]string, 0, len(o))
		for k := range o {
			keys = append(keys, k)
		}
		sort.Strings(keys)
		out := make([]ugo.Object, 0, 2*len(o))
		for _, k := range keys {
			out = append(out, ugo.String(k), o[k])
		}
		return out
	case *ugo.SyncMap:
		if o == nil || o.Value == nil {
			return nil
		}
		return c17children(o.Value)
	case *ugo.ObjectPtr:
		if o == nil || o.Value == nil {
			return nil
		}
		return []ugo.Object{*o.Value}
	case *ujson.EncoderOptions:
		if o.Value != nil {
			return []ugo.Object{o.Value}
		}
	}
	return nil
}

// c17minimal descends to the smallest sub-value for which bad holds (value must be acyclic).
func c17minimal(v ugo.Object, bad func(ugo.Object) bool) ugo.Object {
	for steps := 0; steps < 20000; steps++ {
		found := false
		for _, ch := range c17children(v) {
			if bad(ch) {
				v = ch
				found = true
				break
			}
		}
		if !found {
			break
		}
	}
	// strings: find a single rune / byte that is enough
	if s, ok := v.(ugo.String); ok && len(s) > 1 {
		for i := 0; i < len(s); {
			_, sz := utf8.DecodeRuneInString(string(s[i:]))
			sub := ugo.String(s[i : i+sz])
			if bad(sub) {
				return sub
			}
			i += sz
		}
	}
	return v
}

func c17render(v ugo.Object) string {
	switch o := v.(type) {
	case ugo.String:
		return "string " + strconv.Quote(string(o))
	case ugo.Bytes:
		return fmt.Sprintf("bytes %x", []byte(o))
	case ugo.Float:
		return "float " + strconv.FormatFloat(float64(o), 'g', -1, 64) + " bits=" + strconv.FormatUint(math.Float64bits(float64(o)), 16)
	case ugo.Int, ugo.Uint, ugo.Char, ugo.Bool, *ugo.UndefinedType:
		return v.TypeName() + " " + v.String()
	case ugo.Array:
		return fmt.Sprintf("array(len %d)", len(o))
	case ugo.Map:
		return fmt.Sprintf("map(len %d)", len(o))
	}
	return fmt.Sprintf("%T", v)
}

func c17valueClass(v ugo.Object) string {
	t := fmt.Sprintf("%T", v)
	switch o := v.(type) {
	case ugo.String:
		s := string(o)
		switch {
		case s == "":
			return t + "|empty"
		case !utf8.ValidString(s):
			return t + "|invalid-utf8"
		case strings.ContainsAny(s, "<>&"):
			return t + "|html"
		case strings.ContainsAny(s, "\u2028\u2029"):
			return t + "|linesep"
		case strings.ContainsAny(s, "\"\\"):
			return t + "|quote-backslash"
		}
		for i := 0; i < len(s); i++ {
			if s[i] < 0x20 {
				return t + "|control"
			}
		}
		for i := 0; i < len(s); i++ {
			if s[i] >= 0x7f {
				return t + "|non-ascii"
			}
		}
		return t + "|ascii"
	case ugo.Float:
		f := math.Abs(float64(o))
		switch {
		case math.IsNaN(f) || math.IsInf(f, 0):
			return t + "|nan-inf"
		case f == 0:
			return t + "|zero"
		case f < 1e-6:
			return t + "|exp-small"
		case f >= 1e21:
			return t + "|exp-large"
		}
		return t + "|fixed-range"
	case ugo.Bytes:
		n := (len(o) + 2) / 3 * 4
		switch {
		case n <= 64:
			return t + "|short"
		case n <= 1024:
			return t + "|medium"
		}
		return t + "|long"
	case ugo.Array:
		if o == nil {
			return t + "|nil"
		}
		if len(o) == 0 {
			return t + "|empty"
		}
	case ugo.Map:
		if o == nil {
			return t + "|nil"
		}
		if len(o) == 0 {
			return t + "|empty"
		}
	}
	return t
}

// ---------------------------------------------------------------------------
// value evaluation

type c17check struct {
	env  *c17env
	bcV  *ugo.Bytecode
	bcO  *ugo.Bytecode
	bcD  *ugo.Bytecode
	bcD2 *ugo.Bytecode // without Indent (quadratic in nesting depth)
	cnt  map[string]int64
}

func (k *c17check) count(s string) { k.cnt[s]++ }

const c17srcV = `param (v, p, i)
json := import("json")
m := json.Marshal(v)
return [m, json.MarshalIndent(v, p, i), isError(m) ? undefined : json.Unmarshal(m)]`

const c17srcO = `param (a, b, c, d)
json := import("json")
return [json.Marshal(json.Quote(a)), json.Marshal(json.NoQuote(b)), json.Marshal(json.NoEscape(c)), json.Marshal(json.NoEscape(json.Quote(d)))]`

const c17srcD2 = `param (d, p, i)
json := import("json")
return [json.Valid(d), json.Unmarshal(d), json.Compact(d, false), json.Compact(d, true), undefined, json.Marshal(json.RawMessage(d))]`

const c17srcD = `param (d, p, i)
json := import("json")
return [json.Valid(d), json.Unmarshal(d), json.Compact(d, false), json.Compact(d, true), json.Indent(d, p, i), json.Marshal(json.RawMessage(d))]`

func c17compile(src string) (*ugo.Bytecode, error) {
	mm := ugo.NewModuleMap().AddBuiltinModule("json", ujson.Module)
	return ugo.Compile([]byte(src), ugo.CompilerOptions{ModuleMap: mm})
}

func newC17check() (*c17check, error) {
	env, err := c17newEnv()
	if err != nil {
		return nil, err
	}
	k := &c17check{env: env, cnt: map[string]int64{}}
	if k.bcV, err = c17compile(c17srcV); err != nil {
		return nil, err
	}
	if k.bcO, err = c17compile(c17srcO); err != nil {
		return nil, err
	}
	if k.bcD, err = c17compile(c17srcD); err != nil {
		return nil, err
	}
	if k.bcD2, err = c17compile(c17srcD2); err != nil {
		return nil, err
	}
	return k, nil
}

func c17runScript(bc *ugo.Bytecode, args ...ugo.Object) (ret ugo.Object, err error, pmsg, ptop string) {
	pmsg, ptop = c17guard(func() { ret, err = ugo.NewVM(bc).Run(nil, args...) })
	return
}

func c17panicFinding(entry string, msg, top string) c17finding {
	return c17finding{
		fp:    "C17|panic|" + entry + "|" + top + "|" + core.NormMsg(msg),
		what:  entry + " panics: " + core.NormMsg(msg) + " in " + top,
		check: "no-panic", got: "panic: " + msg, want: "value or error",
	}
}

// refMarshal: encoding/json on the corresponding Go value (normalised for \b \f).
func c17refMarshal(v ugo.Object, useToInterface bool, nilMask int, indent bool, p, i string) ([]byte, error) {
	var x any
	if useToInterface {
		x = ugo.ToInterface(v)
	} else {
		x = c17toGo(v, nilMask)
	}
	var b []byte
	var err error
	if indent {
		b, err = stdjson.MarshalIndent(x, p, i)
	} else {
		b, err = stdjson.Marshal(x)
	}
	if err != nil {
		return nil, err
	}
	return c17normBF(b), nil
}

// plainDiff reports whether ugo Marshal of a plain acyclic value differs from the reference ("" = same).
func c17plainDiff(v ugo.Object, hasNil bool) (kind, got, want string) {
	res := c17marshal(v)
	if res.panicMsg != "" {
		return "", "", ""
	}
	masks := []int{-1}
	if hasNil {
		masks = []int{0, 1, 2, 3, 4, 5, 6, 7}
	}
	for _, m := range masks {
		ref, rerr := c17refMarshal(v, m < 0, m, false, "", "")
		if (rerr != nil) != (res.err != nil) {
			if res.err != nil {
				kind, got, want = "ugo-err-ref-ok", "error: "+res.err.Error(), c17clip(ref)
			} else {
				kind, got, want = "ugo-ok-ref-err", c17clip(res.out), "error: "+rerr.Error()
			}
			continue
		}
		if rerr != nil {
			return "", "", ""
		}
		if bytes.Equal(c17normBF(res.out), ref) {
			return "", "", ""
		}
		kind, got, want = "bytes", c17clip(res.out), c17clip(ref)
	}
	return
}

func c17containsNil(v ugo.Object) bool {
	switch o := v.(type) {
	case ugo.Map:
		if o == nil {
			return true
		}
		for _, x := range o {
			if c17containsNil(x) {
				return true
			}
		}
	case ugo.Array:
		if o == nil {
			return true
		}
		for _, x := range o {
			if c17containsNil(x) {
				return true
			}
		}
	case ugo.Bytes:
		return o == nil
	}
	return false
}

// evalValue applies all value-side rules to one spec.
func (k *c17check) evalValue(sp *c17spec, prefix, indent string, routes bool) (fs []c17finding) {
	in := c17specInfo(sp)
	v := k.env.build(sp)
	k.count("values")
	for kd, n := range in.kinds {
		k.cnt["kind:"+kd] += int64(n)
	}
	switch {
	case in.cyc:
		k.count("cyclic_values")
	case in.plain:
		k.count("values_plain")
	}
	if in.rt {
		k.count("values_roundtrippable")
	}
	if in.exotic && !in.unsup {
		k.count("values_exotic")
	}
	if in.unsup {
		k.count("values_with_unsupported_type")
		k.count("values_everything")
	}
	if in.depth >= 999 {
		k.count("deep_values")
	}
	if in.hasOpts {
		k.count("opts_values")
	}
	if in.rawBad {
		k.count("raw_values_invalid")
	}
	if in.rawGood {
		k.count("raw_values_valid")
	}
	if in.nanInf {
		k.count("values_with_nan_inf")
	}
	if in.hasNil {
		k.count("values_with_nil_container")
	}

	res := c17marshal(v)
	if res.panicMsg != "" {
		return append(fs, c17panicFinding("Marshal", res.panicMsg, res.panicTop))
	}
	okValid := false
	if res.err != nil {
		k.count("marshal_error_returned")
		if in.cyc {
			k.count("cyclic_error_returned")
		}
	} else {
		okValid = stdjson.Valid(res.out)
		if okValid {
			k.count("marshal_output_valid")
		} else {
			// rule 1
			k.count("marshal_output_invalid")
			isBad := func(x ugo.Object) bool {
				r := c17marshal(x)
				return r.panicMsg == "" && r.err == nil && !stdjson.Valid(r.out)
			}
			min := v
			if !in.cyc {
				min = c17minimal(v, isBad)
			}
			mr := c17marshal(min)
			cls := "nonempty-output|" + c17valueClass(min)
			if len(mr.out) == 0 {
				cls = "empty-output"
				k.count("marshal_empty_output:" + fmt.Sprintf("%T", min))
			}
			fs = append(fs, c17finding{
				fp:    "C17|marshal-invalid|" + cls,
				what:  c17invalidWhat(min, mr.out),
				check: "rule1-marshal-valid-or-error", got: c17clip(res.out), want: "an error or valid JSON",
				min: fmt.Sprintf("Marshal(%s) = %s, err=nil", c17render(min), c17clip(mr.out)),
			})
		}
	}

	// MarshalIndent: rule 1 + rule 6 for every value
	mi := c17marshalIndent(v, prefix, indent)
	if mi.panicMsg != "" {
		fs = append(fs, c17panicFinding("MarshalIndent", mi.panicMsg, mi.panicTop))
	} else if mi.err == nil {
		// prefix/indent made of JSON whitespace keep the output valid JSON; other strings do not (same in encoding/json)
		if strings.Trim(prefix+indent, " \t\r\n") == "" && !stdjson.Valid(mi.out) {
			fs = append(fs, c17finding{fp: "C17|marshalindent-invalid", what: "MarshalIndent returns nil error and malformed JSON",
				check: "rule1-marshalindent-valid-or-error", got: c17clip(mi.out), want: "an error or valid JSON"})
		}
	}

	// rule 2: plain values, differential
	if in.plain && !in.cyc {
		kind, got, want := c17plainDiff(v, in.hasNil)
		if kind == "" {
			if res.err != nil {
				k.count("marshal_ref_both_error")
			} else {
				k.count("marshal_ref_equal")
			}
		} else {
			bad := func(x ugo.Object) bool {
				kd, _, _ := c17plainDiff(x, in.hasNil && c17containsNil(x))
				return kd != ""
			}
			min := c17minimal(v, bad)
			mk, mg, mw := c17plainDiff(min, in.hasNil && c17containsNil(min))
			if mk == "" {
				mk, mg, mw = kind, got, want
			}
			fs = append(fs, c17finding{
				fp:    "C17|marshal-diff|" + mk + "|" + c17valueClass(min),
				what:  "Marshal of a plain value differs from encoding/json.Marshal(ugo.ToInterface(v)) (" + mk + ") at " + c17render(min),
				check: "rule2-marshal-equals-reference", got: got, want: want,
				min: fmt.Sprintf("%s: ugo %s, encoding/json %s", c17render(min), mg, mw),
			})
		}
		// MarshalIndent vs reference (rule 5)
		if mi.panicMsg == "" && !in.hasNil {
			ref, rerr := c17refMarshal(v, true, 0, true, prefix, indent)
			switch {
			case (rerr != nil) != (mi.err != nil):
				fs = append(fs, c17finding{fp: "C17|marshalindent-diff|accept", what: "MarshalIndent and encoding/json.MarshalIndent disagree on error",
					check: "rule5-marshalindent", got: fmt.Sprint(mi.err), want: fmt.Sprint(rerr)})
			case rerr == nil && !bytes.Equal(c17normBF(mi.out), ref):
				fs = append(fs, c17finding{fp: "C17|marshalindent-diff|bytes", what: "MarshalIndent output differs from encoding/json.MarshalIndent",
					check: "rule5-marshalindent", got: c17clip(mi.out), want: c17clip(ref)})
			default:
				k.count("marshalindent_ref_equal")
			}
		}
	}

	// rule 4: round trip
	if in.rt && res.err == nil && okValid {
		var u ugo.Object
		var uerr error
		pm, pt := c17guard(func() { u, uerr = ujson.Unmarshal(res.out) })
		switch {
		case pm != "":
			fs = append(fs, c17panicFinding("Unmarshal", pm, pt))
		case uerr != nil:
			fs = append(fs, c17finding{fp: "C17|roundtrip|unmarshal-error", what: "Unmarshal rejects the output of Marshal for a JSON-representable value: " + uerr.Error(),
				check: "rule4-roundtrip", got: "error: " + uerr.Error(), want: "the original value", min: c17clip(res.out)})
		case !c17eqObj(u, v):
			bad := func(x ugo.Object) bool {
				r := c17marshal(x)
				if r.panicMsg != "" || r.err != nil {
					return false
				}
				y, e := ujson.Unmarshal(r.out)
				return e == nil && !c17eqObj(y, x)
			}
			min := c17minimal(v, bad)
			r2 := c17marshal(min)
			y, _ := ujson.Unmarshal(r2.out)
			fs = append(fs, c17finding{fp: "C17|roundtrip|value|" + c17valueClass(min), what: "Unmarshal(Marshal(v)) != v at " + c17render(min),
				check: "rule4-roundtrip", got: c17render(y), want: c17render(min), min: c17render(min) + " -> " + c17clip(r2.out) + " -> " + c17render(y)})
		default:
			k.count("roundtrip_equal")
		}
	}

	// every valid output is a document for rule 3 as well
	if res.err == nil && okValid {
		fs = append(fs, k.evalUnmarshal(res.out, "marshal-output")...)
	}

	// exotic observations (counted, not judged)
	if sp.K == "raw" && res.panicMsg == "" {
		ref, rerr := stdjson.Marshal(stdjson.RawMessage(c17unhex(sp.S)))
		if (rerr != nil) == (res.err != nil) && (rerr != nil || bytes.Equal(ref, res.out)) {
			k.count("obs_raw_matches_json.RawMessage")
		} else {
			k.count("obs_raw_differs_from_json.RawMessage")
		}
	}
	if sp.K == "opts" && !sp.Q && !sp.H && res.err == nil {
		if si := c17specInfo(sp.E[0]); si.plain && !si.hasNil && !si.cyc {
			var buf bytes.Buffer
			enc := stdjson.NewEncoder(&buf)
			enc.SetEscapeHTML(false)
			if enc.Encode(ugo.ToInterface(k.env.build(sp.E[0]))) == nil &&
				bytes.Equal(c17normBF(bytes.TrimSuffix(buf.Bytes(), []byte("\n"))), c17normBF(res.out)) {
				k.count("obs_noescape_matches_SetEscapeHTML(false)")
			} else {
				k.count("obs_noescape_differs_from_SetEscapeHTML(false)")
			}
		}
	}

	if !routes {
		return fs
	}
	// ---- routes: Function.Value, Function.ValueEx, script
	want := c17objKey(ugo.Bytes(res.out), nil, true)
	if res.err != nil {
		want = "error:" + res.err.Error()
	}
	wantMI := c17objKey(ugo.Bytes(mi.out), nil, true)
	if mi.err != nil {
		wantMI = "error:" + mi.err.Error()
	}
	routeCheck := func(route, fn string, got ugo.Object, err error, pm, pt, want string) {
		if pm != "" {
			fs = append(fs, c17panicFinding(fn+"/"+route, pm, pt))
			return
		}
		if g := c17objKey(got, err, true); g != want {
			fs = append(fs, c17finding{fp: "C17|route|" + fn + "|" + route, what: fn + " via " + route + " differs from the Go API result",
				check: "route-agreement", got: c17clipS(g), want: c17clipS(want)})
		}
	}
	{
		var o ugo.Object
		var err error
		pm, pt := c17guard(func() { o, err = k.env.fn["Marshal"].Value(v) })
		routeCheck("Value", "Marshal", o, err, pm, pt, want)
		pm, pt = c17guard(func() { o, err = k.env.fn["Marshal"].ValueEx(ugo.NewCall(nil, []ugo.Object{v})) })
		routeCheck("ValueEx", "Marshal", o, err, pm, pt, want)
		pm, pt = c17guard(func() {
			o, err = k.env.fn["MarshalIndent"].ValueEx(ugo.NewCall(nil, []ugo.Object{v, ugo.String(prefix), ugo.String(indent)}))
		})
		routeCheck("ValueEx", "MarshalIndent", o, err, pm, pt, wantMI)
		pm, pt = c17guard(func() { o, err = k.env.fn["MarshalIndent"].Value(v, ugo.String(prefix), ugo.String(indent)) })
		routeCheck("Value", "MarshalIndent", o, err, pm, pt, wantMI)
		k.count("route_valueex_values")
	}
	if !in.hasPtr {
		ret, err, pm, pt := c17runScript(k.bcV, v, ugo.String(prefix), ugo.String(indent))
		k.count("route_script_values")
		switch {
		case pm != "":
			fs = append(fs, c17panicFinding("Marshal/script", pm, pt))
		case err != nil:
			fs = append(fs, c17finding{fp: "C17|route|script-error|values|" + c17normErr(err), what: "script json.Marshal/MarshalIndent/Unmarshal raised: " + c17clipS(err.Error()),
				check: "route-agreement", got: c17clipS(err.Error()), want: "array of results"})
		default:
			arr, ok := ret.(ugo.Array)
			if !ok || len(arr) != 3 {
				fs = append(fs, c17finding{fp: "C17|route|script-shape", what: "value script returned " + fmt.Sprintf("%T", ret), check: "route-agreement"})
				break
			}
			routeCheck("script", "Marshal", arr[0], nil, "", "", want)
			routeCheck("script", "MarshalIndent", arr[1], nil, "", "", wantMI)
			if in.rt && res.err == nil && okValid && !c17eqObj(arr[2], v) {
				fs = append(fs, c17finding{fp: "C17|roundtrip|script", what: "script json.Unmarshal(json.Marshal(v)) != v", check: "rule4-roundtrip", got: c17render(arr[2]), want: c17render(v)})
			}
		}
	}
	return fs
}

func c17clipS(s string) string {
	if len(s) > 400 {
		return s[:400] + "...(" + strconv.Itoa(len(s)) + " bytes)"
	}
	return s
}

// evalOptions: json.Quote/NoQuote/NoEscape called from a script must equal the directly built wrappers.
func (k *c17check) evalOptions(sp *c17spec) (fs []c17finding) {
	if sp.K == "opts" {
		return nil // module functions would mutate the wrapper in place
	}
	k.count("route_script_options")
	mk := func() ugo.Object { return k.env.build(sp) }
	ret, err, pm, pt := c17runScript(k.bcO, mk(), mk(), mk(), mk())
	if pm != "" {
		return append(fs, c17panicFinding("Marshal(options)/script", pm, pt))
	}
	if err != nil {
		return append(fs, c17finding{fp: "C17|route|script-error|options|" + c17normErr(err), what: "options script raised: " + c17clipS(err.Error()), check: "route-agreement", got: c17clipS(err.Error())})
	}
	arr, ok := ret.(ugo.Array)
	if !ok || len(arr) != 4 {
		return append(fs, c17finding{fp: "C17|route|script-shape", what: "options script returned " + fmt.Sprintf("%T", ret), check: "route-agreement"})
	}
	cfg := []struct {
		name string
		q, h bool
	}{{"Quote", true, true}, {"NoQuote", false, true}, {"NoEscape", false, false}, {"NoEscape(Quote)", true, false}}
	for i, c := range cfg {
		d := c17marshal(&ujson.EncoderOptions{Value: mk(), Quote: c.q, EscapeHTML: c.h})
		if d.panicMsg != "" {
			fs = append(fs, c17panicFinding("Marshal(options)", d.panicMsg, d.panicTop))
			continue
		}
		want := "bytes:" + string(d.out)
		if d.err != nil {
			want = "error:" + d.err.Error()
		} else if !stdjson.Valid(d.out) {
			k.count("options_output_invalid")
			if in := c17specInfo(sp); !in.unsup {
				fs = append(fs, c17finding{fp: "C17|marshal-invalid|options|" + c.name, what: "Marshal(" + c.name + "(v)) returns nil error and malformed JSON",
					check: "rule1-marshal-valid-or-error", got: c17clip(d.out), want: "an error or valid JSON"})
			}
		} else {
			k.count("options_output_valid:" + c.name)
		}
		if g := c17objKey(arr[i], nil, true); g != want {
			fs = append(fs, c17finding{fp: "C17|route|options|" + c.name, what: "script json." + c.name + " differs from the EncoderOptions struct", check: "route-agreement", got: c17clipS(g), want: c17clipS(want)})
		}
	}
	return fs
}

// ---------------------------------------------------------------------------
// document evaluation

// evalUnmarshal: rule 3 + rule 6 for the Go API.
func (k *c17check) evalUnmarshal(d []byte, origin string) (fs []c17finding) {
	var rv any
	rerr := stdjson.Unmarshal(d, &rv)
	var uv ugo.Object
	var uerr error
	pm, pt := c17guard(func() { uv, uerr = ujson.Unmarshal(d) })
	if pm != "" {
		return append(fs, c17panicFinding("Unmarshal", pm, pt))
	}
	if uv == nil {
		fs = append(fs, c17finding{fp: "C17|unmarshal-nil-object", what: "Unmarshal returned a nil Object", check: "rule3-unmarshal"})
	}
	switch {
	case rerr == nil && uerr != nil:
		fs = append(fs, c17finding{fp: "C17|unmarshal-accept|ugo-err-ref-ok|" + c17normErr(uerr), what: "Unmarshal rejects a document encoding/json accepts: " + uerr.Error(),
			check: "rule3-unmarshal-accept", got: "error: " + uerr.Error(), want: "accepted"})
	case rerr != nil && uerr == nil:
		fs = append(fs, c17finding{fp: "C17|unmarshal-accept|ugo-ok-ref-err|" + c17normErr(rerr), what: "Unmarshal accepts a document encoding/json rejects: " + rerr.Error(),
			check: "rule3-unmarshal-accept", got: "accepted: " + c17render(uv), want: "error: " + rerr.Error()})
	case rerr != nil:
		if origin == "doc" {
			k.count("unmarshal_both_error")
			if stdjson.Valid(d) {
				k.count("unmarshal_ref_ok_number_range_error")
			}
		}
	default:
		if diff := c17eqRef(uv, rv); diff != "" {
			fs = append(fs, c17finding{fp: "C17|unmarshal-value|" + diff, what: "Unmarshal returns a different value than encoding/json (" + diff + ")",
				check: "rule3-unmarshal-value", got: c17render(uv), want: fmt.Sprintf("%.200v", rv)})
		} else if origin == "doc" {
			k.count("unmarshal_both_ok_equal")
		} else {
			k.count("unmarshal_of_marshal_output_equal")
		}
	}
	return fs
}

func c17refCompact(d []byte, escape bool) ([]byte, error) {
	var buf bytes.Buffer
	if err := stdjson.Compact(&buf, d); err != nil {
		return nil, err
	}
	if !escape {
		return buf.Bytes(), nil
	}
	var b2 bytes.Buffer
	stdjson.HTMLEscape(&b2, buf.Bytes())
	return b2.Bytes(), nil
}

// evalDoc applies all document-side rules.
func (k *c17check) evalDoc(d []byte, prefix, indent string, asString, skipIndent bool) (fs []c17finding) {
	k.count("docs")
	refValid := stdjson.Valid(d)
	if refValid {
		k.count("docs_ref_valid")
	} else {
		k.count("docs_ref_invalid")
	}
	fs = append(fs, k.evalUnmarshal(d, "doc")...)

	var arg ugo.Object = ugo.Bytes(d)
	if asString {
		arg = ugo.String(d)
		k.count("docs_passed_as_string")
	}
	P, I := ugo.String(prefix), ugo.String(indent)

	type want struct {
		out []byte
		err error
		b   *bool
	}
	refKey := func(w want) string {
		if w.b != nil {
			return "bool:" + strconv.FormatBool(*w.b)
		}
		if w.err != nil {
			return "error"
		}
		return "bytes:" + string(w.out)
	}
	gotKey := func(o ugo.Object, err error) string {
		if err != nil {
			return "goerr:" + err.Error()
		}
		switch x := o.(type) {
		case ugo.Bytes:
			return "bytes:" + string(x)
		case *ugo.Error:
			return "error"
		case ugo.Bool:
			return "bool:" + strconv.FormatBool(bool(x))
		}
		return fmt.Sprintf("T:%T", o)
	}

	var wIndent want
	if !skipIndent {
		var buf bytes.Buffer
		err := stdjson.Indent(&buf, d, prefix, indent)
		wIndent = want{out: buf.Bytes(), err: err}
	}
	c0, e0 := c17refCompact(d, false)
	c1, e1 := c17refCompact(d, true)
	rawRef, rawErr := stdjson.Marshal(stdjson.RawMessage(d))
	if d == nil || len(d) == 0 {
		// json.RawMessage(nil) marshals as null; uGO's RawMessage with empty non-nil Value is checked for validity only
		rawRef, rawErr = nil, nil
	}
	ops := []struct {
		name  string
		ok    string
		args  []ugo.Object
		w     want
		judge bool
	}{
		{"Valid", "valid_agree", []ugo.Object{arg}, want{b: &refValid}, true},
		{"Compact", "compact_agree", []ugo.Object{arg, ugo.False}, want{out: c0, err: e0}, true},
		{"Compact(escape)", "compact_escape_agree", []ugo.Object{arg, ugo.True}, want{out: c1, err: e1}, true},
		{"Indent", "indent_agree", []ugo.Object{arg, P, I}, wIndent, true},
	}
	direct := make([]string, len(ops))
	for i, op := range ops {
		if skipIndent && op.name == "Indent" {
			direct[i] = "panic" // not evaluated
			continue
		}
		fn := k.env.fn[strings.TrimSuffix(op.name, "(escape)")]
		var o ugo.Object
		var err error
		pm, pt := c17guard(func() { o, err = fn.Value(op.args...) })
		if pm != "" {
			fs = append(fs, c17panicFinding(op.name, pm, pt))
			direct[i] = "panic"
			continue
		}
		g := gotKey(o, err)
		direct[i] = c17objKey(o, err, true)
		if w := refKey(op.w); g != w {
			dir := "output-differs"
			switch {
			case w == "error":
				dir = "ugo-ok-ref-err|" + c17normErr(op.w.err)
			case g == "error":
				dir = "ugo-err-ref-ok|" + core.NormMsg(c17sq.ReplaceAllString(o.(*ugo.Error).Message, "C"))
			case op.w.b != nil:
				dir = "ugo-" + strings.TrimPrefix(g, "bool:") + "-ref-" + strings.TrimPrefix(w, "bool:")
			}
			fs = append(fs, c17finding{fp: "C17|" + strings.ToLower(op.name) + "|" + dir, what: "json." + op.name + " disagrees with encoding/json (" + dir + ")",
				check: "rule5-" + strings.ToLower(op.name), got: c17clipS(g), want: c17clipS(w)})
		} else {
			k.count(op.ok)
		}
		// ValueEx route
		pm, pt = c17guard(func() { o, err = fn.ValueEx(ugo.NewCall(nil, op.args)) })
		if pm != "" {
			fs = append(fs, c17panicFinding(op.name+"/ValueEx", pm, pt))
		} else if g2 := c17objKey(o, err, true); g2 != direct[i] {
			fs = append(fs, c17finding{fp: "C17|route|" + op.name + "|ValueEx", what: op.name + " via ValueEx differs from Value", check: "route-agreement", got: c17clipS(g2), want: c17clipS(direct[i])})
		}
	}
	k.count("route_valueex_docs")

	// Unmarshal via Value / ValueEx, and Marshal(RawMessage(d)) (rule 1)
	var uDirect ugo.Object
	var uDirectErr error
	pmU, _ := c17guard(func() { uDirect, uDirectErr = ujson.Unmarshal(d) })
	uOK := pmU == "" && uDirectErr == nil
	sameU := func(o ugo.Object, err error) bool {
		if err != nil {
			return false
		}
		if e, isErr := o.(*ugo.Error); isErr {
			return !uOK && uDirectErr != nil && e.Message == uDirectErr.Error()
		}
		return uOK && c17eqObj(o, uDirect)
	}
	if pmU == "" {
		var o ugo.Object
		var err error
		pm, pt := c17guard(func() { o, err = k.env.fn["Unmarshal"].Value(arg) })
		if pm != "" {
			fs = append(fs, c17panicFinding("Unmarshal/Value", pm, pt))
		} else if !sameU(o, err) {
			fs = append(fs, c17finding{fp: "C17|route|Unmarshal|Value", what: "Unmarshal via Function.Value differs from the Go API", check: "route-agreement", got: c17render(o)})
		}
		pm, pt = c17guard(func() { o, err = k.env.fn["Unmarshal"].ValueEx(ugo.NewCall(nil, []ugo.Object{arg})) })
		if pm != "" {
			fs = append(fs, c17panicFinding("Unmarshal/ValueEx", pm, pt))
		} else if !sameU(o, err) {
			fs = append(fs, c17finding{fp: "C17|route|Unmarshal|ValueEx", what: "Unmarshal via Function.ValueEx differs from the Go API", check: "route-agreement", got: c17render(o)})
		}
	}
	var rawDirect string
	{
		var rm ugo.Object
		var err error
		pm, pt := c17guard(func() { rm, err = k.env.fn["RawMessage"].Value(arg) })
		if pm != "" || err != nil {
			if pm != "" {
				fs = append(fs, c17panicFinding("RawMessage", pm, pt))
			} else {
				fs = append(fs, c17finding{fp: "C17|rawmessage-error", what: "json.RawMessage(bytes) raised " + err.Error(), check: "route-agreement"})
			}
			rawDirect = "panic"
		} else {
			mr := c17marshal(rm)
			switch {
			case mr.panicMsg != "":
				fs = append(fs, c17panicFinding("Marshal(RawMessage)", mr.panicMsg, mr.panicTop))
				rawDirect = "panic"
			case mr.err != nil:
				rawDirect = "error:" + mr.err.Error()
				k.count("raw_doc_marshal_error")
			default:
				rawDirect = "bytes:" + string(mr.out)
				if !stdjson.Valid(mr.out) {
					fs = append(fs, c17finding{fp: "C17|marshal-invalid|rawMessage", what: "Marshal(RawMessage(d)) returns nil error and malformed JSON",
						check: "rule1-marshal-valid-or-error", got: c17clip(mr.out), want: "an error or valid JSON"})
				} else {
					k.count("raw_doc_marshal_valid")
				}
			}
			if rawDirect != "panic" && len(d) > 0 {
				if (rawErr != nil) == (mr.err != nil) && (rawErr != nil || bytes.Equal(rawRef, mr.out)) {
					k.count("obs_raw_matches_json.RawMessage")
				} else {
					k.count("obs_raw_differs_from_json.RawMessage")
				}
			}
		}
	}

	// script route
	bcD := k.bcD
	if skipIndent {
		bcD = k.bcD2
	}
	ret, err, pm, pt := c17runScript(bcD, arg, P, I)
	k.count("route_script_docs")
	switch {
	case pm != "":
		fs = append(fs, c17panicFinding("doc-script", pm, pt))
	case err != nil:
		fs = append(fs, c17finding{fp: "C17|route|script-error|docs|" + c17normErr(err), what: "document script raised: " + c17clipS(err.Error()), check: "route-agreement", got: c17clipS(err.Error())})
	default:
		arr, ok := ret.(ugo.Array)
		if !ok || len(arr) != 6 {
			fs = append(fs, c17finding{fp: "C17|route|script-shape", what: "document script returned " + fmt.Sprintf("%T", ret), check: "route-agreement"})
			break
		}
		idx := []int{0, 2, 3, 4}
		for i, op := range ops {
			if direct[i] == "panic" {
				continue
			}
			if g := c17objKey(arr[idx[i]], nil, true); g != direct[i] {
				fs = append(fs, c17finding{fp: "C17|route|" + op.name + "|script", what: op.name + " via script differs from Function.Value", check: "route-agreement", got: c17clipS(g), want: c17clipS(direct[i])})
			}
		}
		if pmU == "" && !sameU(arr[1], nil) {
			fs = append(fs, c17finding{fp: "C17|route|Unmarshal|script", what: "Unmarshal via script differs from the Go API", check: "route-agreement", got: c17render(arr[1])})
		}
		if rawDirect != "panic" {
			if g := c17objKey(arr[5], nil, true); g != rawDirect {
				fs = append(fs, c17finding{fp: "C17|route|Marshal(RawMessage)|script", what: "Marshal(RawMessage(d)) via script differs from the Go route", check: "route-agreement", got: c17clipS(g), want: c17clipS(rawDirect)})
			}
		}
	}
	return fs
}

// c17shrinkDoc: deterministic ddmin keeping a finding with fingerprint fp.
func (k *c17check) shrinkDoc(d []byte, prefix, indent string, asString bool, fp string) []byte {
	saved := k.cnt
	k.cnt = map[string]int64{}
	defer func() { k.cnt = saved }()
	// Indent is quadratic in nesting depth: evaluate it during shrinking only when it is the failing check,
	// and do not shrink large documents for it at all. Work is bounded by bytes evaluated.
	needIndent := strings.Contains(fp, "|indent|") || strings.Contains(fp, "|Indent|")
	if needIndent && len(d) > 4096 {
		return d
	}
	maxEvals := 6000000/(len(d)+1) + 30
	if maxEvals > 1500 {
		maxEvals = 1500
	}
	evals := 0
	has := func(x []byte) bool {
		evals++
		for _, f := range k.evalDoc(x, prefix, indent, asString, !needIndent) {
			if f.fp == fp {
				return true
			}
		}
		return false
	}
	cur := append([]byte(nil), d...)
	for chunk := len(cur) / 2; chunk >= 1 && evals < maxEvals; {
		removed := false
		for i := 0; i+chunk <= len(cur) && evals < maxEvals; {
			cand := append(append([]byte(nil), cur[:i]...), cur[i+chunk:]...)
			if has(cand) {
				cur = cand
				removed = true
			} else {
				i += chunk
			}
		}
		if !removed || chunk > len(cur) {
			chunk /= 2
		}
		if chunk > len(cur)/2 && chunk > 1 {
			chunk = len(cur) / 2
		}
	}
	return cur
}

func c17invalidWhat(min ugo.Object, out []byte) string {
	if len(out) == 0 {
		return "Marshal returns nil error and malformed JSON: a value of a type that has no JSON encoder is written as nothing (Marshal({a: func(){}, b: 1}) = {\"a\":,\"b\":1}; Marshal(error(\"x\")) = empty output)"
	}
	return fmt.Sprintf("Marshal returns nil error and malformed JSON: a %T (%s) inside the value is encoded as %s", min, min.TypeName(), c17clip(out))
}
