package props

import (
	"crypto/sha256"
	"encoding/hex"
	"encoding/json"
	"fmt"
	"os"
	"regexp"
	"strings"

	"github.com/ozanh/ugo"

	"verif/internal/core"
	"verif/internal/gen"
)

// C02 — compiled execution follows the documented source-level semantics.
type c02 struct{}

func init() { core.Register(c02{}) }

func (c02) ID() string    { return "C02" }
func (c02) Level() string { return "exploration" }
func (c02) Race() bool    { return false }
func (c02) Rule() string {
	return "seeded grammar-directed programs (profile 'composition': nested closures, captured-variable mutation, block slot re-use, loops capturing per-iteration variables, " +
		"shadowing, recursion in and out of tail position incl. discarded self-calls, every arity/variadic/spread combination (exhaustive matrix), destructuring, const/iota, compound assignment, " +
		"selectors/indexing/slices, ternaries, short-circuit, break/continue) plus a fixed probe list; each is run by the reference interpreter (internal/ref, written from docs/) and by the real " +
		"compiler+VM with the optimizer off and on; returned value, event log of L(id,value) calls (order of side effects), globals and error name must be equal. " +
		"non-trivial = reference executed >=1 script-function call and >=1 log event and the program has >=3 feature tags; distinct by source hash"
}
func (c02) Batches(tier string) int { return 32 }
func (c02) Required(string) []string {
	return []string{"compared", "probe_programs", "arity_matrix", "ref.call", "ref.funclit", "ref.for", "ref.forin", "ref.destructuring", "ref.const",
		"ref.compound-assign", "ref.index-assign", "ref.call-spread", "ref.call-variadic", "ref.break", "ref.continue", "tag.tail-recursion", "tag.self-call-discarded", "tag.assign-captured", "tag.shadow-outer", "tail_mix_programs"}
}
func (c02) Assumptions() []string {
	return []string{"internal/ref is a faithful reading of docs/tutorial.md, docs/error-handling.md, docs/destructuring.md (trusted base)",
		"the repository's parser produces the AST both sides start from", "value library (operators, builtins) is shared with the reference and judged by C15/C19"}
}

func progHash(p *Program) string {
	h := sha256.New()
	h.Write([]byte(p.Src))
	for _, k := range sortedStrKeys(p.Modules) {
		h.Write([]byte(k))
		h.Write([]byte(p.Modules[k]))
	}
	return hex.EncodeToString(h.Sum(nil)[:8])
}

func sortedStrKeys(m map[string]string) []string {
	ks := make([]string, 0, len(m))
	for k := range m {
		ks = append(ks, k)
	}
	for i := 1; i < len(ks); i++ {
		for j := i; j > 0 && ks[j] < ks[j-1]; j-- {
			ks[j], ks[j-1] = ks[j-1], ks[j]
		}
	}
	return ks
}

func fromGen(g *gen.Prog) *Program {
	return &Program{Src: g.Src, Modules: g.Modules, Builtin: g.Builtin, Tags: g.TagList()}
}

var c02probes = []string{
	// discarded self-call in tail position must not leak the callee's value
	"global L\nvar f\nf = func(n) {\n  if n == 0 {\n    return 5\n  }\n  f(n - 1)\n}\nreturn f(3)",
	"global L\nvar f\nf = func(n) {\n  L(n)\n  if n == 0 {\n    return 5\n  }\n  f(n - 1)\n}\nreturn [f(3), f(0)]",
	// self-call through an alias and through a map selector
	"global L\nvar f\nvar g\nf = func(n) {\n  if n == 0 {\n    return 7\n  }\n  g(n - 1)\n}\ng = f\nreturn f(2)",
	"global L\nm := {}\nm.f = func(n) {\n  if n == 0 {\n    return 7\n  }\n  return m.f(n - 1)\n}\nreturn m.f(3)",
	// tail call whose arguments read parameters that the re-used frame overwrites
	"global L\nvar f\nf = func(a, b) {\n  if a == 0 {\n    return [a, b]\n  }\n  return f(a - 1, a + b)\n}\nreturn f(4, 0)",
	// tail call with locals that must be reset to undefined
	"global L\nvar f\nf = func(n) {\n  var x\n  L(x)\n  x = n\n  if n == 0 {\n    return 0\n  }\n  return f(n - 1)\n}\nreturn f(2)",
	// closure capturing a parameter of a tail-recursive function
	"global L\nfs := []\nvar f\nf = func(n) {\n  fs = append(fs, func() { return n })\n  if n == 0 {\n    return 0\n  }\n  return f(n - 1)\n}\nf(2)\nr := []\nfor h in fs {\n  r = append(r, h())\n}\nreturn r",
	// tail call inside try: handlers must not leak into the next iteration
	"global L\nvar f\nf = func(n) {\n  try {\n    if n == 0 {\n      throw \"end\"\n    }\n  } catch e {\n    return e.Message\n  }\n  return f(n - 1)\n}\nreturn f(2)",
	// evaluation order from the tutorial
	"global L\na := 1\nf := func() {\n  a *= 10\n  return a\n}\ng := func() {\n  a++\n  return a\n}\nh := func() {\n  a += 2\n  return a\n}\nd := {}\nd[f()] = [g(), h()]\nreturn d",
	// loop variable capture (tutorial)
	"global L\nvar f\nfor i := 0; i < 3; i++ {\n  f = func() {\n    return i\n  }\n}\nreturn f()",
	"global L\nvar f\nfor i := 0; i < 3; i++ {\n  i := i\n  f = func() {\n    return i\n  }\n}\nreturn f()",
	// slot re-use after a block must not resurrect old values
	"global L\nif true {\n  a := 5\n  L(a)\n}\nvar b\nL(b)\nif true {\n  c := 6\n  d := 7\n  L(c + d)\n}\nvar e\nreturn [b, e]",
	// variable declared in a loop body is fresh each iteration
	"global L\nfs := []\nfor i := 0; i < 3; i++ {\n  var x\n  L(x)\n  x = i\n  fs = append(fs, func() { x++; return x })\n}\nr := []\nfor h in fs {\n  r = append(r, h(), h())\n}\nreturn r",
	// iota
	"global L\nconst (\n  a = 1 << iota\n  b\n  c\n)\nconst (\n  _ = iota\n  x = \"s\" + iota\n  y\n)\nreturn [a, b, c, x, y]",
	// compound assignment on captured variable, map field, array element, global
	"global L\nglobal G\nG = 1\nn := 1\nm := {k: 1}\narr := [1, 2]\nf := func() {\n  n += 2\n  m.k *= 5\n  arr[1] <<= 2\n  G -= 4\n}\nf()\nf()\nreturn [n, m, arr, G]",
	// destructuring targets
	"global L\nm := {}\nvar z\nm.y, z = [1, 2]\na, b, c := [1]\nvar (p, q)\np, q = 5\nreturn [m, z, a, b, c, p, q]",
	// short-circuit and ternary with side effects
	"global L\nt := func(v) { L(v); return v }\nreturn [t(false) && t(1), t(true) && t(2), t(false) || t(3), t(true) || t(4), t(true) ? t(5) : t(6)]",
	// break / continue in nested loops
	"global L\nout := []\nfor i := 0; i < 4; i++ {\n  if i == 1 {\n    continue\n  }\n  for j in [0, 1, 2, 3] {\n    if j > i {\n      break\n    }\n    if j == 1 {\n      continue\n    }\n    out = append(out, i * 10 + j)\n  }\n}\nreturn out",
	// mutual recursion
	"global L\nvar even\nvar odd\neven = func(n) {\n  if n == 0 {\n    return true\n  }\n  return odd(n - 1)\n}\nodd = func(n) {\n  if n == 0 {\n    return false\n  }\n  return even(n - 1)\n}\nreturn [even(10), odd(7)]",
	// shadowing at each scope kind
	"global L\nx := 1\nf := func(x) {\n  L(x)\n  if x := x + 1; x > 0 {\n    L(x)\n    for x := 10; x < 11; x++ {\n      L(x)\n      x := 20\n      L(x)\n    }\n  }\n  return x\n}\nreturn [f(5), x]",
}

// arityMatrix enumerates fixed params 0..3 x variadic x args 0..5 x spread.
func c02arityMatrix() []*Program {
	var ps []*Program
	for fixed := 0; fixed <= 3; fixed++ {
		for _, variadic := range []bool{false, true} {
			for nargs := 0; nargs <= 5; nargs++ {
				for spread := 0; spread <= nargs && spread <= 3; spread++ {
					var params []string
					var body []string
					for i := 0; i < fixed; i++ {
						params = append(params, fmt.Sprintf("a%d", i))
						body = append(body, fmt.Sprintf("a%d", i))
					}
					if variadic {
						params = append(params, "...rest")
						body = append(body, "rest")
					}
					var args []string
					for i := 0; i < nargs-spread; i++ {
						args = append(args, fmt.Sprintf("L(%d)", i+1))
					}
					if spread > 0 {
						var tail []string
						for i := nargs - spread; i < nargs; i++ {
							tail = append(tail, fmt.Sprintf("L(%d)", i+1))
						}
						args = append(args, "...["+strings.Join(tail, ", ")+"]")
					}
					src := "global L\nf := func(" + strings.Join(params, ", ") + ") {\n  return [" + strings.Join(body, ", ") + "]\n}\n" +
						"try {\n  return f(" + strings.Join(args, ", ") + ")\n} catch e {\n  return e.Name\n}\n"
					ps = append(ps, &Program{Src: src, Tags: []string{"arity-matrix"}})
				}
			}
		}
	}
	return ps
}

var catchReadMask = regexp.MustCompile(`i:-\d+ (true|false)`)

type c02wit struct {
	Program *Program `json:"program"`
	Opt     int      `json:"optimizer_limit"`
	Why     string   `json:"why"`
	VM      any      `json:"vm"`
	Ref     any      `json:"ref"`
}

func c02opts() gen.Opts {
	return gen.Opts{MaxStmts: 28, MaxDepth: 4, ExprDepth: 3, Try: 0.25, Throw: 0.08, Funcs: 0.6, Shadow: 0.25, LogProb: 0.2,
		Consts: 0.3, Globals: true, DeepRecursion: 30, TailRec: true, Faults: 0.002}
}

// checkAgainstRef compiles p with both optimizer settings, runs it, and compares with the reference.
// It returns whether the case was comparable.
func checkAgainstRef(c *core.Ctx, prop string, p *Program, args []ugo.Object, stepLimit int) (compared bool, r refOutcome) {
	r = runRef(p, args, ugo.Map{"G": ugo.Int(3)}, stepLimit)
	if r.Discard != "" {
		c.Count("discarded_by_reference")
		if strings.HasPrefix(r.Discard, "ref: unsupported") {
			c.SetAdd("reference_unsupported", trunc(r.Discard, 80))
		}
		return false, r
	}
	for _, opt := range []int{-1, 0} {
		cr := compileProgram(p, opt)
		if cr.panicv != "" {
			c.Violation(prop+"|compile-panic|"+cr.ptop+"|"+core.NormMsg(cr.panicv), "Compile panics: "+cr.panicv, c02wit{Program: p, Opt: opt, Why: "compile panic"})
			return false, r
		}
		if cr.err != nil {
			if opt == -1 {
				c.Count("discarded_compile_error")
				c.SetAdd("compile_errors", trunc(core.NormMsg(cr.err.Error()), 100))
				return false, r
			}
			// optimizer refused: judged by C01, not here
			c.Count("optimizer_refused")
			continue
		}
		vm := runVM(cr.bc, args, ugo.Map{"G": ugo.Int(3)}, false)
		if vm.Kind == "timeout" {
			c.Inconclusive("VM run hit the watchdog: " + progHash(p))
			continue
		}
		c.Count("compared")
		if ok, why := sameOutcome(vm, r); !ok {
			cls := why
			if i := strings.Index(cls, ":"); i > 0 {
				cls = cls[:i]
			}
			if r.In.Flags["catch-var-read-after-jump-out-of-try"] > 0 && why == "event log differs" &&
				catchReadMask.ReplaceAllString(vm.Log, "i:-N ?") == catchReadMask.ReplaceAllString(r.Log, "i:-N ?") {
				// known finding: only the logged value of a catch identifier read in finally after the
				// try body was left by return/break/continue differs (stale local slot)
				c.Violation(prop+"|known-shape|catch-var-stale-after-jump-out-of-try", "catch identifier read in finally holds a stale value after the try body was left by return/break/continue",
					c02wit{Program: p, Opt: opt, Why: why, VM: vm, Ref: r.Outcome})
				return true, r
			}
			c.Violation(prop+"|ref-mismatch|"+cls+"|"+progHash(p), "VM outcome differs from the documented semantics ("+why+")",
				c02wit{Program: p, Opt: opt, Why: why, VM: vm, Ref: r.Outcome})
			return true, r
		}
	}
	return true, r
}

// c02destructMatrix: array destructuring never modifies its right-hand side, whatever the relation between the number
// of targets and the length / spare capacity of the array, and whoever else shares that array's storage.
func c02destructMatrix() []*Program {
	var out []*Program
	setups := []struct{ pre, holder, rhs string }{
		{"a := [1, 2, 3]\nb := a[:1]", "a", "b"},
		{"a := [1, 2, 3, 4]\nb := a[1:2]", "a", "b"},
		{"head := append([1, 2], 3)\nlog := append(head, 4)", "log", "head"},
		{"a := [1, 2, 3]\nmk := func() { return a[:2] }", "a", "mk()"},
		{"a := [[1, 2, 3][:1], 7]", "a", "a[0]"},
		{"a := [1, 2, 3]\nb := a[:0]", "a", "b"},
	}
	for _, su := range setups {
		for n := 1; n <= 5; n++ {
			names := make([]string, n)
			for i := range names {
				names[i] = fmt.Sprintf("t%d", i)
			}
			list := strings.Join(names, ", ")
			for _, form := range []string{list + " := " + su.rhs, "var (" + list + ")\n" + list + " = " + su.rhs, "var " + list + " = " + su.rhs} {
				if strings.HasPrefix(form, "var "+list+" =") && n > 1 {
					continue // not a destructuring form
				}
				src := "global L\n" + su.pre + "\n" + form + "\nL(" + list + ")\nL(" + su.holder + ")\nwrap := func() {\n  " + strings.ReplaceAll(form, "\n", "\n  ") + "\n  return [" + list + "]\n}\nL(wrap())\nreturn [" + su.holder + ", " + su.rhs + "]\n"
				out = append(out, &Program{Src: src, Tags: []string{"destructuring-matrix"}})
			}
		}
	}
	return out
}

// c02staleSlotMatrix: a declaration without initial value that follows a closed block re-uses that block's local slots;
// the new variable must read as undefined, and writing it must not reach a variable of the dead block that a closure holds.
func c02staleSlotMatrix() []*Program {
	blocks := []string{
		"for i := 0; i < n; i++ {\n}",
		"for i := 0; i < n; i++ {\n  t := i * 2\n  L(0, t)\n}",
		"if n >= 0 {\n  a := 1\n  b := 2\n  L(0, a + b)\n}",
		"if true {\n  a := 1\n  hold = func() { a++; return a }\n}",
		"for i := 0; i < 2; i++ {\n  hold = func() { return i }\n}",
		"try {\n  q := [n]\n  throw q\n} catch e {\n  L(0, e)\n}",
		"for k, v in [5, 6] {\n  L(0, k, v)\n}",
		"if true {\n  if true {\n    deep := 9\n    L(0, deep)\n  }\n  mid := 8\n  hold = func() { return mid }\n}",
		"for blk := 4; blk < 5; blk++ {\n  hold = func() { blk += 1; return blk }\n}",
	}
	decls := []struct{ text, names string }{
		{"var x", "x"}, {"var (x, y, z)", "x, y, z"}, {"var x = undefined", "x"}, {"x := undefined", "x"}, {"var (x = undefined, y)", "x, y"}, {"const c0 = 1\nvar x", "x"},
	}
	var out []*Program
	for _, b := range blocks {
		for _, d := range decls {
			for _, wrap := range []string{"func", "func-nested", "main"} {
				body := "hold := undefined\n" + b + "\n" + d.text + "\nL(1, " + d.names + ")\nx = 10\nL(2, " + d.names + ", hold == undefined ? \"none\" : hold())\n"
				var src string
				switch wrap {
				case "func":
					src = "global L\nf := func(n) {\n" + body + "return [x, hold == undefined ? 0 : hold()]\n}\nreturn [f(3), f(0)]\n"
				case "func-nested":
					src = "global L\nouter := func(n) {\n  return func() {\n" + body + "return x\n  }\n}\nreturn [outer(2)(), outer(0)()]\n"
				default:
					src = "global L\nn := 2\n" + body + "return x\n"
				}
				out = append(out, &Program{Src: src, Tags: []string{"stale-slot-matrix"}})
			}
		}
	}
	return out
}

func init() {
	// a destructuring define that mixes new names with names already declared in the scope, after a closure captured the
	// old variable (a define creates a fresh variable; the closure keeps the old one)
	c02probes = append(c02probes,
		"global L\nx := 1\nf := func() { return x }\ng := func() { x += 100; return x }\nL(g())\nx, y := [10, 20]\nL(f(), g(), x, y)\nx += 1000\nreturn [f(), x, y]",
		"global L\nfns := []\nfor i := 0; i < 3; i++ {\n  v := i\n  fns = append(fns, func() { return v })\n  v, w := [v * 10, i]\n  fns = append(fns, func() { v++; return [v, w] })\n}\nout := []\nfor f in fns {\n  out = append(out, f())\n}\nreturn out",
		"global L\nh := func(a) {\n  k := func() { return a }\n  a, b := [a + 1, a + 2]\n  m := func() { return [a, b] }\n  a = 50\n  return [k(), m()]\n}\nreturn [h(1), h(7)]",
		"global L\nx := 1\nf := func() { return x }\nx := 2\ng := func() { return x }\nx = 3\nreturn [f(), g(), x]",
	)
}

func init() {
	// a destructuring define over a name that a global statement declared in the same scope stores to the global (the
	// name is not new there) and leaves every local alone; in a nested scope the same statement declares a new local
	c02probes = append(c02probes,
		"global x\na := 100\nx, y := [1, 2]\nreturn [a, x, y, globals().x]",
		"global (x, z)\na := 100\nb := 200\nz, y, x := [1, 2, 3]\nL := [a, b, x, y, z]\nx, w := [9, 8]\nreturn [L, a, b, x, y, z, w, globals().x, globals().z]",
		"global x\na := 100\nif true {\n  x, y := [1, 2]\n  a += x + y\n}\nreturn [a, x, globals().x]",
		"global x\na := 100\nf := func() {\n  b := 5\n  x, y := [1, 2]\n  return [b, x, y]\n}\nreturn [f(), a, x]",
		"global x\na := 100\nif x, y := [1, 2]; y == 2 {\n  a += x\n}\nreturn [a, x]",
		"global x\nx = 5\na := 100\nf := func() { return x }\nx, y := [x + 1, a]\nreturn [a, x, y, f()]",
	)
}

func init() {
	// calls in tail position between DIFFERENT instances of one function literal (same code, different captured
	// variables): chains of handlers, continuation passing, returned and discarded forms
	c02probes = append(c02probes,
		"global L\nmk := func(next, tag) {\n  return func(n) {\n    L(tag, n)\n    if n <= 0 {\n      return tag\n    }\n    if next == undefined {\n      return [tag, n]\n    }\n    return next(n - 1)\n  }\n}\nh3 := mk(undefined, 3)\nh2 := mk(h3, 2)\nh1 := mk(h2, 1)\nreturn [h1(5), h1(1), h2(0), h1(0), h2(7)]",
		"global L\nvar mk\nmk = func(acc) {\n  return func(n) {\n    if n == 0 {\n      return acc\n    }\n    return mk(acc + n)(n - 1)\n  }\n}\nreturn [mk(0)(4), mk(100)(1), mk(7)(0)]",
		"global L\nout := []\nmk := func(next, tag) {\n  return func(n) {\n    out = append(out, [tag, n])\n    if n <= 0 || next == undefined {\n      return tag\n    }\n    next(n - 1)\n  }\n}\nh2 := mk(undefined, \"b\")\nh1 := mk(h2, \"a\")\nr := [h1(2), h1(0), h2(1)]\nreturn [r, out]",
		"global L\nfs := []\nfor i := 0; i < 3; i++ {\n  fs = append(fs, func(n, k) {\n    L(i, n)\n    if n == 0 {\n      return i * 10 + k\n    }\n    return fs[(i + 1) % 3](n - 1, k + i)\n  })\n}\nreturn [fs[0](4, 0), fs[2](1, 0), fs[1](0, 0)]",
	)
}

func (m c02) Run(c *core.Ctx) {
	if c.Replay != nil {
		var w c02wit
		if json.Unmarshal(c.Replay, &w) == nil && w.Program != nil {
			args := parseIntArgs(w.Program.Args)
			if os.Getenv("VERIF_MINIMIZE") != "" {
				min := minimizeLines(w.Program.Src, func(src string) bool {
					q := *w.Program
					q.Src = src
					sub := core.NewScratchCtx(c)
					checkAgainstRef(sub, "C02", &q, args, 400000)
					return sub.NumViolations() > 0
				})
				fmt.Println("---- minimized ----")
				fmt.Print(min)
				w.Program.Src = min
			}
			checkAgainstRef(c, "C02", w.Program, args, 400000)
		}
		return
	}
	// fixed probes and the arity matrix (exhaustive, both tiers), split over batches
	fixed := []*Program{}
	for _, s := range c02probes {
		fixed = append(fixed, &Program{Src: s, Tags: []string{"probe"}})
	}
	nProbe := len(fixed)
	fixed = append(fixed, c02arityMatrix()...)
	for _, src := range gen.RecursionTryMatrix() {
		fixed = append(fixed, &Program{Src: src, Tags: []string{"recursion-try-matrix"}})
	}
	fixed = append(fixed, c02destructMatrix()...)
	fixed = append(fixed, c02staleSlotMatrix()...)
	nMatrix := len(fixed)
	for form := 0; form < 2; form++ {
		for _, src := range gen.TailMixPrograms("", form) {
			fixed = append(fixed, &Program{Src: src, Tags: []string{"tail-mix"}})
		}
	}
	for i, p := range fixed {
		if i%c.NBatch != c.Batch {
			continue
		}
		p := p
		if !c.Begin(func() string { return p.Src }) {
			continue
		}
		ok, r := checkAgainstRef(c, "C02", p, nil, 400000)
		if i < nProbe {
			c.Count("probe_programs")
		} else if i < nMatrix {
			c.Count("arity_matrix")
		} else if ok {
			c.Count("tail_mix_programs")
		}
		if ok {
			countFeatures(c, r.In, "ref.")
			c.Nontrivial(progHash(p))
		}
	}
	n := c.Pick(1000, 50000)
	o := c02opts()
	for i := 0; i < n; i++ {
		if stopExploring(c) {
			break
		}
		o.Params = c.Rng.Intn(3)
		gp := gen.Generate(c.Rng, o)
		p := fromGen(gp)
		args := make([]ugo.Object, o.Params)
		for j := range args {
			args[j] = ugo.Int(c.Rng.Intn(7) - 1)
		}
		p.Args = renderArgs(args)
		if !c.Begin(func() string { return p.Src + "\n// args " + strings.Join(p.Args, ",") }) {
			continue
		}
		ok, r := checkAgainstRef(c, "C02", p, args, 200000)
		if !ok {
			continue
		}
		countFeatures(c, r.In, "ref.")
		for _, t := range p.Tags {
			c.Count("tag." + t)
		}
		switch r.Kind {
		case "value":
			c.Count("outcome_value")
		case "error":
			c.Count("outcome_error")
			c.SetAdd("error_names", r.ErrName)
		}
		if r.In.Calls >= 1 && r.Log != "" && len(p.Tags) >= 3 {
			c.Nontrivial(progHash(p))
		}
		if i%211 == 0 {
			c.Sample(map[string]any{"src": p.Src, "args": p.Args, "outcome": r.Kind + ":" + trunc(r.Value+r.ErrName, 80)})
		}
	}
}
