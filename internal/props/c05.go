package props

import (
	"bytes"
	"context"
	"encoding/json"
	"fmt"
	"io"
	"runtime/debug"
	"strings"
	"time"

	"github.com/ozanh/ugo"

	"verif/internal/core"
	"verif/internal/gen"
)

// C05 — Compile is total: bytecode or an error for any input, never a panic.
type c05 struct{}

func init() { core.Register(c05{}) }

func (c05) ID() string    { return "C05" }
func (c05) Level() string { return "exploration" }
func (c05) Race() bool    { return false }
func (c05) Rule() string {
	return "ugo.Compile / Eval.Run (compile path) are called under recover() with a 60 s per-case watchdog on (1) an EXHAUSTIVE boundary enumeration around every operand-width limit (255/256/257 locals at top level, in a function, in a module, spread over blocks; " +
		"function parameters; 255/256/257 call arguments plain and with spread; selector chains; free variables; 65535/65536/65537 array elements, map pairs, distinct constants; nesting depth of parens/unary/blocks/function literals up to 2000; 1..12 parse errors), " +
		"(2) mutations of a seed corpus and of generated valid programs (byte flips, token deletion/duplication/swap, truncation at every 8th offset (every offset in thorough), splices, NUL/BOM/invalid UTF-8 insertion), " +
		"(3) seeded random byte and token strings, each under an options cross product (optimizer off/1/2/100, tracing off/on, module maps: none / source modules incl. one with a parse error and a cycle / builtin, " +
		"symbol table fresh / re-used in a 3-fragment Eval session / with disabled builtins, ModulePath). Oracle: never a panic, bytecode xor error, and every returned Bytecode passes a structural well-formedness scan " +
		"(opcodes known, operands complete, jump/try targets on instruction starts, constant/local/builtin/module indexes in range, NumParams<=NumLocals<=256, flag operands 0/1). " +
		"non-trivial = the input reached the compiler (parsed) or produced a parse error at a distinct (message class); distinct by input hash"
}
func (c05) Batches(tier string) int { return 32 }
func (c05) Required(string) []string {
	return []string{"compiles", "compiled_ok", "scans", "parse_errors", "compile_errors", "boundary_cases", "mutations", "random_inputs", "opt.noopt", "opt.limit1", "trace_on", "modules.source", "modules.builtin", "symtab.eval-session", "symtab.disabled", "limit_rejections", "option_combinations", "convergence_checks"}
}
func (c05) Assumptions() []string {
	return []string{"Go stack exhaustion by nesting deeper than the explored bound (2000) is a fatal error outside the explored sizes", "a watchdog firing twice on the same input is reported as a hang; once is inconclusive"}
}

type c05wit struct {
	Input   string `json:"input"`
	Hex     bool   `json:"hex,omitempty"`
	Options string `json:"options"`
	Why     string `json:"why"`
	Detail  string `json:"detail,omitempty"`
}

// wellFormed scans a Bytecode structurally and returns the problems found.
func wellFormed(bc *ugo.Bytecode) []string {
	var probs []string
	add := func(f string, a ...any) {
		if len(probs) < 8 {
			probs = append(probs, fmt.Sprintf(f, a...))
		}
	}
	if bc == nil || bc.Main == nil {
		return []string{"nil bytecode or main"}
	}
	checkFn := func(name string, cf *ugo.CompiledFunction) {
		isMain := cf == bc.Main
		if cf.NumParams > cf.NumLocals {
			add("%s: NumParams %d > NumLocals %d", name, cf.NumParams, cf.NumLocals)
		}
		if cf.NumLocals > 256 || cf.NumLocals < 0 {
			add("%s: NumLocals %d out of range", name, cf.NumLocals)
		}
		ins := cf.Instructions
		starts := map[int]bool{}
		type jt struct {
			at, target int
			zeroOK     bool
		}
		var jumps []jt
		lastOp := -1
		for i := 0; i < len(ins); {
			starts[i] = true
			op := ins[i]
			if int(op) >= len(ugo.OpcodeOperands) || ugo.OpcodeOperands[op] == nil && ugo.OpcodeNames[op] == "" {
				add("%s: unknown opcode %d at %d", name, op, i)
				return
			}
			widths := ugo.OpcodeOperands[op]
			w := 0
			for _, x := range widths {
				w += x
			}
			if i+1+w > len(ins) {
				add("%s: truncated operands of %s at %d", name, ugo.OpcodeNames[op], i)
				return
			}
			operands, _ := ugo.ReadOperands(widths, ins[i+1:], nil)
			switch op {
			case ugo.OpJump, ugo.OpJumpFalsy, ugo.OpAndJump, ugo.OpOrJump:
				jumps = append(jumps, jt{i, operands[0], false})
			case ugo.OpSetupTry:
				jumps = append(jumps, jt{i, operands[0], true}, jt{i, operands[1], true})
			case ugo.OpConstant:
				if operands[0] >= len(bc.Constants) {
					add("%s: CONSTANT index %d >= %d at %d", name, operands[0], len(bc.Constants), i)
				}
			case ugo.OpClosure:
				if operands[0] >= len(bc.Constants) {
					add("%s: CLOSURE index %d >= %d", name, operands[0], len(bc.Constants))
				} else if fn, ok := bc.Constants[operands[0]].(*ugo.CompiledFunction); !ok {
					add("%s: CLOSURE constant %d is not a function", name, operands[0])
				} else if need := maxFreeIndex(fn) + 1; operands[1] < need {
					add("%s: CLOSURE at %d passes %d free variables but the function uses free index %d", name, i, operands[1], need-1)
				}
			case ugo.OpGetFree, ugo.OpSetFree, ugo.OpGetFreePtr:
				if isMain {
					add("%s: %s in the main function", name, ugo.OpcodeNames[op])
				}
			case ugo.OpGetGlobal, ugo.OpSetGlobal:
				if operands[0] >= len(bc.Constants) {
					add("%s: global name index %d >= %d", name, operands[0], len(bc.Constants))
				}
			case ugo.OpLoadModule:
				if operands[0] >= len(bc.Constants) {
					add("%s: LOADMODULE constant %d >= %d", name, operands[0], len(bc.Constants))
				}
				if operands[1] >= bc.NumModules {
					add("%s: LOADMODULE module index %d >= NumModules %d", name, operands[1], bc.NumModules)
				}
			case ugo.OpStoreModule:
				if operands[0] >= bc.NumModules {
					add("%s: STOREMODULE module index %d >= NumModules %d", name, operands[0], bc.NumModules)
				}
			case ugo.OpGetLocal, ugo.OpSetLocal, ugo.OpDefineLocal, ugo.OpGetLocalPtr:
				if operands[0] >= cf.NumLocals {
					add("%s: local index %d >= NumLocals %d (%s at %d)", name, operands[0], cf.NumLocals, ugo.OpcodeNames[op], i)
				}
			case ugo.OpGetBuiltin:
				if operands[0] >= len(ugo.BuiltinObjects) || ugo.BuiltinObjects[operands[0]] == nil {
					add("%s: GETBUILTIN %d names no builtin", name, operands[0])
				}
			case ugo.OpCall, ugo.OpCallName:
				if operands[1] > 1 {
					add("%s: call flag %d", name, operands[1])
				}
			case ugo.OpReturn, ugo.OpThrow:
				if operands[0] > 1 {
					add("%s: %s operand %d", name, ugo.OpcodeNames[op], operands[0])
				}
			}
			lastOp = int(op)
			i += 1 + w
		}
		for _, j := range jumps {
			if j.zeroOK && j.target == 0 {
				continue
			}
			if !starts[j.target] {
				add("%s: jump at %d targets %d which is not an instruction start (len %d)", name, j.at, j.target, len(ins))
			}
		}
		if len(ins) > 0 && lastOp != int(ugo.OpReturn) {
			add("%s: last instruction is %s, not RETURN", name, ugo.OpcodeNames[lastOp])
		}
		for k := range cf.SourceMap {
			if !starts[k] {
				add("%s: source map key %d is not an instruction start", name, k)
				break
			}
		}
	}
	checkFn("main", bc.Main)
	for i, k := range bc.Constants {
		if k == nil {
			add("constant %d is nil", i)
			continue
		}
		if cf, ok := k.(*ugo.CompiledFunction); ok {
			checkFn(fmt.Sprintf("const#%d", i), cf)
		}
	}
	return probs
}

// maxFreeIndex is the largest free-variable index a function's instructions use (-1 if none).
func maxFreeIndex(cf *ugo.CompiledFunction) int {
	max := -1
	ins := cf.Instructions
	for i := 0; i < len(ins); {
		op := ins[i]
		if int(op) >= len(ugo.OpcodeOperands) {
			return max
		}
		w := 0
		for _, x := range ugo.OpcodeOperands[op] {
			w += x
		}
		if i+1+w > len(ins) {
			return max
		}
		switch op {
		case ugo.OpGetFree, ugo.OpSetFree, ugo.OpGetFreePtr:
			if int(ins[i+1]) > max {
				max = int(ins[i+1])
			}
		}
		i += 1 + w
	}
	return max
}

type c05opt struct {
	name string
	mk   func() (ugo.CompilerOptions, bool) // bool: use a 3-fragment Eval session
}

func c05sourceModules() *ugo.ModuleMap {
	mm := ugo.NewModuleMap()
	mm.AddSourceModule("good", []byte("x := 1\nreturn {inc: func() { x++; return x }}\n"))
	mm.AddSourceModule("bad", []byte("x := (1 + \nreturn"))
	mm.AddSourceModule("cyc1", []byte("return import(\"cyc2\")"))
	mm.AddSourceModule("cyc2", []byte("return import(\"cyc1\")"))
	mm.AddSourceModule("mod0", []byte("return {bump: func(d) { return d }, get: func() { return 1 }, dep: func() { return 2 }}"))
	mm.AddSourceModule("mod1", []byte("return {bump: func(d) { return d }, get: func() { return 1 }, dep: func() { return 2 }}"))
	// files reached through an external importer whose module names (absolute paths) differ from the import texts
	reads := 0
	mm.SetExtImporter(memFileImporter(c05files, "/virtual/dir", &reads))
	return mm
}

var c05files = map[string]string{
	"a.ugo": "return import(\"./b.ugo\")\n", "b.ugo": "return import(\"./a.ugo\")\n",
	"self.ugo": "x := 1\nreturn import(\"./self.ugo\")\n",
	"c1.ugo":   "return import(\"./c2.ugo\")\n", "c2.ugo": "f := func() { return import(\"./c3.ugo\") }\nreturn f\n", "c3.ugo": "if false {\n  import(\"./c1.ugo\")\n}\nreturn 3\n",
	"ok.ugo": "return import(\"./leaf.ugo\") + 1\n", "leaf.ugo": "return 41\n",
	"d1.ugo": "return [import(\"./leaf.ugo\"), import(\"./d2.ugo\")]\n", "d2.ugo": "return import(\"./leaf.ugo\")\n",
	"broken.ugo": "x := (1 +\n", "mix.ugo": "return [import(\"good\"), import(\"./leaf.ugo\"), import(\"cyc1\")]\n",
}

func c05options() []c05opt {
	return []c05opt{
		{"noopt", func() (ugo.CompilerOptions, bool) { return ugo.CompilerOptions{NoOptimize: true}, false }},
		{"default", func() (ugo.CompilerOptions, bool) { return ugo.CompilerOptions{}, false }},
		{"limit1", func() (ugo.CompilerOptions, bool) { return ugo.CompilerOptions{OptimizerLimit: 1}, false }},
		{"limit2+trace", func() (ugo.CompilerOptions, bool) {
			return ugo.CompilerOptions{OptimizerLimit: 2, Trace: io.Discard, TraceParser: true, TraceCompiler: true, TraceOptimizer: true}, false
		}},
		{"noopt+trace", func() (ugo.CompilerOptions, bool) {
			return ugo.CompilerOptions{NoOptimize: true, Trace: io.Discard, TraceParser: true, TraceCompiler: true}, false
		}},
		{"source-modules", func() (ugo.CompilerOptions, bool) {
			return ugo.CompilerOptions{ModuleMap: c05sourceModules(), ModulePath: "mainpath"}, false
		}},
		{"builtin-modules", func() (ugo.CompilerOptions, bool) {
			mm := ugo.NewModuleMap()
			for _, n := range []string{"strings", "time", "fmt", "json"} {
				mm.Add(n, stdlibModule(n))
			}
			return ugo.CompilerOptions{ModuleMap: mm}, false
		}},
		{"disabled-builtins", func() (ugo.CompilerOptions, bool) {
			st := ugo.NewSymbolTable()
			st.DisableBuiltin("len", "string", "append", "int")
			return ugo.CompilerOptions{SymbolTable: st}, false
		}},
		{"eval-session", func() (ugo.CompilerOptions, bool) { return ugo.CompilerOptions{ModuleMap: c05sourceModules()}, true }},
	}
}

// c05reusedSymtab is kept out of c05options so that the rotation of options over the boundary cases stays as it was.
func c05reusedSymtab() c05opt {
	return c05opt{"reused-symtab", func() (ugo.CompilerOptions, bool) {
		// the symbol table has been through two earlier compilations (one successful, one failing); the constants
		// those produced are not handed on, only the table is
		st := ugo.NewSymbolTable()
		_, _ = ugo.Compile([]byte("global (gA, gB)\nv1 := 1\nreturn gA"), ugo.CompilerOptions{SymbolTable: st})
		_, _ = ugo.Compile([]byte("global gC\nv2 := nosuchname"), ugo.CompilerOptions{SymbolTable: st})
		return ugo.CompilerOptions{SymbolTable: st}, false
	}}
}

// c05symtabProbes reference names that earlier compilations left in a re-used symbol table (options "reused-symtab" and
// "eval-session": globals gA, gB, gC, local v1).
var c05symtabProbes = []string{
	"return gA", "return [gA, gB, gC]", "gB = 1\nreturn gC", "global gA\nreturn gA", "global (gC, gNew)\ngNew = gC\nreturn gNew",
	"return v1", "v1 = 2\nreturn v1 + 1", "f := func() { return [gA, gC] }\nreturn f()", "gC += 1", "x, gA := [1, 2]\nreturn x",
	"return \"gA\" + gB", "param p\nreturn [p, gA]", "try {\n  gB.x = 1\n} catch e {\n  return gC\n}",
}

// c05comboOptions: every combination of the three trace flags x trace writer set / nil x optimizer off / default / budget 1
// (flags and writer are independent fields; code paths test one or the other).
func c05comboOptions() []c05opt {
	var out []c05opt
	for bits := 0; bits < 8; bits++ {
		for w := 0; w < 2; w++ {
			for o := 0; o < 3; o++ {
				bits, w, o := bits, w, o
				name := fmt.Sprintf("combo-P%dC%dO%d-writer%d-opt%d", bits&1, bits>>1&1, bits>>2&1, w, o)
				out = append(out, c05opt{name, func() (ugo.CompilerOptions, bool) {
					op := ugo.CompilerOptions{TraceParser: bits&1 != 0, TraceCompiler: bits&2 != 0, TraceOptimizer: bits&4 != 0}
					if w == 1 {
						op.Trace = io.Discard
					}
					switch o {
					case 0:
						op.NoOptimize = true
					case 2:
						op.OptimizerLimit = 1
					}
					op.ModuleMap = c05sourceModules()
					return op, false
				}})
			}
		}
	}
	return out
}

var c05comboProbes = []string{
	// a local that shadows a builtin the same scope has already used by name (the builtin is cached in the scope's store
	// without being a definition): the slot of the new local must be counted in NumLocals
	"n := len(\"ab\")\nlen := n + 1\nreturn len", "x := [1]\nn := len(x)\nlen := n + 1\nreturn len", "a := int\nint := 3\nreturn int",
	"f := func() {\n  n := len([1])\n  len := n\n  return len\n}\nreturn f()", "p := string\nif p {\n  string := 1\n  return string\n}\nreturn 0",
	"x := [2]\nfor i in x {\n  n := len(x)\n  len := n + i\n  return len\n}", "param a\nn := len(a)\nvar len\nreturn [n, len]", "n := cap([1])\nconst c = 1\ncap := c + n\nreturn cap",
	// names that are literal constants (no local slot) where a statement stores to a name: catch identifier, for-in
	// variables, destructuring, parameters of a nested function, assignment
	"try {\n  const e = 1\n} catch e {\n}", "a := 5\ntry {\n  const e = 1\n  throw \"x\"\n} catch e {\n}\nreturn a",
	"f := func() {\n  try {\n    const e = 1\n  } catch e {\n  }\n}\nreturn f()", "const e = 1\ntry {\n  throw 2\n} catch e {\n  return e\n}",
	"const k = 1\nfor k in [1, 2] {\n}\nreturn k", "for i := 0; i < 1; i++ {\n  const v = 1\n  for k, v in {a: 1} {\n  }\n}", "const a = 1\na, b := [2, 3]\nreturn a",
	"const a = 1\nf := func(a) { return a }\nreturn f(2)", "try {\n  const e = iota\n  const g = e\n} catch g {\n} finally {\n  const g = 2\n}",
	"return true && false", "x := 1 || 2\nreturn x", "return \"s\" && 0 ? 1 : 2", "a := 1\nif a > 0 && 2 > 1 {\n  a = 2\n}\nreturn a",
	"for i := 0; i < 3; i++ {\n  if i == 1 {\n    continue\n  }\n}\nreturn 1", "try {\n  throw 1\n} catch e {\n  return e\n} finally {\n}",
	"const k = 2\nf := func(a, ...b) {\n  return a ? b : k * 3\n}\nreturn f(1 + 2, 3)", "m := import(\"good\")\nreturn m",
	"return 1 + ", "x := := 1", "return undefinedName",
	"(1 + 2)()", "return (-1)()", "x := (1 + 2)(3 * 4)\nreturn x", "f := func(a) { return a }\nreturn f((1 + 2) * 3)((4))", "return [1, 2][0 + 1]()", "return {a: 1 + 1}.a()", "return (true ? 1 + 2 : 3)()",
	"return [import(\"mod0\").get(), import(\"mod1\").get(), import(\"good\").inc(), import(\"./leaf.ugo\"), import(\"./ok.ugo\")]", "return import(\"cyc2\")", "return import(\"mod1\")",
	"if false {\n  x := 1\n}\nreturn 2", "if 1 - 1 {\n  return 1\n} else {\n  return 2\n}", "x := 5\nif \"\" {\n  x = 1\n}\nif undefined {\n  x = 2\n} else if 0.0 {\n  x = 3\n}\nreturn x",
	"y := false ? 1 : 2\nfor false {\n  y++\n}\nreturn true ? y : 0", "if true {\n  return 1\n} else {\n  return 2\n}", "f := func() {\n  if !true {\n    return 1\n  }\n  return 0 || 3\n}\nreturn f()",
	"return import(\"./a.ugo\")", "return import(\"./self.ugo\")", "return import(\"./c1.ugo\")", "return import(\"./ok.ugo\")",
	"return [import(\"./leaf.ugo\"), import(\"./d1.ugo\"), import(\"./ok.ugo\")]", "return import(\"./broken.ugo\")", "return import(\"./missing.ugo\")",
	"return import(\"./mix.ugo\")", "f := func() {\n  return import(\"./b.ugo\")\n}\nreturn 1", "return import(\"/virtual/dir/a.ugo\")",
}

// c05passes compiles src with the given optimizer budget and counts the optimizer passes reported in the trace.
func c05passes(src string, limit int) (n int, ok bool) {
	var buf bytes.Buffer
	_, _, pan, _, hung := compileGuarded(func() (*ugo.Bytecode, error) {
		return ugo.Compile([]byte(src), ugo.CompilerOptions{OptimizerLimit: limit, Trace: &buf, TraceOptimizer: true, ModuleMap: c05sourceModules()})
	})
	if pan != "" || hung {
		return 0, false
	}
	return strings.Count(buf.String(), ". pass"), true
}

// compileGuarded runs fn under recover and a watchdog.
func compileGuarded(fn func() (*ugo.Bytecode, error)) (bc *ugo.Bytecode, err error, pan string, top string, hung bool) {
	return compileGuardedFor(fn, 60*time.Second)
}

func compileGuardedFor(fn func() (*ugo.Bytecode, error), limit time.Duration) (bc *ugo.Bytecode, err error, pan string, top string, hung bool) {
	done := make(chan struct{})
	go func() {
		defer close(done)
		defer func() {
			if r := recover(); r != nil {
				pan = fmt.Sprint(r)
				top = stackTopRepo(string(debug.Stack()))
			}
		}()
		bc, err = fn()
	}()
	select {
	case <-done:
	case <-time.After(limit):
		hung = true
	}
	return
}

func (m c05) one(c *core.Ctx, input []byte, opt c05opt, class string) (reached bool) {
	opts, session := opt.mk()
	isText := true
	for _, b := range input {
		if b < 9 || b > 126 {
			isText = false
			break
		}
	}
	wit := func(why, detail string) c05wit {
		w := c05wit{Options: opt.name, Why: why, Detail: trunc(detail, 1200)}
		if isText && len(input) < 20000 {
			w.Input = string(input)
		} else {
			w.Hex = true
			w.Input = fmt.Sprintf("%x", trunc(string(input), 20000))
		}
		return w
	}
	run := func(src []byte) (*ugo.Bytecode, error) {
		if !session {
			return ugo.Compile(src, opts)
		}
		// fragment 1 and 2 are fixed and valid, the input is fragment 3 (re-used symbol table, constants, module store)
		ev := ugo.NewEval(opts, nil)
		if _, _, err := ev.Run(context.Background(), []byte("a := 1\nf := func(x) { return x + a }\nm := import(\"good\")")); err != nil {
			return nil, fmt.Errorf("session setup: %w", err)
		}
		if _, _, err := ev.Run(context.Background(), []byte("b := f(2)\nconst k = 7\nm.inc()")); err != nil {
			return nil, fmt.Errorf("session setup: %w", err)
		}
		// fragments that import modules and then FAIL in different ways (unresolved name; an invalid constant expression
		// reported by the optimizer; an imported module that does not parse; a run-time error): their leftovers must
		// not break later compiles
		_, _, _ = ev.Run(context.Background(), []byte("m0 := import(\"mod0\")\nm1 := import(\"mod1\")\nfl := -0.0\nq := someUndefinedName"))
		_, _, _ = ev.Run(context.Background(), []byte("const zz = 0\nk0 := import(\"mod1\")\nk1 := import(\"cyc2\")\nqq := 1 % zz"))
		_, _, _ = ev.Run(context.Background(), []byte("global (gA, gB)\nv1 := 1\nqz := someUndefinedName3"))
		_, _, _ = ev.Run(context.Background(), []byte("global gC\nthrow gC"))
		_, _, _ = ev.Run(context.Background(), []byte("k2 := import(\"mod0\")\nk3 := import(\"bad\")"))
		_, _, _ = ev.Run(context.Background(), []byte("k4 := import(\"./leaf.ugo\")\nk5 := import(\"./broken.ugo\")"))
		_, _, _ = ev.Run(context.Background(), []byte("k6 := import(\"./ok.ugo\")\nthrow \"run-time failure after an import\""))
		// compile-only is not exposed: running a fragment could loop forever, so prefix a return
		_, bc, err := ev.Run(context.Background(), append([]byte("return\n"), src...))
		return bc, err
	}
	bc, err, pan, top, hung := compileGuarded(func() (*ugo.Bytecode, error) { return run(input) })
	c.Count("compiles")
	c.Count("opt." + strings.SplitN(opt.name, "+", 2)[0])
	if strings.Contains(opt.name, "trace") {
		c.Count("trace_on")
	}
	switch opt.name {
	case "source-modules":
		c.Count("modules.source")
	case "builtin-modules":
		c.Count("modules.builtin")
	case "eval-session":
		c.Count("symtab.eval-session")
	case "disabled-builtins":
		c.Count("symtab.disabled")
	}
	if hung {
		// retry with a deadline that no load on the machine explains (inputs are <= 64 KiB and compile in milliseconds to
		// seconds); a single firing of the 60 s watchdog is only counted
		_, _, _, _, hung2 := compileGuardedFor(func() (*ugo.Bytecode, error) { return run(input) }, 10*time.Minute)
		if hung2 {
			c.Violation("C05|hang|"+class, "Compile does not terminate (60 s, then 10 min) on a "+fmt.Sprint(len(input))+"-byte input", wit("hang", ""))
		} else {
			c.Inconclusive("compile watchdog fired once: " + class)
		}
		return false
	}
	if pan != "" {
		c.Violation("C05|panic|"+top+"|"+core.NormMsg(pan), "Compile panics: "+trunc(pan, 200), wit("panic", pan+" @"+top))
		return true
	}
	if err != nil {
		if bc != nil && !session {
			c.Violation("C05|both", "Compile returned both bytecode and an error", wit("bytecode and error", err.Error()))
		}
		msg := err.Error()
		if strings.Contains(msg, "runaway import chain") {
			// the in-memory file reader gave up after 10000 reads of a handful of files: the compiler was importing without end
			c.Violation("C05|nonterminating-import", "Compile keeps importing and compiling the same modules (stopped by the file reader after 10000 reads)", wit("import chain does not terminate", trunc(msg, 300)))
			return true
		}
		switch {
		case strings.HasPrefix(msg, "Parse Error"):
			c.Count("parse_errors")
			c.SetAdd("parse_error_classes", trunc(core.NormMsg(strings.TrimPrefix(msg, "Parse Error: ")), 50))
		case strings.Contains(msg, "MakeInstruction") || strings.Contains(msg, "SymbolLimitError") || strings.Contains(msg, "exceeds the limit"):
			c.Count("limit_rejections")
			c.Count("compile_errors")
			reached = true
		default:
			c.Count("compile_errors")
			reached = true
			c.SetAdd("compile_error_classes", trunc(core.NormMsg(msg), 50))
		}
		return reached
	}
	if bc == nil {
		c.Violation("C05|nil-nil", "Compile returned neither bytecode nor an error", wit("nil bytecode and nil error", ""))
		return true
	}
	c.Count("compiled_ok")
	c.Count("scans")
	if probs := wellFormed(bc); len(probs) > 0 {
		cls := core.NormMsg(probs[0])
		c.Violation("C05|malformed|"+cls, "returned Bytecode is not well formed: "+strings.Join(probs, "; "), wit("malformed bytecode", strings.Join(probs, "; ")))
	}
	return true
}

// ---- boundary enumeration ----

func c05repeat(n int, f func(i int) string, sep string) string {
	parts := make([]string, n)
	for i := range parts {
		parts[i] = f(i)
	}
	return strings.Join(parts, sep)
}

type c05case struct {
	name string
	src  string
	opts []string // option names to use (nil = a default subset)
}

func c05boundary() []c05case {
	var cs []c05case
	add := func(name, src string) { cs = append(cs, c05case{name: name, src: src}) }
	for _, n := range []int{254, 255, 256, 257, 258, 300} {
		locals := c05repeat(n, func(i int) string { return fmt.Sprintf("v%d := %d", i, i) }, "\n")
		add(fmt.Sprintf("locals-top-%d", n), locals+"\nreturn v0")
		add(fmt.Sprintf("locals-func-%d", n), "f := func() {\n"+locals+"\nreturn v0\n}\nreturn f()")
		add(fmt.Sprintf("locals-module-%d", n), "return import(\"big\")")
		add(fmt.Sprintf("locals-blocks-%d", n), c05repeat(n/2, func(i int) string { return fmt.Sprintf("a%d := %d", i, i) }, "\n")+"\nif true {\n"+c05repeat(n-n/2, func(i int) string { return fmt.Sprintf("b%d := %d", i, i) }, "\n")+"\n}\nreturn a0")
		add(fmt.Sprintf("var-group-%d", n), "var ("+c05repeat(n, func(i int) string { return fmt.Sprintf("w%d", i) }, ", ")+")\nreturn w0")
		add(fmt.Sprintf("const-group-%d", n), "const (\nc0 = iota\n"+c05repeat(n-1, func(i int) string { return fmt.Sprintf("c%d", i+1) }, "\n")+"\n)\nreturn c0")
		add(fmt.Sprintf("params-%d", n), "f := func("+c05repeat(n, func(i int) string { return fmt.Sprintf("p%d", i) }, ", ")+") { return p0 }\nreturn 1")
		add(fmt.Sprintf("main-params-%d", n), "param ("+c05repeat(n, func(i int) string { return fmt.Sprintf("p%d", i) }, ", ")+")\nreturn p0")
		add(fmt.Sprintf("globals-%d", n), "global ("+c05repeat(n, func(i int) string { return fmt.Sprintf("g%d", i) }, ", ")+")\nreturn g0")
		add(fmt.Sprintf("call-args-%d", n), "f := func(...a) { return len(a) }\nreturn f("+c05repeat(n, func(i int) string { return "1" }, ", ")+")")
		add(fmt.Sprintf("call-args-spread-%d", n), "f := func(...a) { return len(a) }\nreturn f("+c05repeat(n-1, func(i int) string { return "1" }, ", ")+", ...[1, 2])")
		add(fmt.Sprintf("callname-args-%d", n), "m := {f: func(...a) { return len(a) }}\nreturn m.f("+c05repeat(n, func(i int) string { return "1" }, ", ")+")")
		add(fmt.Sprintf("selector-chain-%d", n), "m := {}\nreturn m"+c05repeat(n, func(i int) string { return ".a" }, ""))
		add(fmt.Sprintf("index-chain-%d", n), "m := {}\nreturn m"+c05repeat(n, func(i int) string { return "[0]" }, ""))
		add(fmt.Sprintf("selector-assign-%d", n), "m := {}\nm"+c05repeat(n, func(i int) string { return ".a" }, "")+" = 1")
		add(fmt.Sprintf("free-vars-%d", n), "f := func() {\n"+c05repeat(n/2, func(i int) string { return fmt.Sprintf("v%d := %d", i, i) }, "\n")+"\nreturn func() { return "+c05repeat(n/2, func(i int) string { return fmt.Sprintf("v%d", i) }, " + ")+" }\n}\nreturn f()()")
		if n <= 256 {
			// exactly n captured variables in one closure (n top-level locals are all captured)
			add(fmt.Sprintf("free-vars-exact-%d", n), c05repeat(n, func(i int) string { return fmt.Sprintf("v%d := %d", i, i) }, "\n")+"\nreturn func() { return "+c05repeat(n, func(i int) string { return fmt.Sprintf("v%d", i) }, " + ")+" }()")
			add(fmt.Sprintf("free-vars-nested-%d", n), "f := func() {\n"+c05repeat(n-1, func(i int) string { return fmt.Sprintf("v%d := %d", i, i) }, "\n")+"\nreturn func() { return func() { return "+c05repeat(n-1, func(i int) string { return fmt.Sprintf("v%d", i) }, " + ")+" } }\n}\nreturn f()()()")
		}
		add(fmt.Sprintf("destructuring-%d", n), c05repeat(n, func(i int) string { return fmt.Sprintf("d%d", i) }, ", ")+" := [1, 2]\nreturn d0")
		add(fmt.Sprintf("try-nesting-%d", n), strings.Repeat("try {\n", n%60+1)+"x := 1\n"+strings.Repeat("} finally {\n}\n", n%60+1))
	}
	for _, n := range []int{65534, 65535, 65536, 65537} {
		add(fmt.Sprintf("array-elems-%d", n), "return ["+c05repeat(n, func(i int) string { return "1" }, ",")+"]")
		add(fmt.Sprintf("map-pairs-%d", n/2+1), "return {"+c05repeat(n/2+1, func(i int) string { return fmt.Sprintf("k%d:1", i) }, ",")+"}")
		add(fmt.Sprintf("constants-%d", n), "return ["+c05repeat(n/16, func(i int) string { return fmt.Sprintf("%d", i+1000) }, ",")+"]\n"+c05repeat(n-n/16, func(i int) string { return fmt.Sprintf("x=%d", i+100000) }, "\n")+"\n")
		add(fmt.Sprintf("jump-distance-%d", n), "x := 0\nif x == 1 {\n"+c05repeat(n/6, func(i int) string { return "x=x+1" }, "\n")+"\n}\nreturn x")
	}
	for _, d := range []int{1, 10, 100, 500, 1000, 2000} {
		add(fmt.Sprintf("nest-parens-%d", d), "return "+strings.Repeat("(", d)+"1"+strings.Repeat(")", d))
		add(fmt.Sprintf("nest-unary-%d", d), "return "+strings.Repeat("-", d)+"1")
		add(fmt.Sprintf("nest-not-%d", d), "x := 1\nreturn "+strings.Repeat("!", d)+"x")
		add(fmt.Sprintf("nest-blocks-%d", d), strings.Repeat("if true {\n", d)+"x := 1\n"+strings.Repeat("}\n", d))
		add(fmt.Sprintf("nest-funcs-%d", d%300), "return "+strings.Repeat("func() { return ", d%300)+"1"+strings.Repeat(" }", d%300))
		add(fmt.Sprintf("nest-arrays-%d", d), "return "+strings.Repeat("[", d)+"1"+strings.Repeat("]", d))
		add(fmt.Sprintf("nest-binary-%d", d), "x := 1\nreturn "+c05repeat(d, func(i int) string { return "x" }, " + "))
		add(fmt.Sprintf("nest-ternary-%d", d), "x := 1\nreturn "+strings.Repeat("x ? 1 : ", d)+"2")
		add(fmt.Sprintf("nest-calls-%d", d), "f := func(a) { return a }\nreturn "+strings.Repeat("f(", d)+"1"+strings.Repeat(")", d))
	}
	for n := 1; n <= 6; n++ {
		add(fmt.Sprintf("forin-idents-%d", n), "for "+c05repeat(n, func(i int) string { return fmt.Sprintf("k%d", i) }, ", ")+" in [1, 2] {\n}\nreturn 1")
		add(fmt.Sprintf("assign-lhs-%d", n), "var (a, b, c)\n"+c05repeat(n, func(i int) string { return []string{"a", "b", "c", "a.x", "b[0]", "c"}[i] }, ", ")+" = [1, 2, 3]\nreturn a")
		add(fmt.Sprintf("return-list-%d", n), "return "+c05repeat(n, func(i int) string { return fmt.Sprint(i) }, ", "))
	}
	// constant folding table: every operator x literal pair reaches the optimizer's folding code
	for _, op := range c01ops {
		var sb strings.Builder
		for _, l := range c01literals {
			for _, r := range c01literals {
				sb.Reset()
				fmt.Fprintf(&sb, "return (%s) %s (%s)", l, op, r)
				cs = append(cs, c05case{name: "fold " + sb.String(), src: sb.String()})
				bare := fmt.Sprintf("return %s %s %s", l, op, r)
				cs = append(cs, c05case{name: "fold " + bare, src: bare})
			}
		}
	}
	// shapes of the LAST statement of a function / script / module: which branches fall through to the end, which return,
	// and which contain jumps of their own decides where the closing instructions and the jump targets to "the end" go
	bodies := []string{"x = 10", "return x", "if x > 5 {\n  x = 5\n}\nreturn x", "return x > 5 && x < 9", "if x > 5 {\n  x = 5\n}", "", "for i := 0; i < 2; i++ {\n  x++\n}\nreturn x ? 1 : 2", "try {\n  x++\n} finally {\n}"}
	var tails []string
	for _, a := range bodies {
		tails = append(tails, "if x == 0 {\n"+a+"\n}")
		for _, b := range bodies {
			tails = append(tails, "if x == 0 {\n"+a+"\n} else {\n"+b+"\n}")
			tails = append(tails, "try {\n"+a+"\n} catch e {\n"+b+"\n}")
			for _, cc := range bodies[:5] {
				tails = append(tails, "if x == 0 {\n"+a+"\n} else if x == 1 {\n"+b+"\n} else {\n"+cc+"\n}")
			}
		}
		tails = append(tails, "for i := 0; i < 3; i++ {\n"+a+"\n}", "for v in [1, 2] {\n"+a+"\n}")
	}
	for ti, tl := range tails {
		add(fmt.Sprintf("tail-main-%d", ti), "param x\n"+tl)
		add(fmt.Sprintf("tail-func-%d", ti), "f := func(x) {\n"+tl+"\n}\nreturn f(0)")
	}
	for n := 1; n <= 12; n++ {
		add(fmt.Sprintf("parse-errors-%d", n), c05repeat(n, func(i int) string { return "x := := 1" }, "\n"))
		add(fmt.Sprintf("compile-errors-%d", n), c05repeat(n, func(i int) string { return fmt.Sprintf("y%d := undefinedName%d", i, i) }, "\n"))
	}
	for _, tok := range []string{"", "+", "(", "[", "{", ".", "...", ":=", "=", "func", "if", "for", "try", "catch", "finally", "throw", "return", "import", "import(", "param", "global", "var", "const", "?", ":", ",", "\"", "'", "`", "/*", "//", "0x", "1e", "1u", ".5", "'\\", "\"\\", "break", "continue", "else", "in", "true", "undefined", "&&", "&^=", "<<=", "!", "x.", "x[", "x(", "x ?", "x ? 1 :"} {
		add("last-token-"+tok, "x := 1\nx = "+tok)
		add("only-token-"+tok, tok)
	}
	return cs
}

func c05bigModuleSrc(n int) string {
	return c05repeat(n, func(i int) string { return fmt.Sprintf("v%d := %d", i, i) }, "\n") + "\nreturn v0"
}

func c05bigModuleMap(n int) *ugo.ModuleMap {
	mm := ugo.NewModuleMap()
	mm.AddSourceModule("big", []byte(c05bigModuleSrc(n)))
	return mm
}

// ---- mutation ----

func c05corpus() []string {
	out := append([]string{}, c02probes...)
	out = append(out, c04constProfile...)
	out = append(out, c10fixed...)
	for _, p := range c12probes {
		out = append(out, p.src)
	}
	out = append(out, "param (a, ...b)\nglobal (g1, g2)\nvar (x, y = 2)\nconst (\n  c1 = iota\n  c2\n)\nm := import(\"good\")\ns := \"str\\n\" + `raw` + 'c'\nf := 1.5e3 + 0x1F + 077 + 1u\narr := [1, 2][0:1]\nmm := {a: 1, \"b\": 2}\nmm.a += 1\nfor k, v in mm { x = k }\nfor i := 0; i < 3; i++ { if i == 1 { continue } else { break } }\ntry { throw error(\"x\") } catch e { y = e } finally { x = 1 }\nreturn a ? b : (x && y || !x)\n")
	return out
}

var c05tokens = []string{"x", "y", "f", "1", "0", "\"s\"", "'c'", "1.5", "2u", "+", "-", "*", "/", "%", "&", "|", "^", "<<", ">>", "&^", "+=", "&&", "||", "++", "--", "==", "<", ">", "=", "!", "!=", "<=", ">=", ":=", "...", "(", ")", "[", "]", "{", "}", ",", ".", ";", ":", "?", "\n",
	"break", "continue", "else", "for", "func", "if", "return", "true", "false", "in", "undefined", "import", "param", "global", "var", "const", "try", "catch", "finally", "throw", "iota", "len", "error"}

func c05mutate(c *core.Ctx, src string) []byte {
	r := c.Rng
	b := []byte(src)
	switch r.Intn(10) {
	case 0: // byte flip
		if len(b) > 0 {
			i := r.Intn(len(b))
			b[i] ^= 1 << uint(r.Intn(8))
		}
	case 1: // byte substitution by an interesting value
		if len(b) > 0 {
			b[r.Intn(len(b))] = []byte{0, 0xff, 0x80, '\n', '"', '\'', '`', '{', '}', '(', ')', '\\', 0xef, 0xc0}[r.Intn(14)]
		}
	case 2: // delete a span
		if len(b) > 2 {
			i := r.Intn(len(b) - 1)
			j := i + 1 + r.Intn(minInt(12, len(b)-i-1)+1)
			if j > len(b) {
				j = len(b)
			}
			b = append(append([]byte{}, b[:i]...), b[j:]...)
		}
	case 3: // duplicate a span
		if len(b) > 2 {
			i := r.Intn(len(b) - 1)
			j := i + 1 + r.Intn(minInt(20, len(b)-i-1)+1)
			if j > len(b) {
				j = len(b)
			}
			b = append(append(append([]byte{}, b[:j]...), b[i:j]...), b[j:]...)
		}
	case 4: // token swap / replace
		f := strings.Fields(src)
		if len(f) > 1 {
			i, j := r.Intn(len(f)), r.Intn(len(f))
			if r.Intn(2) == 0 {
				f[i], f[j] = f[j], f[i]
			} else {
				f[i] = c05tokens[r.Intn(len(c05tokens))]
			}
			b = []byte(strings.Join(f, " "))
		}
	case 5: // insert a token
		i := 0
		if len(b) > 0 {
			i = r.Intn(len(b))
		}
		b = append(append(append([]byte{}, b[:i]...), []byte(" "+c05tokens[r.Intn(len(c05tokens))]+" ")...), b[i:]...)
	case 6: // truncate
		if len(b) > 0 {
			b = b[:r.Intn(len(b))]
		}
	case 7: // insert NUL / BOM / invalid UTF-8
		i := 0
		if len(b) > 0 {
			i = r.Intn(len(b))
		}
		ins := [][]byte{{0}, {0xef, 0xbb, 0xbf}, {0xff, 0xfe}, {0xc3}, {0xe2, 0x80}, {0xf4, 0x90, 0x80, 0x80}, []byte("\r"), []byte(" ")}[r.Intn(8)]
		b = append(append(append([]byte{}, b[:i]...), ins...), b[i:]...)
	case 8: // digit run -> huge number
		s := string(b)
		if i := strings.IndexAny(s, "0123456789"); i >= 0 {
			b = []byte(s[:i] + []string{"99999999999999999999999", "1e999", "0x", "0xFFFFFFFFFFFFFFFFFF", "1_000", "08", "1..2", "18446744073709551616u", "'ab'"}[r.Intn(9)] + s[i+1:])
		}
	default: // brace imbalance
		s := string(b)
		old := []string{"{", "}", "(", ")", "[", "]"}[r.Intn(6)]
		if i := strings.Index(s, old); i >= 0 {
			b = []byte(s[:i] + s[i+1:])
		}
	}
	return b
}

func minInt(a, b int) int {
	if a < b {
		return a
	}
	return b
}

func (m c05) Run(c *core.Ctx) {
	options := c05options()
	byName := map[string]c05opt{}
	for _, o := range options {
		byName[o.name] = o
	}
	combos := c05comboOptions()
	for _, o := range combos {
		byName[o.name] = o
	}
	byName["reused-symtab"] = c05reusedSymtab()
	if c.Replay != nil {
		var w c05wit
		if json.Unmarshal(c.Replay, &w) == nil {
			in := []byte(w.Input)
			if w.Hex {
				in = nil
				fmt.Sscanf(w.Input, "%x", &in)
			}
			if o, ok := byName[w.Options]; ok {
				m.one(c, in, o, "replay")
			} else {
				for _, o := range options {
					m.one(c, in, o, "replay")
				}
			}
		}
		return
	}
	idx := 0
	// (1) boundary enumeration: every case under noopt + default, rotating the other options
	for bi, bc := range c05boundary() {
		idx++
		if idx%c.NBatch != c.Batch {
			continue
		}
		bc := bc
		if !c.Begin(func() string { return "boundary " + bc.name + "\n" + trunc(bc.src, 3000) }) {
			continue
		}
		use := []c05opt{byName["noopt"], byName["default"], options[2+bi%(len(options)-2)]}
		for _, o := range use {
			o := o
			if strings.HasPrefix(bc.name, "locals-module-") {
				var n int
				fmt.Sscanf(strings.TrimPrefix(bc.name, "locals-module-"), "%d", &n)
				base := o
				o = c05opt{name: base.name, mk: func() (ugo.CompilerOptions, bool) {
					op, _ := base.mk()
					op.ModuleMap = c05bigModuleMap(n)
					return op, false
				}}
			}
			m.one(c, []byte(bc.src), o, "boundary:"+bc.name)
		}
		c.Count("boundary_cases")
		c.Nontrivial("boundary " + bc.name)
	}
	// (1b) option combinations x probe programs and corpus programs
	corpus := c05corpus()
	for pi, src := range append(append([]string{}, c05comboProbes...), corpus...) {
		idx++
		if idx%c.NBatch != c.Batch {
			continue
		}
		src := src
		if !c.Begin(func() string { return "option combinations\n" + trunc(src, 3000) }) {
			continue
		}
		for _, o := range combos {
			m.one(c, []byte(src), o, "option-combination")
			c.Count("option_combinations")
		}
		m.one(c, []byte(src), byName["eval-session"], "option-combination")
		// convergence: the optimizer stops when a pass changes nothing, so on a small program the number of passes
		// does not depend on how large the budget is (a pass count that grows with the budget means Compile's running
		// time is proportional to OptimizerLimit, i.e. it does not terminate in practice for a large one)
		p1, ok1 := c05passes(src, 3000)
		p2, ok2 := c05passes(src, 9000)
		if ok1 && ok2 {
			c.Count("convergence_checks")
			if p1 != p2 {
				c.Violation("C05|optimizer-does-not-converge", fmt.Sprintf("the optimizer makes %d passes with budget 3000 and %d with budget 9000 on a %d-byte script", p1, p2, len(src)), c05wit{Options: "OptimizerLimit 3000 vs 9000, TraceOptimizer", Why: "pass count grows with the budget", Input: src})
			}
		}
		c.Nontrivial(fmt.Sprintf("combo %d", pi))
	}
	// (1c) names left behind in a re-used symbol table
	for _, src := range c05symtabProbes {
		idx++
		if idx%c.NBatch != c.Batch {
			continue
		}
		src := src
		if !c.Begin(func() string { return "re-used symbol table\n" + src }) {
			continue
		}
		m.one(c, []byte(src), byName["reused-symtab"], "symtab-probe")
		m.one(c, []byte(src), byName["eval-session"], "symtab-probe")
		c.Count("symtab_probes")
	}
	// (2) mutations of the corpus and of generated programs
	nmut := c.Pick(1500, 150000)
	g := gen.Opts{MaxStmts: 18, MaxDepth: 3, ExprDepth: 2, Try: 0.4, Throw: 0.1, Funcs: 0.6, Shadow: 0.2, BuiltinShadow: 0.05, Consts: 0.4, Globals: true, DeepRecursion: 5, Modules: 0}
	for i := 0; i < nmut; i++ {
		var seed string
		if c.Rng.Intn(3) == 0 {
			g.Modules = c.Rng.Intn(2) * 2
			seed = gen.Generate(c.Rng, g).Src
		} else {
			seed = corpus[c.Rng.Intn(len(corpus))]
		}
		in := []byte(seed)
		for k := 1 + c.Rng.Intn(3); k > 0; k-- {
			in = c05mutate(c, string(in))
		}
		if c.Rng.Intn(8) == 0 {
			other := corpus[c.Rng.Intn(len(corpus))]
			in = append(in[:c.Rng.Intn(len(in)+1)], other[c.Rng.Intn(len(other)+1):]...)
		}
		o := options[c.Rng.Intn(len(options))]
		if !c.Begin(func() string { return "mutation opt=" + o.name + "\n" + fmt.Sprintf("%q", trunc(string(in), 6000)) }) {
			continue
		}
		if m.one(c, in, o, "mutation") {
			c.Nontrivial(string(in))
		}
		c.Count("mutations")
		if i%701 == 0 {
			c.Sample(map[string]string{"kind": "mutation", "options": o.name, "input": trunc(string(in), 400)})
		}
	}
	// truncation at every 8th offset (every offset in thorough) of the corpus
	step := c.Pick(8, 1)
	for ci, seed := range corpus {
		idx++
		if idx%c.NBatch != c.Batch {
			continue
		}
		if !c.Begin(func() string { return fmt.Sprintf("truncations of corpus #%d", ci) }) {
			continue
		}
		for cut := 0; cut < len(seed); cut += step {
			if m.one(c, []byte(seed[:cut]), options[(cut/step)%2], "truncation") {
				c.Nontrivial(fmt.Sprintf("trunc %d/%d", ci, cut))
			}
			c.Count("truncations")
		}
	}
	// (3) random byte strings and token strings
	nrand := c.Pick(800, 80000)
	for i := 0; i < nrand; i++ {
		var in []byte
		maxLen := c.Pick(400, 4000)
		if c.Rng.Intn(2) == 0 {
			n := c.Rng.Intn(maxLen)
			in = make([]byte, n)
			for j := range in {
				if c.Rng.Intn(4) == 0 {
					in[j] = byte(c.Rng.Intn(256))
				} else {
					in[j] = byte(32 + c.Rng.Intn(95))
				}
			}
		} else {
			var sb strings.Builder
			for k := c.Rng.Intn(maxLen / 4); k > 0; k-- {
				sb.WriteString(c05tokens[c.Rng.Intn(len(c05tokens))])
				sb.WriteString([]string{" ", "", "\n"}[c.Rng.Intn(3)])
			}
			in = []byte(sb.String())
		}
		o := options[c.Rng.Intn(len(options))]
		if !c.Begin(func() string { return "random opt=" + o.name + "\n" + fmt.Sprintf("%q", trunc(string(in), 6000)) }) {
			continue
		}
		if m.one(c, in, o, "random") {
			c.Nontrivial(string(in))
		}
		c.Count("random_inputs")
	}
}
