package props

import (
	"math/rand"
	"testing"

	"verif/internal/gen"
)

func TestGenCompiles(t *testing.T) {
	r := rand.New(rand.NewSource(5))
	bad := 0
	for i := 0; i < 300; i++ {
		gp := gen.Generate(r, c02opts())
		p := fromGen(gp)
		cr := compileProgram(p, -1)
		if cr.err != nil {
			bad++
			if bad <= 2 {
				t.Logf("compile error: %v\n%s", cr.err, p.Src)
			}
		}
	}
	t.Logf("bad=%d", bad)
}
