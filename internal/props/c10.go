package props

import (
	"context"
	"encoding/json"
	"fmt"
	"runtime/debug"
	"strings"
	"time"

	"github.com/ozanh/ugo"
	"github.com/ozanh/ugo/parser"

	"verif/internal/canon"
	"verif/internal/core"
	"verif/internal/gen"
	"verif/internal/ref"
)

// C10 — evaluating fragments one by one equals evaluating them as one script.
type c10 struct{}

func init() { core.Register(c10{}) }

func (c10) ID() string    { return "C10" }
func (c10) Level() string { return "exploration" }
func (c10) Race() bool    { return false }
func (c10) Rule() string {
	return "a generated script of top-level statements (declarations of every kind, closures capturing earlier names and later assignments to them, blocks re-using slots, const/iota groups, imports of source and builtin modules, try statements, " +
		"no top-level return before the last statement) is cut into consecutive fragments: ALL 2^(n-1) cuttings for n<=7 top-level statements, 48 seeded cuttings above; each cutting is fed to one Eval session and, for every prefix, " +
		"a FRESH Eval evaluates the concatenation; per fragment the result value or error (name+message), cumulative event log and globals must be equal up to and including the first failing fragment; " +
		"three compiler option sets (optimizer off, default, OptimizerLimit 2). non-trivial = >=2 fragments and a name declared in one fragment is used in a later one (from the AST); distinct by (source hash, cut mask)"
}
func (c10) Batches(string) int { return 32 }
func (c10) Required(string) []string {
	return []string{"sessions", "fragments_compared", "exhaustive_cut_scripts", "cross_fragment_name_use", "tag.funcdef", "tag.assign-captured", "tag.const", "tag.import", "tag.try", "opts.noopt", "opts.limit2", "fragment_errors_compared", "nil_globals_sessions"}
}
func (c10) Assumptions() []string {
	return []string{"a fresh Eval of the concatenation is the reference (both sides use Eval, so the 'last expression value' convention is identical)", "error positions are not compared (line numbers legitimately differ)"}
}

type c10wit struct {
	Fragments []string          `json:"fragments"`
	Modules   map[string]string `json:"modules,omitempty"`
	Builtin   []string          `json:"builtin_modules,omitempty"`
	Opts      string            `json:"opts"`
	At        int               `json:"fragment_index"`
	Why       string            `json:"why"`
	Session   any               `json:"session"`
	Fresh     any               `json:"fresh_eval_of_concatenation"`
}

type c10res struct {
	// CompileErr: the fragment (or the concatenation) was rejected before running anything.
	CompileErr bool `json:"compile_error,omitempty"`
	// LastIsExpr: the evaluated text ends with an expression statement (its value is the result).
	LastIsExpr bool   `json:"last_is_expr"`
	Kind       string `json:"kind"`
	Val        string `json:"val,omitempty"`
	Err        string `json:"err,omitempty"`
	Log        string `json:"log"`
	G          string `json:"globals"`
}

func (r c10res) key() string {
	if r.CompileErr {
		// static rejection: nothing ran on the concatenation side, only the error is comparable
		return "compile-error|" + r.Err
	}
	v := r.Val
	if !r.LastIsExpr {
		v = "(value of a non-expression last statement is not specified)"
	}
	return r.Kind + "|" + v + "|" + r.Err + "|" + r.Log + "|" + r.G
}

func c10opts(kind string, mm *ugo.ModuleMap) ugo.CompilerOptions {
	o := ugo.CompilerOptions{ModuleMap: mm}
	switch kind {
	case "noopt":
		o.NoOptimize = true
	case "limit2":
		o.OptimizerLimit = 2
	}
	return o
}

var posRe = strings.NewReplacer()

func c10errString(err error) string {
	// compile and parse errors carry positions: keep only the first line and strip "at ..." parts
	n, m := canon.ErrParts(err)
	if n == "go" {
		s := err.Error()
		if i := strings.Index(s, "\n"); i >= 0 {
			s = s[:i]
		}
		return "go:" + s
	}
	return n + ":" + m
}

type c10session struct {
	ev  *ugo.Eval
	rec *canon.Recorder
	g   ugo.Map
}

func newC10session(kind string, mm *ugo.ModuleMap) *c10session {
	rec := &canon.Recorder{}
	if strings.HasSuffix(kind, "+nilglobals") {
		// the host passes no globals map: the session itself has to keep one for all its fragments
		return &c10session{ev: ugo.NewEval(c10opts(strings.TrimSuffix(kind, "+nilglobals"), mm), nil), rec: rec, g: nil}
	}
	g := ugo.Map{"L": rec.Func(), "G": ugo.Int(3)}
	return &c10session{ev: ugo.NewEval(c10opts(kind, mm), g), rec: rec, g: g}
}

// c10timeouts counts fragment evaluations of this worker that had to be cancelled
var c10timeouts int

// c10confirming: a one-sided timeout is being re-checked
var c10confirming bool

func (s *c10session) run(frag string) (r c10res, pan string) {
	defer func() {
		if p := recover(); p != nil {
			pan = fmt.Sprint(p) + "|" + stackTopRepo(string(debug.Stack()))
		}
	}()
	// generated fragments terminate in milliseconds; the deadline only keeps a fragment whose code was damaged into an
	// endless loop from stalling the whole batch (judged as its own outcome kind, see checkCutting)
	ctx, cancel := context.WithTimeout(context.Background(), 10*time.Second)
	defer cancel()
	v, bc, err := s.ev.Run(ctx, []byte(frag))
	r.LastIsExpr = lastIsExprStmt(frag)
	if err != nil && ctx.Err() != nil {
		r.Kind = "timeout"
		c10timeouts++
	} else if err != nil {
		r.Kind = "error"
		r.Err = c10errString(err)
		r.CompileErr = bc == nil
		if r.CompileErr {
			// drop positions: "\n\tat (main):4:9"
			// multiple optimizer errors: "wrapped:X:N errors occurred:\n\t* first ...": the count depends on the
			// number of optimizer passes, keep only the first error's text
			if i := strings.Index(r.Err, " errors occurred:\n\t* "); i >= 0 {
				r.Err = "multi:" + r.Err[i+len(" errors occurred:\n\t* "):]
			}
			if i := strings.Index(r.Err, "\n"); i >= 0 {
				r.Err = r.Err[:i]
			}
			r.Err = strings.TrimPrefix(r.Err, "multi:")
			if i := strings.Index(r.Err, "Optimizer Error: "); i >= 0 {
				r.Err = r.Err[i:]
			}
		}
	} else {
		r.Kind = "value"
		r.Val = canon.Value(v)
	}
	r.Log = s.rec.String()
	r.G = canon.Value(s.g)
	return
}

func lastIsExprStmt(src string) bool {
	f, err := ref.Parse("f", []byte(src))
	if err != nil || len(f.Stmts) == 0 {
		return false
	}
	_, ok := f.Stmts[len(f.Stmts)-1].(*parser.ExprStmt)
	return ok
}

// topLevelStatements slices src into its top-level statements.
func topLevelStatements(src string) ([]string, []*stmtInfo) {
	f, err := ref.Parse("f", []byte(src))
	if err != nil {
		return nil, nil
	}
	base := int(f.InputFile.Base)
	var out []string
	var infos []*stmtInfo
	for _, s := range f.Stmts {
		st, en := int(s.Pos())-base, int(s.End())-base
		if st < 0 || en > len(src) || st >= en {
			return nil, nil
		}
		out = append(out, src[st:en])
		infos = append(infos, analyseStmt(s))
	}
	return out, infos
}

type stmtInfo struct {
	declares map[string]bool
	uses     map[string]bool
}

func analyseStmt(s parser.Stmt) *stmtInfo {
	si := &stmtInfo{declares: map[string]bool{}, uses: map[string]bool{}}
	// top-level declarations of this statement
	switch n := s.(type) {
	case *parser.AssignStmt:
		if n.Token.String() == ":=" {
			for _, l := range n.LHS {
				if id, ok := l.(*parser.Ident); ok {
					si.declares[id.Name] = true
				}
			}
		}
	case *parser.DeclStmt:
		if gd, ok := n.Decl.(*parser.GenDecl); ok {
			for _, sp := range gd.Specs {
				switch v := sp.(type) {
				case *parser.ValueSpec:
					for _, id := range v.Idents {
						si.declares[id.Name] = true
					}
				case *parser.ParamSpec:
					si.declares[v.Ident.Name] = true
				}
			}
		}
	}
	ref.Walk(s, func(n parser.Node) bool {
		if id, ok := n.(*parser.Ident); ok {
			si.uses[id.Name] = true
		}
		return true
	})
	return si
}

func (m c10) checkCutting(c *core.Ctx, stmts []string, infos []*stmtInfo, mask uint64, modules map[string]string, builtin []string, optKind string) (nontrivial bool) {
	if c10timeouts >= 3 {
		c.Count("skipped_after_timeouts")
		return false
	}
	// build fragments
	var frags []string
	var fragIdx [][]int
	cur := []string{stmts[0]}
	curIdx := []int{0}
	for i := 1; i < len(stmts); i++ {
		if mask&(1<<uint(i-1)) != 0 {
			frags = append(frags, strings.Join(cur, "\n"))
			fragIdx = append(fragIdx, curIdx)
			cur, curIdx = nil, nil
		}
		cur = append(cur, stmts[i])
		curIdx = append(curIdx, i)
	}
	frags = append(frags, strings.Join(cur, "\n"))
	fragIdx = append(fragIdx, curIdx)

	p := &Program{Modules: modules, Builtin: builtin}
	sess := newC10session(optKind, moduleMapFor(p))
	c.Count("sessions")
	c.Count("opts." + optKind)
	for i, fr := range frags {
		sr, span := sess.run(fr)
		fresh := newC10session(optKind, moduleMapFor(p))
		fr2, fpan := fresh.run(strings.Join(frags[:i+1], "\n"))
		wit := func(why string) c10wit {
			return c10wit{Fragments: frags, Modules: modules, Builtin: builtin, Opts: optKind, At: i, Why: why, Session: sr, Fresh: fr2}
		}
		if span != "" || fpan != "" {
			c.Violation("C10|panic|"+core.NormMsg(span+fpan), "Eval.Run panics: "+span+fpan, wit("panic"))
			return
		}
		if sr.Kind == "timeout" || fr2.Kind == "timeout" {
			if sr.Kind != fr2.Kind && !c10confirming {
				// confirm by evaluating the whole cutting once more before calling it non-termination
				c10confirming = true
				c10timeouts--
				defer func() { c10confirming = false }()
				return m.checkCutting(c, stmts, infos, mask, modules, builtin, optKind)
			}
			if sr.Kind != fr2.Kind {
				c.Violation("C10|diff|nontermination|"+optKind+"|"+fmt.Sprintf("%x", hashStr(strings.Join(frags, "\x00"))), "fragment "+fmt.Sprint(i)+" does not terminate on one side only (cancelled after 10 s)", wit("does not terminate on one side only"))
			} else {
				c.Inconclusive("fragment cancelled after 10 s on both sides")
			}
			return
		}
		c.Count("fragments_compared")
		if sr.Kind == "error" {
			c.Count("fragment_errors_compared")
		}
		if sr.CompileErr != fr2.CompileErr {
			// the session's fragment failed statically but the concatenation did not (or vice versa)
			refusal := sr
			if fr2.CompileErr {
				refusal = fr2
			}
			if optKind != "noopt" && strings.Contains(refusal.Err, "Optimizer Error") {
				// Not a C10 difference: the optimizer may refuse a script by reporting the runtime error of one of its
				// constant sub-expressions (C01), and whether it gets that far depends on the per-compilation optimizer
				// budget, which a fragment and the whole script spend differently (and on constants declared by earlier
				// fragments, whose values only the whole script's optimizer sees). The cutting is judged without the
				// optimizer instead, where no refusal exists.
				c.Count("optimizer_refusal_on_one_side_rechecked_noopt")
				return m.checkCutting(c, stmts, infos, mask, modules, builtin, "noopt")
			}
			c.Violation("C10|diff|compile-vs-run|"+optKind+"|"+fmt.Sprintf("%x", hashStr(strings.Join(frags, "\x00"))), "fragment "+fmt.Sprint(i)+" is rejected at compile time on one side only", wit("compile error on one side only"))
			return
		}
		if sr.Kind == "value" && !sr.LastIsExpr && sr.Val != fr2.Val {
			c.Count("value_of_nonexpression_last_statement_differs_not_judged")
		}
		if sr.key() != fr2.key() {
			why := "value"
			switch {
			case sr.Kind != fr2.Kind:
				why = "kind " + fr2.Kind + " vs session " + sr.Kind
			case sr.Err != fr2.Err:
				why = "error"
			case sr.Log != fr2.Log:
				why = "event log"
			case sr.G != fr2.G:
				why = "globals"
			}
			c.Violation("C10|diff|"+strings.SplitN(why, " ", 2)[0]+"|"+optKind+"|"+fmt.Sprintf("%x", hashStr(strings.Join(frags, "\x00"))), "fragment "+fmt.Sprint(i)+" of the session differs from a fresh Eval of the concatenation ("+why+")", wit(why))
			return
		}
		if sr.Kind == "error" {
			break // only up to and including the first failing fragment
		}
	}
	// non-triviality: a name declared in one fragment used in a later fragment
	if len(frags) >= 2 {
		declIn := map[string]int{}
		for fi, idxs := range fragIdx {
			for _, si := range idxs {
				for n := range infos[si].declares {
					if _, ok := declIn[n]; !ok {
						declIn[n] = fi
					}
				}
			}
		}
		for fi, idxs := range fragIdx {
			for _, si := range idxs {
				for n := range infos[si].uses {
					if d, ok := declIn[n]; ok && d < fi {
						nontrivial = true
					}
				}
			}
		}
	}
	if nontrivial {
		c.Count("cross_fragment_name_use")
	}
	return
}

func hashStr(s string) uint64 {
	var h uint64 = 1469598103934665603
	for i := 0; i < len(s); i++ {
		h ^= uint64(s[i])
		h *= 1099511628211
	}
	return h
}

var c10fixed = []string{
	"global L\nx := 1\nf := func() { x++; return x }\nf()\nx = 10\nf()\nx",
	"global L\nconst (\n  a = iota\n  b\n  c\n)\nconst k = 7\ny := a + b + c + k\nif y > 0 {\n  z := y * 2\n  L(z)\n}\nw := 5\nvar v\nL(v)\n[y, w, v]",
	"global L\nm := import(\"mod0\")\nm.bump(2)\nn := import(\"mod0\")\nL(n.get())\nm.bump(1) + n.get()",
	"global L\nvar cnt = 0\ninc := func() { cnt += 1; return cnt }\ntry {\n  inc()\n  throw \"x\"\n} catch e {\n  L(e.Message)\n} finally {\n  inc()\n}\ninc()\ncnt",
	"global L\na, b := [1, 2]\nb, c := [3, 4]\nfs := []\nfor i := 0; i < 2; i++ {\n  fs = append(fs, func() { return i + a })\n}\na = 100\n[fs[0](), fs[1](), b, c]",
	"global (L, G)\nG = G + 1\nglobal H\nH = G * 2\nq := func() { return H + G }\nG = 0\nq()",
	"global L\na := -0.0\nb := 0.0\nstring(b)\nc := 0.0 * -1.0\n[string(a), string(b), string(c), 1 / 2.0]",
	"global L\nf := 1.5\ng := 1.5\nh := 15u\ni := 15\nj := 'a'\nk := 97\n[f, g, h, i, j, k, typeName(h), typeName(j)]",
	// literal constants of an earlier fragment whose names are re-used for parameters, block locals, loop and catch variables later
	"global L\nconst n = 10\nconst s = \"c\"\ndouble := func(n) { return n * 2 }\nblk := func() {\n  if true {\n    n := 3\n    return n + 1\n  }\n  return 0\n}\nloopsum := func() {\n  t := 0\n  for n in [1, 2] {\n    t += n\n  }\n  return t\n}\ncatcher := func() {\n  try {\n    throw \"x\"\n  } catch s {\n    return s.Message\n  }\n  return 0\n}\n[double(4), blk(), loopsum(), catcher(), n, s]",
	"global L\nconst (\n  a = iota\n  b\n  c\n)\nf := func(a, ...c) { return [a, b, c] }\ng := func() {\n  b := \"inner\"\n  return func() { return [a, b, c] }\n}\n[f(7, 8), g()(), a + b + c]",
	"global L\nconst k = 2\nx := 5\nif x > k {\n  k := 100\n  L(k + x)\n}\nfor k := 0; k < 2; k++ {\n  L(k)\n}\nh := func(x) { return x * k }\n[h(3), k]",
	// top-level param declarations together with other top-level names
	"global L\nparam p\nn := 10\nf := func() { return [n, p] }\nf()\nm := 2\n[n, m, f(), p]",
	"global L\nparam (a, ...rest)\nx := [a, rest]\ng := func() { x = append(x, len(rest)); return x }\ng()\nconst k = 3\ny := k + len(x)\n[x, y, g()]",
	"global L\nv := 1\nparam q\nh := func() { v++; return [v, q] }\nh()\nw := h()\n[v, w]",
	"global L\nx := 1\nx := 2\nx",
	"global L\nx := 1\ny := x / 0\nz := 5\nz",
}

// c10shadowScripts: a builtin is first used (with a non-constant argument, so the use reaches the compiler), then its
// name is re-declared at top level in every declaration form, then the name is used with constant arguments (which the
// optimizer would fold if it still believed the name to be the builtin).
func c10shadowScripts() []string {
	var out []string
	type bi struct{ name, pre, constCall string }
	bis := []bi{
		{"len", "len(a)", "len(\"abc\")"}, {"int", "int(a[0])", "int(\"12\")"}, {"string", "string(a[1])", "string(77)"},
		{"typeName", "typeName(a)", "typeName(1)"}, {"isInt", "isInt(a[2])", "isInt(5)"}, {"char", "char(a[0] + 64)", "char(66)"},
		{"uint", "uint(a[2])", "uint(3)"}, {"bool", "bool(a[0])", "bool(0)"}, {"float", "float(a[1])", "float(2)"},
	}
	for _, b := range bis {
		decls := []string{
			b.name + " := func(...s) { return 42 }",
			"var " + b.name + " = func(...s) { return 43 }",
			"const " + b.name + " = func(...s) { return 44 }",
			b.name + ", q := [func(...s) { return 45 }, 1]",
			"var (\n  q = 1\n  " + b.name + " = func(...s) { return 46 }\n)",
		}
		for _, d := range decls {
			out = append(out, "global L\na := [1, 2, 3]\nn := "+b.pre+"\n"+d+"\nm := "+b.constCall+"\n["+"n, m, "+b.constCall+"]")
			// the re-declaration happens inside a block / function: the top-level name stays the builtin
			out = append(out, "global L\na := [1, 2, 3]\nn := "+b.pre+"\nf := func() {\n  "+strings.ReplaceAll(d, "\n", "\n  ")+"\n  return "+b.constCall+"\n}\nm := "+b.constCall+"\n[n, m, f(), "+b.constCall+"]")
			// no earlier use
			out = append(out, "global L\n"+d+"\nm := "+b.constCall+"\n[m, "+b.constCall+"]")
		}
		// a value, not a function: the later fragment reads the variable
		out = append(out, "global L\na := [1, 2, 3]\nn := "+b.pre+"\n"+b.name+" := 7\nm := "+b.name+" + 1\n[n, m, "+b.name+"]")
		out = append(out, "global L\na := [1, 2, 3]\nn := "+b.pre+"\nparam_like := 1\nglobal "+b.name+"\n"+b.name+" = 9\n[n, "+b.name+"]")
	}
	return out
}

func (m c10) Run(c *core.Ctx) {
	optKinds := []string{"noopt", "default", "limit2"}
	if c.Replay != nil {
		var w c10wit
		if json.Unmarshal(c.Replay, &w) == nil && len(w.Fragments) > 0 {
			// replay the exact cutting: treat each fragment as one "statement"
			infos := make([]*stmtInfo, len(w.Fragments))
			for i := range infos {
				infos[i] = &stmtInfo{declares: map[string]bool{}, uses: map[string]bool{}}
			}
			m.checkCutting(c, w.Fragments, infos, (1<<uint(len(w.Fragments)-1))-1, w.Modules, w.Builtin, w.Opts)
		}
		return
	}
	mod0 := map[string]string{"mod0": "global L\nstate := 1\nL(\"mod0-body\")\nreturn {bump: func(d) { state += d; return state }, get: func() { return state }}\n"}
	run := func(src string, modules map[string]string, builtin []string, tags []string, sample bool) {
		stmts, infos := topLevelStatements(src)
		if len(stmts) < 2 {
			c.Count("discarded_unparsable_or_short")
			return
		}
		n := len(stmts)
		var masks []uint64
		if n <= 7 {
			for mk := uint64(0); mk < 1<<uint(n-1); mk++ {
				masks = append(masks, mk)
			}
			c.Count("exhaustive_cut_scripts")
		} else {
			masks = append(masks, 0, (1<<uint(n-1))-1)
			for k := 0; k < 46; k++ {
				masks = append(masks, c.Rng.Uint64()&((1<<uint(n-1))-1))
			}
			c.Count("sampled_cut_scripts")
		}
		ok := 0
		for _, mk := range masks {
			kind := optKinds[int(mk+uint64(n))%3]
			if m.checkCutting(c, stmts, infos, mk, modules, builtin, kind) {
				c.Nontrivial(fmt.Sprintf("%x/%x", hashStr(src), mk))
				ok++
			}
		}
		for _, t := range tags {
			c.Count("tag." + t)
		}
		if sample {
			c.Sample(map[string]any{"statements": stmts, "cuttings": len(masks)})
		}
	}
	idx := 0
	for _, src := range append(append([]string{}, c10fixed...), c10shadowScripts()...) {
		idx++
		if idx%c.NBatch != c.Batch {
			continue
		}
		src := src
		if !c.Begin(func() string { return src }) {
			continue
		}
		run(src, mod0, nil, []string{"fixed"}, false)
	}
	// sessions created without a globals map
	for _, src := range []string{
		"global counter\ncounter = 41\ninc := func() { counter++; return counter }\ninc()\n[counter, globals()[\"counter\"]]",
		"global (a, b)\na = [1]\nf := func() { b = a; a = append(a, 2); return len(a) }\nf()\nglobals().c = 7\nglobal c\n[a, b, c, f()]",
		"x := 1\nglobal g\ng = x\nx = 2\ng2 := func() { return [g, x] }\ng = 5\ng2()",
	} {
		idx++
		if idx%c.NBatch != c.Batch {
			continue
		}
		src := src
		if !c.Begin(func() string { return "nil-globals session\n" + src }) {
			continue
		}
		stmts, infos := topLevelStatements(src)
		if len(stmts) < 2 {
			c.Inconclusive("nil-globals script does not parse")
			continue
		}
		for mk := uint64(0); mk < 1<<uint(len(stmts)-1); mk++ {
			for _, k := range optKinds {
				if m.checkCutting(c, stmts, infos, mk, nil, nil, k+"+nilglobals") {
					c.Nontrivial(fmt.Sprintf("nilglobals %x/%x/%s", hashStr(src), mk, k))
				}
				c.Count("nil_globals_sessions")
			}
		}
	}
	nprog := c.Pick(40, 1500)
	o := gen.Opts{MaxStmts: 14, MaxDepth: 3, ExprDepth: 2, Try: 0.5, Throw: 0.1, Funcs: 0.9, Shadow: 0.2, LogProb: 0.2, Consts: 0.3, Globals: true,
		DeepRecursion: 10, Faults: 0.004, NoTopReturn: true}
	for i := 0; i < nprog; i++ {
		o.MaxStmts = 4 + c.Rng.Intn(8)
		o.BuiltinShadow = 0
		if c.Rng.Intn(3) == 0 {
			o.BuiltinShadow = 0.2
		}
		o.Modules = 0
		if c.Rng.Intn(2) == 0 {
			o.Modules = 1 + c.Rng.Intn(2)
		}
		o.BuiltinMods = nil
		if c.Rng.Intn(4) == 0 {
			o.BuiltinMods = []string{"strings"}
		}
		gp := gen.Generate(c.Rng, o)
		src := gp.Src
		// the final `return [...]` of the generator becomes the probe expression of the last fragment
		if i := strings.LastIndex(src, "\nreturn ["); i >= 0 {
			src = src[:i+1] + src[i+len("\nreturn "):]
		}
		if !c.Begin(func() string { return src }) {
			continue
		}
		run(src, gp.Modules, gp.Builtin, gp.TagList(), i%17 == 0)
	}
}
