package props

import (
	"bufio"
	"encoding/json"
	"errors"
	"fmt"
	"io"
	"math"
	"os"
	"path/filepath"
	"regexp"
	"runtime/debug"
	"runtime/metrics"
	"sort"
	"strconv"
	"strings"
	"syscall"
	"time"

	"github.com/ozanh/ugo"
	ugofmt "github.com/ozanh/ugo/stdlib/fmt"
	ugojson "github.com/ozanh/ugo/stdlib/json"
	ugostrings "github.com/ozanh/ugo/stdlib/strings"
	ugotime "github.com/ozanh/ugo/stdlib/time"

	"verif/internal/core"
)

// C19 — builtin and standard-library functions are total over their arguments.
//
// Every exported callable (public builtins, X.New of the builtin error values and of script
// errors, every function of the fmt/json/strings/time module maps, every *Time method through
// CallName and through IndexGet-then-call, *Location selectors) is called with every argument
// tuple drawn from a boundary pool, on three routes:
//
//	a  direct Go call without a VM: fn.Call(args...) / CallName(name, NewCall(nil,args))
//	b  CallEx(NewCall(vm,args)) / CallName(name, NewCall(vm,args)) executed inside a Go callback
//	   of a running script, so vm is live (globals, pool, constants)
//	c  a compiled script (`return repeat(a0,a1)`, `m := import("strings"); return m.Repeat(a0,a1)`,
//	   `return t.Add(a0)`, `f := t.Add; return f(a0)`, `return e.New(a0)`) on a VM WITHOUT
//	   SetRecover; the harness recovers.
//
// Oracle: the call returns (non-nil Object, nil) or (_, non-nil error). A Go panic, a process
// crash (attributed by the parent through the pre-logged case), a (nil, nil) result or more than
// 1 GiB allocated by one call are violations.
//
// Deliberately not flagged
//   - a panic whose message carries the marker of the pool's own panicking callable: the callee
//     merely propagated the host callback's panic (counted pool_panic_propagated).
//   - time.Sleep with a duration above 5 ms is not executed (blocking is its contract); counted.
//   - the "gray zone" of size requests: repeat / strings.Repeat / strings.PadLeft / PadRight whose
//     requested result is above 256 MiB but below 2^40 bytes are not executed (counted
//     gray_zone_skipped): whether a multi-gigabyte allocation succeeds depends on the machine and
//     on RLIMIT_AS, so neither outcome is a verdict. Requests >= 2^40 bytes (or overflowing) can
//     never be honoured and must produce an error (counted absurd_size_requests).
//   - IndexGet(name) on a *Time followed by a call: the selector yields the getter's value or
//     undefined, never a callable, so the call yields NotCallableError: an error, i.e. within the
//     property.
//
// Bookkeeping that is not a verdict
//   - tuples holding an integer >= 2^40 ("risky") are pre-announced in a per-batch state log kept in
//     the parent's run directory. After a (callable, route, type/magnitude signature) has killed the
//     child once, later cases of the same signature - and every risky case of that callable and route
//     after 4 such deaths - are skipped in that batch (counted skipped_after_crash_or_hang), so one
//     defect costs a bounded number of child restarts. The first death is reported by the parent.
//   - violations found by a child that dies later would be lost with its result file; they are kept in
//     the state log and reported again by the successor (violations_carried_over_child_restart).
//     Counters of dead children ARE lost: on a tree with crashing defects the evidence counters cover
//     only the last child of each batch.
//
// The one wall-clock element: a risky tuple runs on its own goroutine with a 10 s deadline. Such a
// call is either rejected or returns a trivial result within microseconds; if it is still running after
// 10 s it has started a >= 2^40-step loop (builtin repeat([], 2^40) does). Go code cannot be
// interrupted, so the worker child prints "fatal error: C19 hang: <callable> ..." and exits; the parent
// attributes that to the pre-logged case like any other child death. No other case is timed.
type c19 struct{}

func init() { core.Register(c19{}) }

func (c19) ID() string    { return "C19" }
func (c19) Level() string { return "exploration" }
func (c19) Race() bool    { return false }
func (c19) Rule() string {
	return "callables = every public function of ugo.BuiltinObjects (not :makeArray), X.New of the 10 builtin error values, of a plain error and of a script RuntimeError, " +
		"every function value of the fmt/json/strings/time module maps, 33 *Time selector names x {CallName, IndexGet-then-call} x 2 receivers, *Location selectors; " +
		"arguments = tuples over a 58-value boundary pool (undefined, bools, ints 0..MaxInt64/MinInt64 incl. 2^31 2^40 2^62, uints, floats incl. NaN/Inf/1e300/2^40, chars, 10 strings incl. invalid UTF-8, layouts, a decimal 2^40 and a 1 KiB string, " +
		"bytes, arrays incl. nested and 1000 elements, maps, syncMap, error, time, location, 5 callables (builtin, Go function, compiled function, erroring, panicking), scanArg, rawMessage, encoderOptions); " +
		"lengths 0..2 exhaustive (quick and thorough); thorough adds length 3 exhaustive for callables whose arity admits 3 arguments (probed), sampled length 3 otherwise, sampled length 4 and 5..8 where admitted; " +
		"each (callable, tuple) runs on 3 routes (+ route d: arguments split between normal and variadic, + route e: CallEx WITHOUT a VM for callables with an extended entry point) (direct Go call without VM; CallEx/CallName with a live VM inside a Go callback of a running script; compiled script on a VM without recovery). " +
		"Oracle: (non-nil Object, nil) or (_, error); no panic, no crash, no (nil,nil), <= 1 GiB allocated per call, a call with a size argument >= 2^40 returns within 10 s. " +
		"Not executed and counted: Sleep > 5 ms; size requests between 256 MiB and 2^40 bytes (machine dependent). " +
		"non-trivial = tuple contains a boundary value (huge/negative/empty/special/callable/container) or the call was rejected with an error; distinct by (callable, tuple type signature, magnitude classes)"
}
func (c19) Batches(tier string) int {
	if tier == "thorough" {
		return 64
	}
	return 16
}
func (c19) Required(tier string) []string {
	r := []string{"calls_route_a", "calls_route_b", "calls_route_c", "calls_route_e", "outcome_value", "outcome_error",
		"err_wrong_num_args", "err_type", "err_not_callable", "err_other",
		"family_builtin", "family_error_new", "family_strings", "family_fmt", "family_json", "family_time",
		"family_time_method_callname", "family_time_method_indexget", "family_location",
		"value_builtin", "value_error_new", "value_strings", "value_fmt", "value_json", "value_time", "value_time_method_callname",
		"len0", "len1", "len2", "sleep_executed", "sleep_over_10ms_executed", "sleep_skipped_over_5ms", "callback_invoked_by_callee", "callables"}
	if tier == "thorough" {
		r = append(r, "len3", "len4", "len5to8")
	}
	return r
}
func (c19) Assumptions() []string {
	return []string{
		"the *Time method list is the one documented in stdlib/time/time.go (methodTable is private and cannot be enumerated)",
		"runtime/metrics /gc/heap/allocs:bytes accounts large allocations at once",
		"Go's recover() catches every panic raised on the calling goroutine; unrecoverable fatal errors are attributed by the parent from the pre-logged case",
		"the 'requested size' estimate used only to skip the 256 MiB..2^40 gray zone of repeat/Repeat/PadLeft/PadRight",
		"a call holding a size argument >= 2^40 that has not returned after 10 s will not return in useful time (hang verdict; every such call that is rejected or honoured returns within microseconds)",
	}
}

const c19marker = "C19-POOL-CALLABLE-PANIC-MARKER"

// ---------------------------------------------------------------------------------------------
// pool

type c19val struct {
	label string
	typ   string
	mag   string            // magnitude / boundary class ("" = plain)
	v     ugo.Object        // immutable values
	mk    func() ugo.Object // mutable values: fresh per call
	huge  int64             // >= 2^40 for "absurd size" ints (0 otherwise)
}

func (p *c19val) get() ugo.Object {
	if p.mk != nil {
		return p.mk()
	}
	return p.v
}

type c19env struct {
	pool     []c19val
	compiled ugo.Object // compiled function returned by a script
	rtErr    ugo.Object // *ugo.RuntimeError produced by a script
	cbCount  *int64
}

func c19kib() string { return strings.Repeat("abc ", 256) }

func c19bigArray() ugo.Object {
	a := make(ugo.Array, 1000)
	for i := range a {
		a[i] = ugo.Int((i * 7919) % 1000)
	}
	return a
}

func c19buildEnv() (*c19env, error) {
	env := &c19env{cbCount: new(int64)}
	// compiled function and runtime error come from real script runs
	bc, err := ugo.Compile([]byte(`return func(...a) { return len(a) }`), ugo.CompilerOptions{})
	if err != nil {
		return nil, err
	}
	cf, err := ugo.NewVM(bc).Run(nil)
	if err != nil {
		return nil, err
	}
	if _, ok := cf.(*ugo.CompiledFunction); !ok {
		return nil, fmt.Errorf("script did not return a compiled function: %T", cf)
	}
	env.compiled = cf
	bc, err = ugo.Compile([]byte(`param a; try { return 1 / a } catch e { return e }`), ugo.CompilerOptions{})
	if err != nil {
		return nil, err
	}
	re, err := ugo.NewVM(bc).Run(nil, ugo.Int(0))
	if err != nil {
		return nil, err
	}
	if _, ok := re.(*ugo.RuntimeError); !ok {
		return nil, fmt.Errorf("script did not return a runtime error: %T", re)
	}
	env.rtErr = re

	var p []c19val
	imm := func(label, mag string, v ugo.Object) {
		p = append(p, c19val{label: label, typ: v.TypeName(), mag: mag, v: v})
	}
	mut := func(label, mag string, mk func() ugo.Object) {
		p = append(p, c19val{label: label, typ: mk().TypeName(), mag: mag, mk: mk})
	}
	imm("undefined", "undef", ugo.Undefined)
	imm("true", "", ugo.True)
	imm("false", "", ugo.False)
	for _, i := range []int64{0, 1, -1, 2, 255, 256, 65536, 1 << 31, 1 << 40, 1 << 62, math.MaxInt64, math.MinInt64} {
		mag := ""
		switch {
		case i == 0:
			mag = "zero"
		case i < 0:
			mag = "neg"
		case i >= 1<<40:
			mag = "huge"
		case i >= 65536:
			mag = "big"
		}
		p = append(p, c19val{label: "int:" + strconv.FormatInt(i, 10), typ: "int", mag: mag, v: ugo.Int(i)})
		if i >= 1<<40 {
			p[len(p)-1].huge = i
		}
	}
	for _, u := range []uint64{0, 1, math.MaxUint64} {
		mag := ""
		if u == 0 {
			mag = "zero"
		} else if u > 1 {
			mag = "huge"
		}
		imm("uint:"+strconv.FormatUint(u, 10), mag, ugo.Uint(u))
	}
	imm("float:0", "zero", ugo.Float(0))
	imm("float:-1.5", "neg", ugo.Float(-1.5))
	imm("float:1e300", "huge", ugo.Float(1e300))
	p = append(p, c19val{label: "float:2^40", typ: "float", mag: "huge", v: ugo.Float(1 << 40), huge: 1 << 40})
	imm("float:NaN", "special", ugo.Float(math.NaN()))
	imm("float:+Inf", "special", ugo.Float(math.Inf(1)))
	imm("char:0", "zero", ugo.Char(0))
	imm("char:'a'", "", ugo.Char('a'))
	imm("char:-1", "neg", ugo.Char(-1))
	imm("char:0x10FFFF", "big", ugo.Char(0x10FFFF))
	imm(`string:""`, "empty", ugo.String(""))
	imm(`string:"a"`, "", ugo.String("a"))
	imm(`string:"ab,c d"`, "", ugo.String("ab,c d"))
	imm(`string:"%d %s %v"`, "format", ugo.String("%d %s %v"))
	imm(`string:"\xff"`, "special", ugo.String("\xff"))
	imm(`string:"2006-01-02"`, "layout", ugo.String("2006-01-02"))
	imm(`string:"1h"`, "", ugo.String("1h"))
	imm(`string:"UTC"`, "", ugo.String("UTC"))
	p = append(p, c19val{label: `string:"1099511627776"`, typ: "string", mag: "huge", v: ugo.String("1099511627776"), huge: 1 << 40}) // converts to 2^40 where an int is wanted
	imm(`string:1KiB("abc "x256)`, "big", ugo.String(c19kib()))
	// well-formed JSON documents (escapes in upper and lower case, a surrogate pair, escaped object key, every value kind):
	// the json functions get past their validation with these
	imm("string:json-doc", "json", ugo.String(c19jsonDoc))
	mut("bytes:json-doc", "json", func() ugo.Object { return ugo.Bytes(c19jsonDoc) })
	mut("bytes:empty", "empty", func() ugo.Object { return ugo.Bytes{} })
	mut("bytes:[1 2 255]", "", func() ugo.Object { return ugo.Bytes{1, 2, 255} })
	mut("bytes:56", "mid", func() ugo.Object { return ugo.Bytes(strings.Repeat("\xfb\x00a", 19)[:56]) })
	mut("bytes:770", "mid", func() ugo.Object { return ugo.Bytes(strings.Repeat("\xfb\x00a", 257)[:770]) })
	mut("array:[]", "empty", func() ugo.Object { return ugo.Array{} })
	mut(`array:[1,"a"]`, "", func() ugo.Object { return ugo.Array{ugo.Int(1), ugo.String("a")} })
	mut("array:nested", "nested", func() ugo.Object {
		return ugo.Array{ugo.Array{ugo.Int(1), ugo.Map{"k": ugo.String("v")}}, ugo.Map{"a": ugo.Array{}}, ugo.Undefined}
	})
	mut("array:1000ints", "big", c19bigArray)
	// arrays whose elements cannot be ordered / compared with each other (several failing comparisons in one call)
	mut("array:3maps", "unorderable", func() ugo.Object { return ugo.Array{ugo.Map{}, ugo.Map{}, ugo.Map{"a": ugo.Int(1)}} })
	mut("array:mixed-unorderable", "unorderable", func() ugo.Object {
		return ugo.Array{ugo.Int(3), ugo.String("a"), ugo.Map{}, ugo.Undefined, ugo.Array{ugo.Int(1)}, &ugo.Error{Name: "E"}, ugo.Float(math.NaN()), ugo.Int(1)}
	})
	mut("array:4arrays", "unorderable", func() ugo.Object {
		return ugo.Array{ugo.Array{ugo.Int(2)}, ugo.Array{ugo.Int(1)}, ugo.Array{}, ugo.Array{ugo.Int(3)}}
	})
	mut("map:{}", "empty", func() ugo.Object { return ugo.Map{} })
	mut("map:{a:1}", "", func() ugo.Object { return ugo.Map{"a": ugo.Int(1)} })
	mut("syncMap:{a:1}", "", func() ugo.Object { return &ugo.SyncMap{Value: ugo.Map{"a": ugo.Int(1)}} })
	imm("error:E", "", &ugo.Error{Name: "E", Message: "m"})
	imm("time:2021-02-03T04:05:06.7Z", "", &ugotime.Time{Value: time.Date(2021, 2, 3, 4, 5, 6, 700000000, time.UTC)})
	imm("location:UTC", "", &ugotime.Location{Value: time.UTC})
	imm("callable:builtin-len", "callable", ugo.BuiltinObjects[ugo.BuiltinLen])
	cnt := env.cbCount
	imm("callable:go-function", "callable", &ugo.Function{Name: "poolfn", Value: func(args ...ugo.Object) (ugo.Object, error) {
		*cnt++
		return ugo.Int(len(args)), nil
	}})
	imm("callable:compiled-function", "callable", env.compiled)
	imm("callable:returns-error", "callable", &ugo.Function{Name: "poolerr", Value: func(args ...ugo.Object) (ugo.Object, error) {
		*cnt++
		return ugo.Undefined, ugo.ErrType.NewError("C19 pool callable error")
	}})
	imm("callable:panics", "callable", &ugo.Function{Name: "poolpanic", Value: func(args ...ugo.Object) (ugo.Object, error) {
		*cnt++
		panic(c19marker)
	}})
	mut("scanArg:int", "special", func() ugo.Object {
		v, err := ugofmt.Module["ScanArg"].Call(ugo.String("int"))
		if err != nil || v == nil {
			return ugo.Undefined
		}
		return v
	})
	mut("rawMessage:{bad", "special", func() ugo.Object { return &ugojson.RawMessage{Value: []byte("{bad")} })
	mut("encoderOptions:quote(1)", "special", func() ugo.Object {
		return &ugojson.EncoderOptions{Value: ugo.Int(1), Quote: true, EscapeHTML: true}
	})
	env.pool = p
	return env, nil
}

// ---------------------------------------------------------------------------------------------
// callables

const (
	c19kBuiltin  = iota // builtin function (script: by name)
	c19kModule          // module function (script: import)
	c19kErrNew          // X.New of an error object
	c19kCallName        // receiver.name(args)  — CallName on NameCallerObject, else IndexGet + call (as the VM does)
	c19kIndexGet        // f := receiver.name; f(args)
)

type c19callable struct {
	id     string
	family string
	kind   int
	name   string     // function / method / builtin name
	module string     // module name for c19kModule
	fn     ugo.Object // function object (builtin, module)
	recv   ugo.Object // receiver (error object, *Time, *Location)
	accept [9]bool    // arity k admitted (probed)
	sizeFn bool       // one of the four size-request functions
	sleep  bool
	hasEx  bool // the callable has its own extended entry point (ValueEx)
}

var c19timeMethods = []string{"Add", "Sub", "AddDate", "After", "Before", "Format", "AppendFormat", "In", "Round", "Truncate", "Equal",
	"Date", "Clock", "UTC", "Unix", "UnixNano", "Year", "Month", "Day", "Hour", "Minute", "Second", "Nanosecond", "IsZero",
	"Local", "Location", "YearDay", "Weekday", "ISOWeek", "Zone",
	"NanoSecond", "NoSuchMethod", "String"}

const c19jsonDoc = `{"\u00C4k":[1,"\u003C\uD83D\uDE00\u00e9\u00E9\n",true,null,{"a":-1.5e3,"\u0062":"\uD83D\uDe00"}],"z":"\u00aB"}`

func c19catalog(env *c19env) []*c19callable {
	var out []*c19callable
	// builtins, in BuiltinType order (deterministic)
	names := make([]string, 0, len(ugo.BuiltinsMap))
	for n := range ugo.BuiltinsMap {
		names = append(names, n)
	}
	sort.Slice(names, func(i, j int) bool { return ugo.BuiltinsMap[names[i]] < ugo.BuiltinsMap[names[j]] })
	for _, n := range names {
		if strings.HasPrefix(n, ":") {
			continue // private helper, not nameable from a script
		}
		obj := ugo.BuiltinObjects[ugo.BuiltinsMap[n]]
		switch o := obj.(type) {
		case *ugo.BuiltinFunction:
			out = append(out, &c19callable{id: "builtin:" + n, family: "builtin", kind: c19kBuiltin, name: n, fn: o, sizeFn: n == "repeat", hasEx: o.ValueEx != nil})
		case *ugo.Error:
			out = append(out, &c19callable{id: "error:" + n + ".New", family: "error_new", kind: c19kErrNew, name: "New", recv: o})
		}
	}
	out = append(out, &c19callable{id: "error:plain.New", family: "error_new", kind: c19kErrNew, name: "New", recv: &ugo.Error{Name: "E", Message: "m"}})
	out = append(out, &c19callable{id: "error:runtime.New", family: "error_new", kind: c19kErrNew, name: "New", recv: env.rtErr})
	mods := []struct {
		name string
		m    map[string]ugo.Object
	}{{"fmt", ugofmt.Module}, {"json", ugojson.Module}, {"strings", ugostrings.Module}, {"time", ugotime.Module}}
	for _, md := range mods {
		keys := make([]string, 0, len(md.m))
		for k := range md.m {
			keys = append(keys, k)
		}
		sort.Strings(keys)
		for _, k := range keys {
			v := md.m[k]
			if !v.CanCall() {
				continue
			}
			cl := &c19callable{id: md.name + "." + k, family: md.name, kind: c19kModule, name: k, module: md.name, fn: v}
			if md.name == "strings" && (k == "Repeat" || k == "PadLeft" || k == "PadRight") {
				cl.sizeFn = true
			}
			if md.name == "time" && k == "Sleep" {
				cl.sleep = true
			}
			switch f := v.(type) {
			case *ugo.Function:
				cl.hasEx = f.ValueEx != nil
			case *ugo.BuiltinFunction:
				cl.hasEx = f.ValueEx != nil
			}
			out = append(out, cl)
		}
	}
	recvs := []struct {
		tag string
		t   *ugotime.Time
	}{
		{"t1", &ugotime.Time{Value: time.Date(2021, 2, 3, 4, 5, 6, 700000000, time.FixedZone("X", 3600))}},
		{"t0", &ugotime.Time{}},
	}
	for _, r := range recvs {
		for _, m := range c19timeMethods {
			out = append(out, &c19callable{id: "time.Time(" + r.tag + ")." + m + "@CallName", family: "time_method_callname", kind: c19kCallName, name: m, recv: r.t})
			out = append(out, &c19callable{id: "time.Time(" + r.tag + ")." + m + "@IndexGet", family: "time_method_indexget", kind: c19kIndexGet, name: m, recv: r.t})
		}
	}
	loc := &ugotime.Location{Value: time.FixedZone("Y", -7200)}
	for _, m := range []string{"String", "Name"} {
		out = append(out, &c19callable{id: "time.Location." + m + "@CallName", family: "location", kind: c19kCallName, name: m, recv: loc})
		out = append(out, &c19callable{id: "time.Location." + m + "@IndexGet", family: "location", kind: c19kIndexGet, name: m, recv: loc})
	}
	return out
}

// ---------------------------------------------------------------------------------------------
// execution

type c19out struct {
	val      ugo.Object
	err      error
	panicked bool
	pmsg     string
	stack    string
	alloc    uint64
}

type c19harness struct {
	c       *core.Ctx
	env     *c19env
	mm      *ugo.ModuleMap
	scripts map[string]*ugo.VM // reusable VM per script source
	// route b
	// crash bookkeeping
	stateLog     *os.File
	crashedSig   map[string]bool
	nsample      int
	crashedCount map[string]int
}

func c19allocs() uint64 {
	s := [1]metrics.Sample{{Name: "/gc/heap/allocs:bytes"}}
	metrics.Read(s[:])
	if s[0].Value.Kind() == metrics.KindUint64 {
		return s[0].Value.Uint64()
	}
	return 0
}

// guard runs f, converting a panic into a result.
func (h *c19harness) guard(f func() (ugo.Object, error)) (o c19out) {
	before := c19allocs()
	defer func() {
		if r := recover(); r != nil {
			o.panicked = true
			o.pmsg = fmt.Sprint(r)
			o.stack = string(debug.Stack())
		}
		after := c19allocs()
		if after > before {
			o.alloc = after - before
		}
	}()
	o.val, o.err = f()
	return
}

// callDirect performs the Go-level call of cl with a given (possibly nil) VM.
func c19callDirect(cl *c19callable, vm *ugo.VM, args []ugo.Object) (ugo.Object, error) {
	return c19callDirectEx(cl, vm, args, vm != nil)
}

// c19callDirectEx: with ex set the extended entry point (CallEx) is used even without a VM, as the
// library's own Value wrappers do (ugo.NewCall(nil, args)).
func c19callDirectEx(cl *c19callable, vm *ugo.VM, args []ugo.Object, ex bool) (ugo.Object, error) {
	callObj := func(f ugo.Object) (ugo.Object, error) {
		if !f.CanCall() {
			return ugo.Undefined, ugo.ErrNotCallable.NewError(f.TypeName())
		}
		if ex {
			if ex, ok := f.(ugo.ExCallerObject); ok {
				return ex.CallEx(ugo.NewCall(vm, args))
			}
		}
		return f.Call(args...)
	}
	switch cl.kind {
	case c19kBuiltin, c19kModule:
		return callObj(cl.fn)
	case c19kErrNew, c19kIndexGet:
		f, err := cl.recv.IndexGet(ugo.String(cl.name))
		if err != nil {
			return f, err
		}
		if f == nil {
			return nil, nil
		}
		return callObj(f)
	case c19kCallName:
		if nc, ok := cl.recv.(ugo.NameCallerObject); ok {
			return nc.CallName(cl.name, ugo.NewCall(vm, args))
		}
		f, err := cl.recv.IndexGet(ugo.String(cl.name))
		if err != nil {
			return f, err
		}
		if f == nil {
			return nil, nil
		}
		return callObj(f)
	}
	return nil, errors.New("c19: unknown kind")
}

// c19callSplit calls cl with a live VM, the first k arguments as the call's normal arguments and the rest as its
// variadic arguments (what `f(a, b, ...rest)` and Invoker-made calls produce). ok=false: the callable has no such entry.
func c19callSplit(cl *c19callable, vm *ugo.VM, args []ugo.Object, k int) (v ugo.Object, err error, ok bool) {
	mk := func() ugo.Call {
		return ugo.NewCall(vm, append([]ugo.Object{}, args[:k]...), append([]ugo.Object{}, args[k:]...)...)
	}
	callObj := func(f ugo.Object) (ugo.Object, error, bool) {
		if f == nil || !f.CanCall() {
			return nil, nil, false
		}
		if ex, isEx := f.(ugo.ExCallerObject); isEx {
			v, err := ex.CallEx(mk())
			return v, err, true
		}
		return nil, nil, false
	}
	switch cl.kind {
	case c19kBuiltin, c19kModule:
		return callObj(cl.fn)
	case c19kErrNew, c19kIndexGet:
		f, err := cl.recv.IndexGet(ugo.String(cl.name))
		if err != nil {
			return nil, nil, false
		}
		return callObj(f)
	case c19kCallName:
		if nc, isNC := cl.recv.(ugo.NameCallerObject); isNC {
			v, err := nc.CallName(cl.name, mk())
			return v, err, true
		}
	}
	return nil, nil, false
}

// routeD: inside a Go callback of a running script (live VM), every split of the arguments between the normal and the
// variadic part of the Call; returns the first panicking outcome, else the outcome of the all-variadic split.
func (h *c19harness) routeD(cl *c19callable, args []ugo.Object) (c19out, error) {
	const src = `param cb; return cb()`
	vm, err := h.vmFor(src)
	if err != nil {
		return c19out{}, err
	}
	ran := false
	var first, bad c19out
	have, haveBad := false, false
	cb := &ugo.Function{Name: "cb", ValueEx: func(c ugo.Call) (ugo.Object, error) {
		live := c.VM()
		ran = true
		for k := 0; k < len(args); k++ {
			applicable := true
			o := h.guard(func() (ugo.Object, error) {
				v, err, ok := c19callSplit(cl, live, args, k)
				applicable = ok
				return v, err
			})
			if !applicable {
				break
			}
			h.c.Count("split_calls")
			if !have {
				first, have = o, true
			}
			if o.panicked && !haveBad {
				bad, haveBad = o, true
			}
		}
		return ugo.Undefined, nil
	}}
	outer := h.guard(func() (ugo.Object, error) { return vm.Run(nil, cb) })
	if outer.panicked || outer.err != nil || !ran {
		delete(h.scripts, src)
		return c19out{}, fmt.Errorf("route d carrier script failed: panic=%v err=%v ran=%v %s", outer.panicked, outer.err, ran, outer.pmsg)
	}
	if haveBad {
		return bad, nil
	}
	if !have {
		return c19out{val: ugo.Undefined}, nil
	}
	return first, nil
}

func (h *c19harness) routeA(cl *c19callable, args []ugo.Object) c19out {
	return h.guard(func() (ugo.Object, error) { return c19callDirect(cl, nil, args) })
}

func (h *c19harness) vmFor(src string) (*ugo.VM, error) {
	if vm, ok := h.scripts[src]; ok && vm != nil {
		return vm, nil
	}
	bc, err := ugo.Compile([]byte(src), ugo.CompilerOptions{ModuleMap: h.mm, NoOptimize: true})
	if err != nil {
		return nil, fmt.Errorf("%v in %q", err, src)
	}
	vm := ugo.NewVM(bc) // no SetRecover
	h.scripts[src] = vm
	return vm, nil
}

// routeB runs the call inside a Go callback of a running script: the callee receives a live VM.
func (h *c19harness) routeB(cl *c19callable, args []ugo.Object) (c19out, error) {
	const src = `param cb; return cb()`
	vm, err := h.vmFor(src)
	if err != nil {
		return c19out{}, err
	}
	ran := false
	var inner c19out
	cb := &ugo.Function{Name: "cb", ValueEx: func(c ugo.Call) (ugo.Object, error) {
		live := c.VM()
		ran = true
		inner = h.guard(func() (ugo.Object, error) { return c19callDirect(cl, live, args) })
		return ugo.Undefined, nil
	}}
	outer := h.guard(func() (ugo.Object, error) { return vm.Run(nil, cb) })
	if outer.panicked || outer.err != nil || !ran {
		delete(h.scripts, src)
		return c19out{}, fmt.Errorf("route b carrier script failed: panic=%v err=%v ran=%v %s", outer.panicked, outer.err, ran, outer.pmsg)
	}
	return inner, nil
}

func c19params(n int) string {
	ps := make([]string, n)
	for i := range ps {
		ps[i] = "a" + strconv.Itoa(i)
	}
	return strings.Join(ps, ", ")
}

func c19script(cl *c19callable, n int) (src string, recvFirst bool) {
	ps := c19params(n)
	withRecv := func(r string) string {
		if n == 0 {
			return "param " + r + "; "
		}
		return "param (" + r + ", " + ps + "); "
	}
	switch cl.kind {
	case c19kBuiltin:
		if n == 0 {
			return "return " + cl.name + "()", false
		}
		if n == 1 {
			return "param a0; return " + cl.name + "(a0)", false
		}
		return "param (" + ps + "); return " + cl.name + "(" + ps + ")", false
	case c19kModule:
		pre := ""
		if n == 1 {
			pre = "param a0; "
		} else if n > 1 {
			pre = "param (" + ps + "); "
		}
		return pre + `m := import("` + cl.module + `"); return m.` + cl.name + "(" + ps + ")", false
	case c19kErrNew, c19kCallName:
		return withRecv("r") + "return r." + cl.name + "(" + ps + ")", true
	case c19kIndexGet:
		return withRecv("r") + "f := r." + cl.name + "; return f(" + ps + ")", true
	}
	return "", false
}

func (h *c19harness) routeC(cl *c19callable, args []ugo.Object) (c19out, error) {
	src, recvFirst := c19script(cl, len(args))
	vm, err := h.vmFor(src)
	if err != nil {
		return c19out{}, err
	}
	runArgs := args
	if recvFirst {
		runArgs = make([]ugo.Object, 0, len(args)+1)
		runArgs = append(runArgs, cl.recv)
		runArgs = append(runArgs, args...)
	}
	o := h.guard(func() (ugo.Object, error) { return vm.Run(nil, runArgs...) })
	if o.panicked {
		delete(h.scripts, src) // do not reuse a VM that unwound through a panic
	}
	return o, nil
}

// ---------------------------------------------------------------------------------------------
// skip rules (see "deliberately not flagged")

// c19sleepTooLong reports whether Sleep would block for more than 5 ms with these arguments.
func c19sleepTooLong(args []ugo.Object) bool {
	for _, a := range args {
		if v, ok := ugo.ToGoInt64(a); ok && v > int64(5*time.Millisecond) {
			return true
		}
	}
	return false
}

// c19requested estimates the result size in bytes the size functions are asked for.
// ok=false: the call is rejected before any size matters (wrong count / type).
func c19requested(cl *c19callable, args []ugo.Object) (bytes float64, ok bool) {
	switch cl.name {
	case "repeat", "Repeat":
		if len(args) != 2 {
			return 0, false
		}
		n, isInt := ugo.ToGoInt(args[1])
		if !isInt || n <= 0 {
			return 0, false
		}
		var unit float64
		if cl.name == "repeat" {
			switch v := args[0].(type) {
			case ugo.String:
				unit = float64(len(v))
			case ugo.Bytes:
				unit = float64(len(v))
			case ugo.Array:
				// the implementation appends count times: the work is at least count steps
				return math.Max(float64(len(v))*16*float64(n), 4*float64(n)), true
			default:
				return 0, false
			}
		} else {
			s, isStr := ugo.ToGoString(args[0])
			if !isStr {
				return 0, false
			}
			unit = float64(len(s))
		}
		return unit * float64(n), true
	case "PadLeft", "PadRight":
		if len(args) != 2 && len(args) != 3 {
			return 0, false
		}
		n, isInt := ugo.ToGoInt(args[1])
		if !isInt || n <= 0 {
			return 0, false
		}
		if len(args) == 3 && len(args[2].String()) == 0 {
			return 0, false
		}
		if n <= len(args[0].String()) {
			return 0, false
		}
		return float64(n), true
	}
	return 0, false
}

const (
	c19grayLo = 256 << 20
	c19grayHi = float64(1 << 40)
)

// ---------------------------------------------------------------------------------------------
// judging

type c19wit struct {
	Callable string   `json:"callable"`
	Route    string   `json:"route"`
	ArgIdx   []int    `json:"arg_idx"`
	Args     []string `json:"args"`
	Call     string   `json:"call"`
	Outcome  string   `json:"outcome"`
	Panic    string   `json:"panic,omitempty"`
	TopFrame string   `json:"top_repo_frame,omitempty"`
	Stack    string   `json:"stack,omitempty"`
	Alloc    uint64   `json:"alloc_bytes,omitempty"`
}

var c19ifaceRe = regexp.MustCompile(`is \*?[A-Za-z0-9_.]+, not`)

func c19topFrame(stack string) string {
	sc := bufio.NewScanner(strings.NewReader(stack))
	sc.Buffer(make([]byte, 1<<20), 1<<20)
	seenPanic := false
	for sc.Scan() {
		t := sc.Text()
		if strings.HasPrefix(t, "panic(") {
			seenPanic = true
			continue
		}
		if !seenPanic {
			continue
		}
		if strings.HasPrefix(t, "github.com/ozanh/ugo") {
			if i := strings.LastIndex(t, "("); i > 0 {
				t = t[:i]
			}
			return strings.TrimPrefix(t, "github.com/ozanh/ugo")
		}
	}
	return "?"
}

func c19trimStack(s string) string {
	lines := strings.Split(s, "\n")
	var keep []string
	for _, l := range lines {
		if strings.HasPrefix(l, "\t") {
			continue
		}
		keep = append(keep, l)
		if len(keep) >= 24 {
			break
		}
	}
	return strings.Join(keep, "\n")
}

func (h *c19harness) judge(cl *c19callable, route string, idx []int, o c19out) {
	c := h.c
	c.Count("calls_route_" + route)
	mkWit := func(outcome string) c19wit {
		w := c19wit{Callable: cl.id, Route: route, ArgIdx: idx, Outcome: outcome, Alloc: o.alloc}
		for _, i := range idx {
			w.Args = append(w.Args, h.env.pool[i].label)
		}
		w.Call = c19render(h.env, cl, idx)
		return w
	}
	if o.alloc > 1<<30 {
		c.Count("outcome_alloc_over_1GiB")
		c.SetAdd("violating_callables", cl.id+" [alloc>1GiB]")
		h.violation("C19|alloc|"+cl.id, fmt.Sprintf("%s allocated %d bytes in one call (route %s)", c19render(h.env, cl, idx), o.alloc, route), mkWit("alloc"))
	}
	switch {
	case o.panicked:
		if strings.Contains(o.pmsg, c19marker) {
			c.Count("pool_panic_propagated")
			return
		}
		c.Count("outcome_panic")
		c.Count("outcome_panic_route_" + route)
		top := c19topFrame(o.stack)
		w := mkWit("panic")
		w.Panic = o.pmsg
		if len(w.Panic) > 400 {
			w.Panic = w.Panic[:400]
		}
		w.TopFrame = top
		w.Stack = c19trimStack(o.stack)
		norm := c19ifaceRe.ReplaceAllString(core.NormMsg(o.pmsg), "is T, not")
		c.SetAdd("violating_callables", cl.id+" [panic "+top+": "+norm+"]")
		h.violation("C19|panic|"+cl.id+"|"+top+"|"+norm,
			fmt.Sprintf("%s panics on route %s: %s (in %s)", c19render(h.env, cl, idx), route, norm, top), w)
	case o.err != nil:
		c.Count("outcome_error")
		switch {
		case errors.Is(o.err, ugo.ErrWrongNumArguments):
			c.Count("err_wrong_num_args")
		case errors.Is(o.err, ugo.ErrType):
			c.Count("err_type")
		case errors.Is(o.err, ugo.ErrNotCallable):
			c.Count("err_not_callable")
		case errors.Is(o.err, ugo.ErrInvalidIndex), errors.Is(o.err, ugo.ErrIndexOutOfBounds), errors.Is(o.err, ugo.ErrNotIndexable):
			c.Count("err_index")
		default:
			c.Count("err_other")
		}
	case o.val == nil:
		c.Count("outcome_nil_nil")
		c.SetAdd("violating_callables", cl.id+" [nil,nil]")
		h.violation("C19|nil-result|"+cl.id, fmt.Sprintf("%s returned (nil, nil) on route %s", c19render(h.env, cl, idx), route), mkWit("nil,nil"))
	default:
		c.Count("outcome_value")
		c.Count("value_" + cl.family)
		if _, isErr := o.val.(error); isErr {
			c.Count("outcome_value_is_error_object")
		}
	}
}

func c19render(env *c19env, cl *c19callable, idx []int) string {
	var b strings.Builder
	b.WriteString(cl.id)
	b.WriteString("(")
	for k, i := range idx {
		if k > 0 {
			b.WriteString(", ")
		}
		b.WriteString(env.pool[i].label)
	}
	b.WriteString(")")
	return b.String()
}

func c19desc(env *c19env, cl *c19callable, route string, idx []int) string {
	var b strings.Builder
	b.WriteString(cl.id)
	b.WriteString(" @")
	b.WriteString(route)
	b.WriteString(" [")
	for k, i := range idx {
		if k > 0 {
			b.WriteString(",")
		}
		b.WriteString(strconv.Itoa(i))
	}
	b.WriteString("] ")
	b.WriteString(c19render(env, cl, idx))
	return b.String()
}

// ---------------------------------------------------------------------------------------------
// crash bookkeeping: an append-only log in the parent's per-run directory ("B sig" before a risky
// case, "E" after it). A trailing "B" on start-up means that case killed the previous child.

func (h *c19harness) openState() {
	h.crashedSig = map[string]bool{}
	h.crashedCount = map[string]int{}
	if len(os.Args) < 9 || os.Args[1] != "worker" {
		return
	}
	path := filepath.Join(os.Args[7], fmt.Sprintf("c19.state.%d.log", h.c.Batch))
	open := ""
	if b, err := os.ReadFile(path); err == nil {
		for _, l := range strings.Split(strings.TrimRight(string(b), "\n"), "\n") {
			switch {
			case strings.HasPrefix(l, "B "):
				open = l[2:]
			case l == "E":
				open = ""
			case strings.HasPrefix(l, "C "):
				h.noteCrash(l[2:])
				open = ""
			case strings.HasPrefix(l, "V "):
				// a violation recorded by a predecessor child that died later: its result file
				// was never written, so report it again from here
				var v struct {
					F string          `json:"f"`
					W string          `json:"w"`
					X json.RawMessage `json:"x"`
				}
				if json.Unmarshal([]byte(l[2:]), &v) == nil {
					h.c.Violation(v.F, v.W, v.X)
					h.c.Count("violations_carried_over_child_restart")
				}
			}
		}
	}
	f, err := os.OpenFile(path, os.O_CREATE|os.O_WRONLY|os.O_APPEND, 0o644)
	if err != nil {
		return
	}
	h.stateLog = f
	if open != "" {
		h.noteCrash(open)
		_, _ = f.WriteString("C " + open + "\n")
	}
}

// violation reports to the framework and keeps a copy in the state log (see openState).
func (h *c19harness) violation(fp, what string, wit any) {
	h.c.Violation(fp, what, wit)
	if h.stateLog != nil {
		x, _ := json.Marshal(wit)
		b, err := json.Marshal(map[string]any{"f": fp, "w": what, "x": json.RawMessage(x)})
		if err == nil {
			_, _ = h.stateLog.WriteString("V " + string(b) + "\n")
		}
	}
}

func (h *c19harness) noteCrash(sig string) {
	if h.crashedSig[sig] {
		return
	}
	h.crashedSig[sig] = true
	parts := strings.SplitN(sig, "|", 3)
	if len(parts) >= 2 {
		h.crashedCount[parts[0]+"|"+parts[1]]++
	}
}

// riskSig returns "" when the tuple holds no absurd-size integer, else the tuple's type/magnitude
// signature with the absurd values (the granularity at which a crash or hang is tried only once per
// batch, callable and route).
func (h *c19harness) riskSig(idx []int) string {
	any := false
	var b strings.Builder
	for _, i := range idx {
		p := &h.env.pool[i]
		b.WriteString(p.typ + ":" + p.mag)
		if p.huge != 0 {
			any = true
			b.WriteString("=" + strconv.FormatInt(p.huge, 10))
		}
		b.WriteString(",")
	}
	if !any {
		return ""
	}
	return b.String()
}

// typeSig is the signature used for absurd products of individually moderate arguments.
func (h *c19harness) typeSig(idx []int) string {
	var b strings.Builder
	b.WriteString("product>=2^40:")
	for _, i := range idx {
		p := &h.env.pool[i]
		b.WriteString(p.typ + ":" + p.mag + ",")
	}
	return b.String()
}

const c19maxCrashesPerCallableRoute = 4

// c19hangDeadline applies only to tuples holding an integer >= 2^40 (see runTuple).
const c19hangDeadline = 10 * time.Second

// execRoute runs one case. A tuple holding an absurd size (>= 2^40) either is rejected or yields
// a trivial result at once; it runs on its own goroutine so that a callee that starts a 2^40-step
// loop is reported (hung=true, violation recorded) instead of stalling the batch until the
// parent's watchdog fires.
func (h *c19harness) execRoute(cl *c19callable, route string, idx []int, args []ugo.Object, risky bool) (o c19out, herr error, hung bool) {
	exec := func() (c19out, error) {
		switch route {
		case "a":
			return h.routeA(cl, args), nil
		case "b":
			return h.routeB(cl, args)
		case "d":
			return h.routeD(cl, args)
		case "e":
			return h.guard(func() (ugo.Object, error) { return c19callDirectEx(cl, nil, args, true) }), nil
		}
		return h.routeC(cl, args)
	}
	if !risky {
		o, herr = exec()
		return
	}
	type res struct {
		o c19out
		e error
	}
	ch := make(chan res, 1)
	go func() {
		o, e := exec()
		ch <- res{o, e}
	}()
	timer := time.NewTimer(c19hangDeadline)
	select {
	case r := <-ch:
		timer.Stop()
		return r.o, r.e, false
	case <-timer.C:
	}
	// The goroutine is lost: Go code cannot be interrupted, and it may go on allocating. A worker
	// child therefore ends itself here with a fatal line; the parent attributes it to this (pre-logged)
	// case exactly like any other child death and restarts the batch behind it. The same-signature
	// cases of all three routes are marked so that the successor does not walk into them again.
	line := "fatal error: C19 hang: " + cl.id + " did not return within " + c19hangDeadline.String() +
		" (size argument >= 2^40 neither rejected nor honoured)"
	if h.stateLog != nil {
		core19 := h.riskSig(idx)
		if core19 == "" {
			core19 = h.typeSig(idx)
		}
		for _, r := range []string{"a", "b", "c", "d", "e"} {
			_, _ = h.stateLog.WriteString("C " + cl.id + "|" + r + "|" + core19 + "\n")
		}
		_ = h.stateLog.Sync()
		fmt.Fprintln(os.Stderr, line)
		os.Exit(3)
	}
	// replay mode: report directly with the fingerprint the parent would have built
	c := h.c
	c.Count("outcome_hang")
	w := c19wit{Callable: cl.id, Route: route, ArgIdx: idx, Outcome: "no return within " + c19hangDeadline.String(), Call: c19render(h.env, cl, idx)}
	for _, i := range idx {
		w.Args = append(w.Args, h.env.pool[i].label)
	}
	h.violation("crash|"+core.CrashClass(line, ""), c19render(h.env, cl, idx)+" on route "+route+": "+line, w)
	return c19out{}, nil, true
}

// ---------------------------------------------------------------------------------------------
// driver

func (h *c19harness) runTuple(cl *c19callable, idx []int) {
	c := h.c
	env := h.env
	mkArgs := func() []ugo.Object {
		args := make([]ugo.Object, len(idx))
		for k, i := range idx {
			args[k] = env.pool[i].get()
		}
		return args
	}
	// skip rules are decided once per tuple on a private copy of the arguments
	skip := ""
	absurd := false
	if cl.sleep || cl.sizeFn {
		probe := mkArgs()
		if cl.sleep && c19sleepTooLong(probe) {
			skip = "sleep_skipped_over_5ms"
		} else if cl.sizeFn {
			if req, ok := c19requested(cl, probe); ok {
				if req > c19grayLo && req < c19grayHi {
					skip = "gray_zone_skipped"
				} else if req >= c19grayHi {
					absurd = true
					c.Count("absurd_size_requests")
				}
			}
		}
	}
	ran := false
	for _, route := range []string{"a", "b", "c", "d", "e"} {
		route := route
		if route == "d" && len(idx) == 0 {
			continue
		}
		if route == "e" && !cl.hasEx {
			continue // without an extended entry point CallEx falls back to the plain one: same as route a
		}
		if !c.Begin(func() string { return c19desc(env, cl, route, idx) }) {
			continue
		}
		ran = true
		if skip != "" {
			c.Count(skip)
			continue
		}
		core19 := h.riskSig(idx)
		if core19 == "" && absurd {
			core19 = h.typeSig(idx)
		}
		sig := ""
		if core19 != "" {
			sig = cl.id + "|" + route + "|" + core19
			if h.crashedSig[sig] || h.crashedCount[cl.id+"|"+route] >= c19maxCrashesPerCallableRoute {
				c.Count("skipped_after_crash_or_hang")
				continue
			}
			if h.stateLog != nil {
				_, _ = h.stateLog.WriteString("B " + sig + "\n")
			}
		}
		before := *env.cbCount
		o, herr, hung := h.execRoute(cl, route, idx, mkArgs(), core19 != "")
		if hung {
			continue // replay mode only; a worker child has ended itself
		}
		if sig != "" && h.stateLog != nil {
			_, _ = h.stateLog.WriteString("E\n")
		}
		if herr != nil {
			c.Inconclusive("harness: " + herr.Error())
			continue
		}
		if cl.sleep {
			c.Count("sleep_executed")
		}
		if *env.cbCount != before {
			c.Count("callback_invoked_by_callee")
		}
		h.judge(cl, route, idx, o)
		if h.nsample < 3 && len(idx) >= 1 && (o.err == nil) != (h.nsample == 1) {
			h.nsample++
			kind := "value"
			if o.panicked {
				kind = "panic"
			} else if o.err != nil {
				kind = "error: " + core.NormMsg(o.err.Error())
			}
			c.Sample(map[string]string{"case": c19desc(env, cl, route, idx), "outcome": kind})
		}
		// non-triviality
		nt := o.err != nil || o.panicked
		var sigb strings.Builder
		sigb.WriteString(cl.id)
		for _, i := range idx {
			p := &env.pool[i]
			sigb.WriteString("|" + p.typ + ":" + p.mag)
			if p.mag != "" {
				nt = true
			}
		}
		if nt {
			c.Nontrivial(sigb.String())
		}
	}
	if !ran {
		return
	}
	c.Count("family_" + cl.family)
	c.SetAdd("callables", cl.id)
	switch n := len(idx); {
	case n <= 4:
		c.Count("len" + strconv.Itoa(n))
	default:
		c.Count("len5to8")
	}
}

// probeArity fills cl.accept[k]: false when every probe of length k is rejected with
// WrongNumberOfArgumentsError (or the selected member is not callable at all).
func (h *c19harness) probeArity(cl *c19callable) {
	probes := [][2]ugo.Object{{ugo.Int(0), ugo.Int(0)}, {ugo.String("a"), ugo.String("a")}}
	for k := 0; k <= 8; k++ {
		acc := false
		for _, pr := range probes {
			args := make([]ugo.Object, k)
			for i := range args {
				args[i] = pr[0]
			}
			o := h.guard(func() (ugo.Object, error) { return c19callDirect(cl, nil, args) })
			if o.panicked {
				acc = true
				break
			}
			if o.err != nil && (errors.Is(o.err, ugo.ErrWrongNumArguments) || errors.Is(o.err, ugo.ErrNotCallable) ||
				errors.Is(o.err, ugo.ErrInvalidIndex) || errors.Is(o.err, ugo.ErrNotIndexable)) {
				// wrong count, or the selector names no callable member at all: the arguments are never looked at
				continue
			}
			acc = true
			break
		}
		cl.accept[k] = acc
	}
}

// sleepProbe executes time.Sleep with durations above the 10 ms slice in which it polls the VM for an
// abort, on every route (without a VM, with a live VM in a callback, from a script). Durations are
// fixed and short; the general tuples skip everything above 5 ms.
func (h *c19harness) sleepProbe(cl *c19callable) {
	c := h.c
	for _, d := range []time.Duration{11 * time.Millisecond, 23 * time.Millisecond} {
		for _, route := range []string{"a", "b", "c", "e"} {
			desc := fmt.Sprintf("%s(%d) route %s [sleep probe]", cl.id, int64(d), route)
			if !c.Begin(func() string { return desc }) {
				continue
			}
			o, herr, _ := h.execRoute(cl, route, nil, []ugo.Object{ugo.Int(d)}, false)
			if herr != nil {
				c.Inconclusive("harness: " + herr.Error())
				continue
			}
			c.Count("sleep_over_10ms_executed")
			w := c19wit{Callable: cl.id, Route: route, Args: []string{fmt.Sprintf("int:%d", int64(d))}, Call: desc}
			switch {
			case o.panicked:
				top := c19topFrame(o.stack)
				w.Outcome, w.Panic, w.TopFrame, w.Stack = "panic", o.pmsg, top, c19trimStack(o.stack)
				norm := core.NormMsg(o.pmsg)
				c.SetAdd("violating_callables", cl.id+" [panic "+top+": "+norm+"]")
				h.violation("C19|panic|"+cl.id+"|"+top+"|"+norm, desc+" panics: "+norm+" (in "+top+")", w)
			case o.err != nil:
				w.Outcome = "error: " + o.err.Error()
				h.violation("C19|sleep-error|"+cl.id, desc+" fails: "+o.err.Error(), w)
			case o.val == nil:
				w.Outcome = "nil,nil"
				h.violation("C19|nil-result|"+cl.id, desc+" returned (nil, nil)", w)
			}
		}
	}
}

func (m c19) Run(c *core.Ctx) {
	oldPW, oldOut, oldIn := ugo.PrintWriter, os.Stdout, os.Stdin
	defer func() { ugo.PrintWriter, os.Stdout, os.Stdin = oldPW, oldOut, oldIn }() // replay prints after Run
	ugo.PrintWriter = io.Discard
	if dn, err := os.OpenFile(os.DevNull, os.O_WRONLY, 0); err == nil {
		os.Stdout = dn // fmt.Print* of the fmt module write to os.Stdout
	}
	if dn, err := os.Open(os.DevNull); err == nil {
		os.Stdin = dn
	}
	env, err := c19buildEnv()
	if err != nil {
		c.Violation("C19|harness-setup", "cannot build the argument pool: "+err.Error(), nil)
		return
	}
	h := &c19harness{c: c, env: env, scripts: map[string]*ugo.VM{}}
	h.mm = ugo.NewModuleMap().
		AddBuiltinModule("fmt", ugofmt.Module).
		AddBuiltinModule("json", ugojson.Module).
		AddBuiltinModule("strings", ugostrings.Module).
		AddBuiltinModule("time", ugotime.Module)
	cat := c19catalog(env)
	byID := map[string]*c19callable{}
	for _, cl := range cat {
		byID[cl.id] = cl
	}

	if c.Replay != nil {
		// same address-space limit as a worker child, so that an absurd allocation fails the same way
		lim := uint64(12 << 30)
		_ = syscall.Setrlimit(syscall.RLIMIT_AS, &syscall.Rlimit{Cur: lim, Max: lim})
		m.replay(c, h, byID)
		return
	}
	h.openState()
	if h.stateLog != nil {
		defer h.stateLog.Close()
	}
	np := len(env.pool)
	thorough := c.Thorough()
	for _, cl := range cat {
		h.probeArity(cl)
	}
	if c.Batch == 0 {
		for _, cl := range cat {
			if cl.sleep {
				h.sleepProbe(cl)
			}
		}
	}

	idx := 0
	mine := func() bool {
		idx++
		return idx%c.NBatch == c.Batch
	}
	// lengths 0..2, exhaustive
	for _, cl := range cat {
		if mine() {
			h.runTuple(cl, nil)
		}
		for i := 0; i < np; i++ {
			if mine() {
				h.runTuple(cl, []int{i})
			}
		}
		for i := 0; i < np; i++ {
			for j := 0; j < np; j++ {
				if mine() {
					h.runTuple(cl, []int{i, j})
				}
			}
		}
	}
	if !thorough {
		// quick: length 3 over one representative value per type (first pool entry of each type), for the callables
		// whose arity admits 3 arguments - every combination of argument TYPES is seen, as error paths depend on them
		var reps []int
		seenTyp := map[string]bool{}
		for i := 0; i < np; i++ {
			if t := h.env.pool[i].typ; !seenTyp[t] {
				seenTyp[t] = true
				reps = append(reps, i)
			}
		}
		for _, cl := range cat {
			if !cl.accept[3] {
				continue
			}
			for _, i := range reps {
				for _, j := range reps {
					for _, k := range reps {
						if mine() {
							h.runTuple(cl, []int{i, j, k})
						}
					}
				}
			}
		}
		return
	}
	// length 3: exhaustive where the arity admits it, sampled otherwise
	for _, cl := range cat {
		if cl.accept[3] {
			c.SetAdd("len3_exhaustive_callables", cl.id)
			for i := 0; i < np; i++ {
				for j := 0; j < np; j++ {
					for k := 0; k < np; k++ {
						if mine() {
							h.runTuple(cl, []int{i, j, k})
						}
					}
				}
			}
		}
	}
	// sampled parts: every batch draws its own share from its own generator
	share := func(total int) int {
		n := total / c.NBatch
		if n < 1 {
			n = 1
		}
		return n
	}
	draw := func(n int) []int {
		t := make([]int, n)
		for i := range t {
			t[i] = c.Rng.Intn(np)
		}
		return t
	}
	for _, cl := range cat {
		if !cl.accept[3] {
			for s := share(640); s > 0; s-- {
				h.runTuple(cl, draw(3))
			}
		}
		n4 := 640
		if cl.accept[4] {
			n4 = 250000
		}
		for s := share(n4); s > 0; s-- {
			h.runTuple(cl, draw(4))
		}
		for k := 5; k <= 8; k++ {
			nk := 0
			if cl.accept[k] {
				nk = 40000
			} else if k == 5 {
				nk = 128
			}
			if nk == 0 {
				continue
			}
			for s := share(nk); s > 0; s-- {
				h.runTuple(cl, draw(k))
			}
		}
	}
}

// replay re-runs one witness: either a monitor witness (callable/route/arg_idx) or the parent's
// crash witness ({"case": "<id> @<route> [i,j] ..."}).
func (c19) replay(c *core.Ctx, h *c19harness, byID map[string]*c19callable) {
	var w struct {
		Callable string `json:"callable"`
		Route    string `json:"route"`
		ArgIdx   []int  `json:"arg_idx"`
		Case     string `json:"case"`
	}
	if err := json.Unmarshal(c.Replay, &w); err != nil {
		c.Inconclusive("replay: bad witness: " + err.Error())
		return
	}
	if w.Callable == "" && w.Case != "" {
		f := strings.SplitN(w.Case, " ", 4)
		if len(f) >= 3 && strings.HasPrefix(f[1], "@") && strings.HasPrefix(f[2], "[") {
			w.Callable = f[0]
			w.Route = f[1][1:]
			for _, s := range strings.Split(strings.Trim(f[2], "[]"), ",") {
				if s == "" {
					continue
				}
				n, err := strconv.Atoi(s)
				if err != nil {
					c.Inconclusive("replay: bad case description")
					return
				}
				w.ArgIdx = append(w.ArgIdx, n)
			}
		}
	}
	cl := byID[w.Callable]
	if cl == nil {
		c.Inconclusive("replay: unknown callable " + w.Callable)
		return
	}
	for _, i := range w.ArgIdx {
		if i < 0 || i >= len(h.env.pool) {
			c.Inconclusive("replay: pool index out of range")
			return
		}
	}
	args := make([]ugo.Object, len(w.ArgIdx))
	for k, i := range w.ArgIdx {
		args[k] = h.env.pool[i].get()
	}
	if w.Route != "a" && w.Route != "b" {
		w.Route = "c"
	}
	risky := h.riskSig(w.ArgIdx) != ""
	if cl.sizeFn {
		if req, ok := c19requested(cl, args); ok && req >= c19grayHi {
			risky = true
		}
	}
	o, err, hung := h.execRoute(cl, w.Route, w.ArgIdx, args, risky)
	if hung {
		return
	}
	if err != nil {
		c.Inconclusive("replay: " + err.Error())
		return
	}
	h.judge(cl, w.Route, w.ArgIdx, o)
}
