package props

import (
	"encoding/json"
	"errors"
	"fmt"
	"os"
	"strings"

	"github.com/ozanh/ugo"
	"github.com/ozanh/ugo/parser"

	"verif/internal/canon"
	"verif/internal/core"
	"verif/internal/gen"
	"verif/internal/ref"
)

// C01 — the optimizer never changes what a script does.
type c01 struct{}

func init() { core.Register(c01{}) }

func (c01) ID() string    { return "C01" }
func (c01) Level() string { return "exploration" }
func (c01) Race() bool    { return false }
func (c01) Rule() string {
	return "differential: each script is compiled with NoOptimize (reference) and with OptimizerLimit 1,2,3,5,10,100 and all bytecodes are run on equal globals/arguments; value, printed output, globals and error name+message must agree. " +
		"An optimizer refusal is accepted only if every reported OptimizerError names a constant sub-expression that, evaluated alone without the optimizer, raises the same error. " +
		"Workload: (1) EXHAUSTIVE matrix 13 binding forms x 25 foldable builtin names x 5 use positions; (2) EXHAUSTIVE constant-folding table: 15 binary operators + == != x ordered pairs of a 30-literal pool, unary chains, literal conditions; " +
		"(3) seeded generated programs (profile 'shadowing & folding': builtin-name shadowing, constant-heavy expressions, const/iota, modules). " +
		"non-trivial = optimized bytecode differs from the unoptimized one (instructions or constants); distinct by source hash"
}
func (c01) Batches(tier string) int { return 32 }
func (c01) Required(string) []string {
	return []string{"compared", "bytecode_changed_by_optimizer", "matrix_cases", "const_group_cases", "fold_table_cases", "generated", "refusals_validated", "tag.shadow-builtin", "tag.const-expr", "budget.1", "budget.100"}
}
func (c01) Assumptions() []string {
	return []string{"the unoptimized compile+run is the reference (its own semantics are judged by C02)", "refusal validation evaluates the reported node's source text with literal-valued const declarations substituted"}
}

var c01budgets = []int{1, 2, 3, 5, 10, 100}

type c01wit struct {
	Program *Program `json:"program"`
	Budget  int      `json:"optimizer_limit"`
	Why     string   `json:"why"`
	Unopt   any      `json:"unoptimized"`
	Opt     any      `json:"optimized"`
}

func bytecodeFingerprint(bc *ugo.Bytecode) string {
	var sb strings.Builder
	sb.WriteString(fmt.Sprintf("%x|", bc.Main.Instructions))
	for _, c := range bc.Constants {
		if cf, ok := c.(*ugo.CompiledFunction); ok {
			sb.WriteString(fmt.Sprintf("fn%x|", cf.Instructions))
		} else {
			sb.WriteString(canon.Value(c) + "|")
		}
	}
	return sb.String()
}

// optimizerErrors unpacks an optimizer refusal; ok=false if err is not purely optimizer errors.
func optimizerErrors(err error) ([]*ugo.OptimizerError, bool) {
	var one *ugo.OptimizerError
	if oe, ok := err.(*ugo.OptimizerError); ok {
		return []*ugo.OptimizerError{oe}, true
	}
	if me, ok := err.(interface{ Errors() []error }); ok {
		var out []*ugo.OptimizerError
		for _, e := range me.Errors() {
			if errors.As(e, &one) {
				if oe, ok := e.(*ugo.OptimizerError); ok {
					out = append(out, oe)
					continue
				}
			}
			return nil, false
		}
		return out, len(out) > 0
	}
	return nil, false
}

// constLiterals collects `const name = <literal>` declarations of a script (any scope).
func constLiterals(src string) map[string]string {
	out := map[string]string{}
	f, err := ref.Parse("(main)", []byte(src))
	if err != nil {
		return out
	}
	var walkStmts func(ss []parser.Stmt)
	var walkStmt func(s parser.Stmt)
	var walkExpr func(x parser.Expr)
	walkExpr = func(x parser.Expr) {
		switch n := x.(type) {
		case *parser.FuncLit:
			if n.Body != nil {
				walkStmts(n.Body.Stmts)
			}
		case *parser.CallExpr:
			walkExpr(n.Func)
			for _, a := range n.Args {
				walkExpr(a)
			}
		case *parser.ParenExpr:
			walkExpr(n.Expr)
		case *parser.BinaryExpr:
			walkExpr(n.LHS)
			walkExpr(n.RHS)
		}
	}
	walkStmt = func(s parser.Stmt) {
		switch n := s.(type) {
		case *parser.DeclStmt:
			gd, ok := n.Decl.(*parser.GenDecl)
			if !ok {
				return
			}
			var lastConstExpr parser.Expr
			for _, sp := range gd.Specs {
				vs, ok := sp.(*parser.ValueSpec)
				if !ok {
					continue
				}
				for i, id := range vs.Idents {
					var v parser.Expr
					if i < len(vs.Values) && vs.Values[i] != nil {
						v = vs.Values[i]
						lastConstExpr = v
						walkExpr(v)
					} else if gd.Tok.String() == "const" {
						v = lastConstExpr
					}
					if v == nil || gd.Tok.String() != "const" {
						continue
					}
					val := ""
					switch lit := v.(type) {
					case *parser.IntLit, *parser.UintLit, *parser.FloatLit, *parser.CharLit, *parser.StringLit, *parser.BoolLit, *parser.UndefinedLit:
						val = lit.String()
					case *parser.Ident:
						if lit.Name == "iota" {
							if n, ok := vs.Data.(int); ok {
								val = fmt.Sprint(n)
							}
						} else if cv, ok := out[lit.Name]; ok {
							val = cv
						}
					}
					if val == "" {
						// an initialiser that is itself a constant expression is folded to a literal first
						if text, ok := constText(v, out); ok {
							val = evalToLiteral(text)
						}
					}
					if val == "" {
						continue
					}
					if prev, dup := out[id.Name]; dup && prev != val {
						// several constants of this name with different values (the table is not scope aware): the
						// candidates are kept for the one use that can still be judged, a call of the name
						cands := out["\x00cand:"+id.Name]
						if cands == "" {
							cands = prev
						}
						if prev == "\x00ambiguous" {
							cands = out["\x00cand:"+id.Name]
						}
						out["\x00cand:"+id.Name] = cands + "\x01" + val
						out[id.Name] = "\x00ambiguous"
					} else {
						out[id.Name] = val
					}
				}
			}
		case *parser.BlockStmt:
			walkStmts(n.Stmts)
		case *parser.IfStmt:
			walkStmts(n.Body.Stmts)
			if n.Else != nil {
				walkStmt(n.Else)
			}
		case *parser.ForStmt:
			walkStmts(n.Body.Stmts)
		case *parser.ForInStmt:
			walkStmts(n.Body.Stmts)
		case *parser.TryStmt:
			walkStmts(n.Body.Stmts)
			if n.Catch != nil {
				walkStmts(n.Catch.Body.Stmts)
			}
			if n.Finally != nil {
				walkStmts(n.Finally.Body.Stmts)
			}
		case *parser.AssignStmt:
			for _, r := range n.RHS {
				walkExpr(r)
			}
		case *parser.ExprStmt:
			walkExpr(n.Expr)
		case *parser.ReturnStmt:
			if n.Result != nil {
				walkExpr(n.Result)
			}
		}
	}
	walkStmts = func(ss []parser.Stmt) {
		for _, s := range ss {
			walkStmt(s)
		}
	}
	walkStmts(f.Stmts)
	return out
}

var c01pureBuiltins = map[string]bool{"contains": true, "bool": true, "int": true, "uint": true, "char": true, "float": true, "string": true, "chars": true,
	"len": true, "typeName": true, "bytes": true, "error": true, "sprintf": true, "isError": true, "isInt": true, "isUint": true, "isFloat": true, "isChar": true,
	"isBool": true, "isString": true, "isBytes": true, "isMap": true, "isArray": true, "isUndefined": true, "isIterable": true}

// evalToLiteral evaluates a constant expression text alone and renders the resulting scalar as a literal ("" if not a scalar / error).
func evalToLiteral(text string) string {
	cr := safeCompile([]byte("return "+text), ugo.CompilerOptions{NoOptimize: true})
	if cr.err != nil || cr.panicv != "" {
		return ""
	}
	var v ugo.Object
	func() {
		defer func() { _ = recover() }()
		v, _ = ugo.NewVM(cr.bc).SetRecover(true).Run(nil)
	}()
	switch o := v.(type) {
	case ugo.Int:
		return fmt.Sprintf("(%d)", int64(o))
	case ugo.Uint:
		return fmt.Sprintf("%du", uint64(o))
	case ugo.Bool:
		return fmt.Sprint(bool(o))
	case ugo.String:
		return fmt.Sprintf("%q", string(o))
	case ugo.Char:
		return fmt.Sprintf("char(%d)", int32(o))
	case ugo.Float:
		f := float64(o)
		if f != f || f > 1e300 || f < -1e300 {
			return ""
		}
		s := fmt.Sprintf("%v", f)
		if !strings.ContainsAny(s, ".e") {
			s += ".0"
		}
		return "(" + s + ")"
	case *ugo.UndefinedType:
		return "undefined"
	}
	return ""
}

// constText renders x if it is a constant expression in the optimizer's sense: literals,
// literal-valued consts, operators, calls of side-effect-free builtins or of constant (non-callable)
// values, and ternaries with a constant condition (a non-constant branch is rendered as `undefined`:
// it can only matter if it is the branch taken, and then the optimizer cannot evaluate the expression either).
// c01calleeConstFirst: constLiterals is not scope aware, so a callee whose name is both a constant somewhere in the script
// and a pure builtin is read both ways (constExprErrors walks twice and unites what the two readings raise).
var c01calleeConstFirst bool

// c01calleePick selects, in the constant-first reading, which of several same-named constants a callee denotes.
var c01calleePick int

func constText(x parser.Expr, consts map[string]string) (string, bool) {
	switch n := x.(type) {
	case *parser.IntLit:
		return n.Literal, true
	case *parser.UintLit:
		return n.Literal, true
	case *parser.FloatLit:
		return n.Literal, true
	case *parser.CharLit:
		return n.Literal, true
	case *parser.StringLit:
		return n.Literal, true
	case *parser.BoolLit:
		return n.Literal, true
	case *parser.UndefinedLit:
		return "undefined", true
	case *parser.ParenExpr:
		t, ok := constText(n.Expr, consts)
		return "(" + t + ")", ok
	case *parser.UnaryExpr:
		t, ok := constText(n.Expr, consts)
		return "(" + n.Token.String() + t + ")", ok
	case *parser.BinaryExpr:
		l, ok1 := constText(n.LHS, consts)
		r, ok2 := constText(n.RHS, consts)
		return "(" + l + " " + n.Token.String() + " " + r + ")", ok1 && ok2
	case *parser.CondExpr:
		c, ok := constText(n.Cond, consts)
		if !ok {
			return "", false
		}
		t, ok1 := constText(n.True, consts)
		f, ok2 := constText(n.False, consts)
		if !ok1 && !ok2 {
			return "", false
		}
		if !ok1 {
			t = "undefined"
		}
		if !ok2 {
			f = "undefined"
		}
		return "(" + c + " ? " + t + " : " + f + ")", true
	case *parser.ArrayLit:
		var parts []string
		for _, e := range n.Elements {
			t, ok := constText(e, consts)
			if !ok {
				return "", false
			}
			parts = append(parts, t)
		}
		return "[" + strings.Join(parts, ", ") + "]", true
	case *parser.Ident:
		v, ok := consts[n.Name]
		if ok && v != "\x00ambiguous" {
			return "(" + v + ")", true
		}
		return "", false
	case *parser.CallExpr:
		if n.Ellipsis.IsValid() {
			return "", false
		}
		var fn string
		if id, ok := n.Func.(*parser.Ident); ok {
			if v, isConst := consts[id.Name]; isConst && (c01calleeConstFirst || !c01pureBuiltins[id.Name]) {
				// the callee names a constant of the script (which may shadow a builtin): the call is the constant
				// expression <literal>(args), which raises NotCallableError when evaluated
				if v == "\x00ambiguous" {
					cands := strings.Split(consts["\x00cand:"+id.Name], "\x01")
					v = cands[c01calleePick%len(cands)]
					if v == "" || v == "\x00ambiguous" {
						return "", false
					}
				}
				fn = "(" + v + ")"
			} else if c01pureBuiltins[id.Name] {
				fn = id.Name
			} else {
				return "", false
			}
		} else {
			t, ok := constText(n.Func, consts)
			if !ok {
				return "", false
			}
			fn = t
		}
		var parts []string
		for _, a := range n.Args {
			t, ok := constText(a, consts)
			if !ok {
				return "", false
			}
			parts = append(parts, t)
		}
		return fn + "(" + strings.Join(parts, ", ") + ")", true
	}
	return "", false
}

// constExprErrors evaluates every constant sub-expression of src alone (optimizer off) and returns the
// set of errors "Name:Message" they raise.
func constExprErrors(src string, cache map[string]string) map[string]bool {
	out := map[string]bool{}
	f, err := ref.Parse("f", []byte(src))
	if err != nil {
		return out
	}
	consts := constLiterals(src)
	shadowing := false
	for name := range consts {
		if c01pureBuiltins[name] {
			shadowing = true
		}
	}
	if shadowing && !c01calleeConstFirst {
		c01calleeConstFirst = true
		for pick := 0; pick < 3; pick++ {
			c01calleePick = pick
			for k := range constExprErrors(src, cache) {
				out[k] = true
			}
		}
		c01calleePick = 0
		c01calleeConstFirst = false
	}
	ref.Walk(f, func(n parser.Node) bool {
		x, ok := n.(parser.Expr)
		if !ok {
			return true
		}
		switch n.(type) {
		case *parser.IntLit, *parser.UintLit, *parser.FloatLit, *parser.CharLit, *parser.StringLit, *parser.BoolLit, *parser.UndefinedLit, *parser.Ident:
			return true
		}
		text, ok := constText(x, consts)
		if !ok {
			return true
		}
		res, seen := cache[text]
		if !seen {
			cr := safeCompile([]byte("return "+text), ugo.CompilerOptions{NoOptimize: true})
			if cr.err == nil && cr.panicv == "" {
				o := canon.RunBytecode(cr.bc, canon.RunOpts{Recover: true, NoOutput: true})
				if o.Kind == "error" {
					res = normName(o.ErrName) + ":" + o.ErrMsg
				}
			}
			cache[text] = res
		}
		if res != "" {
			out[res] = true
		}
		return true
	})
	return out
}

// validateRefusal checks that each optimizer error is the runtime error that some constant
// sub-expression of the script (or of one of its modules) raises when evaluated alone.
// (Position-free on purpose: node positions are unreliable after the optimizer replaced children.)
func validateRefusal(p *Program, oes []*ugo.OptimizerError) string {
	cache := map[string]string{}
	raised := constExprErrors(p.Src, cache)
	for _, m := range p.Modules {
		for k := range constExprErrors(m, cache) {
			raised[k] = true
		}
	}
	for _, oe := range oes {
		n, m := canon.ErrParts(oe.Err)
		if !raised[normName(n)+":"+m] {
			var have []string
			for k := range raised {
				have = append(have, k)
			}
			return "optimizer refused the script with " + n + ":" + trunc(m, 80) + " but no constant sub-expression of the script raises that error when evaluated alone (constant sub-expressions raise: " + trunc(strings.Join(have, " | "), 200) + ")"
		}
	}
	return ""
}

// c01check runs the whole differential for one program. globalsFn builds a fresh globals map per run.
func (m c01) check(c *core.Ctx, p *Program, args []ugo.Object, globalsFn func() ugo.Map, budgets []int) (changed bool) {
	base := compileProgram(p, -1)
	if base.panicv != "" {
		c.Violation("C01|compile-panic|unoptimized|"+base.ptop+"|"+core.NormMsg(base.panicv), "Compile (NoOptimize) panics: "+base.panicv, c01wit{Program: p, Budget: -1})
		return
	}
	var baseOut canon.Outcome
	var baseFp string
	if base.err == nil {
		baseOut = runVM(base.bc, args, globalsFn(), true)
		baseFp = bytecodeFingerprint(base.bc)
		if baseOut.Kind == "timeout" {
			c.Inconclusive("unoptimized run hit the watchdog " + progHash(p))
			return
		}
	}
	for _, b := range budgets {
		c.Count(fmt.Sprintf("budget.%d", b))
		cr := compileProgram(p, b)
		if cr.panicv != "" {
			c.Violation("C01|compile-panic|"+cr.ptop+"|"+core.NormMsg(cr.panicv), "Compile with optimizer panics: "+cr.panicv, c01wit{Program: p, Budget: b, Why: "panic"})
			continue
		}
		if base.err != nil {
			c.Count("unoptimized_compile_error")
			if cr.err == nil {
				// not a violation: the property only speaks of scripts that compile both ways
				c.Count("invalid_script_accepted_with_optimizer")
			}
			continue
		}
		if cr.err != nil {
			oes, ok := optimizerErrors(cr.err)
			if !ok {
				c.Violation("C01|refusal-not-optimizer-error|"+core.NormMsg(cr.err.Error()), "valid script fails to compile with the optimizer with a non-optimizer error: "+trunc(cr.err.Error(), 160), c01wit{Program: p, Budget: b, Why: cr.err.Error()})
				continue
			}
			why := validateRefusal(p, oes)
			switch {
			case why == "":
				c.Count("refusals_validated")
			case strings.HasPrefix(why, "inconclusive"):
				c.Count("refusals_unchecked")
				c.SetAdd("refusal_unchecked_reasons", trunc(core.NormMsg(why), 90))
			default:
				c.Violation("C01|bad-refusal|"+core.NormMsg(oes[0].Err.Error()), why, c01wit{Program: p, Budget: b, Why: why})
			}
			continue
		}
		out := runVM(cr.bc, args, globalsFn(), true)
		if out.Kind == "timeout" {
			c.Inconclusive("optimized run hit the watchdog " + progHash(p))
			continue
		}
		c.Count("compared")
		if bytecodeFingerprint(cr.bc) != baseFp {
			changed = true
		}
		if out.Key(false) != baseOut.Key(false) {
			why := "outcome differs"
			switch {
			case out.Kind != baseOut.Kind:
				why = "kind " + baseOut.Kind + "(" + baseOut.ErrName + ") -> " + out.Kind + "(" + out.ErrName + ")"
			case out.Value != baseOut.Value:
				why = "value"
			case out.Log != baseOut.Log:
				why = "event log"
			case out.ErrName != baseOut.ErrName || out.ErrMsg != baseOut.ErrMsg:
				why = "error"
			case out.Out != baseOut.Out:
				why = "printed output"
			case out.Globals != baseOut.Globals:
				why = "globals"
			}
			c.Violation("C01|diff|"+strings.SplitN(why, " ", 2)[0]+"|"+progHash(p), "optimizer changes behaviour ("+why+")", c01wit{Program: p, Budget: b, Why: why, Unopt: baseOut, Opt: out})
			break
		}
	}
	if changed {
		c.Count("bytecode_changed_by_optimizer")
	}
	return changed
}

// ---- matrix: binding forms x builtin names x positions ----

var c01builtinUses = [][2]string{
	{"int", `int("7")`}, {"uint", `uint("7")`}, {"float", `float("7")`}, {"char", `char("7")`}, {"string", `string(7)`}, {"bool", `bool(7)`},
	{"bytes", `bytes("7")`}, {"chars", `chars("ab")`}, {"len", `len("abc")`}, {"contains", `contains("abc", "b")`}, {"typeName", `typeName(7)`},
	{"error", `error("x")`}, {"sprintf", `sprintf("%d", 7)`}, {"isError", `isError(7)`}, {"isInt", `isInt(7)`}, {"isUint", `isUint(7)`},
	{"isFloat", `isFloat(7)`}, {"isChar", `isChar(7)`}, {"isBool", `isBool(7)`}, {"isString", `isString(7)`}, {"isBytes", `isBytes(7)`},
	{"isMap", `isMap(7)`}, {"isArray", `isArray(7)`}, {"isUndefined", `isUndefined(7)`}, {"isIterable", `isIterable(7)`},
}

const c01V = `func(...a) { return "SHADOW" }`

func c01use(use string, id int) string {
	return fmt.Sprintf("try {\n  L(%d, string(%s))\n} catch ue%d {\n  L(%d, ue%d.Name)\n}\n", id, use, id, id, id)
}

// c01matrix builds the scripts; each returns via the event log.
func c01matrix() []*Program {
	var ps []*Program
	for _, bu := range c01builtinUses {
		N, USE := bu[0], bu[1]
		forms := map[string]string{
			"define":         N + " := " + c01V + "\n",
			"var":            "var " + N + " = " + c01V + "\n",
			"const":          "const " + N + " = " + c01V + "\n",
			"assign":         "var " + N + "\n" + N + " = " + c01V + "\n",
			"destructuring":  N + ", other := [" + c01V + ", 1]\n",
			"param":          "", // handled below
			"global":         "",
			"func-param":     "",
			"variadic-param": "",
			"forin-key":      "",
			"forin-value":    "",
			"catch":          "",
			"captured":       "",
		}
		for _, form := range sortedStrKeys(forms) {
			bind := forms[form]
			var variants []string
			switch form {
			case "define", "var", "const", "assign", "destructuring":
				// a: before the binding, same scope after, nested function after, sibling block
				// e/f: bound in a try body, used in the catch and finally bodies (one shared scope) and after the statement
				variants = append(variants,
					"global L\ntry {\n"+indent(bind+c01use(USE, 1)+"throw \"t\"\n")+"} catch ce {\n"+indent(c01use(USE, 2))+"} finally {\n"+indent(c01use(USE, 3))+"}\n"+c01use(USE, 4),
					"global L\nf := func() {\n"+indent("try {\n"+indent(bind)+"} finally {\n"+indent(c01use(USE, 1)+"g := func() {\n"+indent(c01use(USE, 2))+"}\ng()\n")+"}\n")+"}\nf()\n"+c01use(USE, 3),
					"global L\nfor i := 0; i < 2; i++ {\n"+indent("if i == 1 {\n"+indent(c01use(USE, 1))+"} else {\n"+indent(bind+c01use(USE, 2))+"}\n")+"}\n",
				)
				variants = append(variants,
					"global L\n"+c01use(USE, 1)+bind+c01use(USE, 2)+"f := func() {\n"+indent(c01use(USE, 3))+"}\nf()\n",
					"global L\nif true {\n"+indent(bind+c01use(USE, 1))+"}\n"+c01use(USE, 2),
					"global L\nf := func() {\n"+indent(bind+c01use(USE, 1))+"}\nf()\n"+c01use(USE, 2),
					"global L\nfor i := 0; i < 2; i++ {\n"+indent(c01use(USE, 1)+bind+c01use(USE, 2))+"}\n"+c01use(USE, 3),
				)
			case "param":
				variants = append(variants, "global L\nparam "+N+"\n"+c01use(USE, 1)+"f := func() {\n"+indent(c01use(USE, 2))+"}\nf()\n")
			case "global":
				variants = append(variants, "global L\nglobal "+N+"\n"+c01use(USE, 1)+"f := func() {\n"+indent(c01use(USE, 2))+"}\nf()\n",
					"global L\n"+c01use(USE, 1)+"global "+N+"\n"+c01use(USE, 2))
			case "func-param":
				variants = append(variants, "global L\nf := func("+N+") {\n"+indent(c01use(USE, 1)+"g := func() {\n"+indent(c01use(USE, 2))+"}\ng()\n")+"}\nf("+c01V+")\n"+c01use(USE, 3))
			case "variadic-param":
				variants = append(variants, "global L\nf := func(..."+N+") {\n"+indent(c01use(USE, 1))+"}\nf("+c01V+")\n"+c01use(USE, 2))
			case "forin-key":
				variants = append(variants, "global L\nfor "+N+", v in {x: 1} {\n"+indent(c01use(USE, 1))+"}\n"+c01use(USE, 2),
					"global L\nf := func() {\n"+indent("for "+N+", v in [5] {\n"+indent(c01use(USE, 1))+"}\n")+"}\nf()\n")
			case "forin-value":
				variants = append(variants, "global L\nfor _, "+N+" in ["+c01V+"] {\n"+indent(c01use(USE, 1)+"g := func() {\n"+indent(c01use(USE, 2))+"}\ng()\n")+"}\n"+c01use(USE, 3),
					"global L\nfor "+N+" in ["+c01V+"] {\n"+indent(c01use(USE, 1))+"}\n")
			case "catch":
				variants = append(variants, "global L\ntry {\n  throw \"x\"\n} catch "+N+" {\n"+indent(c01use(USE, 1))+"} finally {\n"+indent(c01use(USE, 2))+"}\n"+c01use(USE, 3),
					"global L\nf := func() {\n"+indent("try {\n"+indent(c01use(USE, 1))+"} catch "+N+" {\n"+indent(c01use(USE, 2))+"}\n")+"}\nf()\n")
			case "captured":
				variants = append(variants, "global L\n"+N+" := "+c01V+"\nf := func() {\n"+indent("g := func() {\n"+indent(c01use(USE, 1))+"}\ng()\n")+"}\nf()\n")
			}
			for vi, v := range variants {
				ps = append(ps, &Program{Src: v, Tags: []string{"matrix", "form=" + form, "name=" + N, fmt.Sprintf("variant=%d", vi)}})
			}
		}
	}
	return ps
}

func indent(s string) string {
	lines := strings.Split(strings.TrimRight(s, "\n"), "\n")
	for i := range lines {
		lines[i] = "  " + lines[i]
	}
	return strings.Join(lines, "\n") + "\n"
}

var c01literals = []string{"0", "1", "-1", "2", "3", "63", "64", "65", "-64", "9223372036854775807", "-9223372036854775808", "-9223372036854775807",
	"0u", "1u", "63u", "64u", "18446744073709551615u", "0.0", "1.5", "-0.0", "1e308", "5e-324", "-2.5", "1e21", "0.00001",
	"'a'", "'\\x00'", "\"\"", "\"a\"", "\"ab\"", "true", "false", "undefined"}

var c01ops = []string{"+", "-", "*", "/", "%", "&", "|", "^", "&^", "<<", ">>", "<", "<=", ">", ">=", "==", "!=", "&&", "||"}

func (m c01) Run(c *core.Ctx) {
	noGlobals := func() ugo.Map { return ugo.Map{} }
	if c.Replay != nil {
		var w c01wit
		if json.Unmarshal(c.Replay, &w) == nil && w.Program != nil {
			args := parseIntArgs(w.Program.Args)
			gf := func() ugo.Map { return ugo.Map{"G": ugo.Int(3)} }
			if os.Getenv("VERIF_MINIMIZE") != "" {
				min := minimizeLines(w.Program.Src, func(src string) bool {
					q := *w.Program
					q.Src = src
					sub := core.NewScratchCtx(c)
					m.check(sub, &q, args, gf, c01budgets)
					return sub.NumViolations() > 0
				})
				fmt.Println("---- minimized ----")
				fmt.Print(min)
				w.Program.Src = min
			}
			m.check(c, w.Program, args, gf, c01budgets)
		}
		return
	}
	idx := 0
	// (1) matrix
	shadowFn := &ugo.Function{Name: "shadow", Value: func(...ugo.Object) (ugo.Object, error) { return ugo.String("SHADOW"), nil }}
	for _, p := range c01matrix() {
		idx++
		if idx%c.NBatch != c.Batch {
			continue
		}
		p := p
		if !c.Begin(func() string { return p.Src }) {
			continue
		}
		name := strings.TrimPrefix(p.Tags[2], "name=")
		var args []ugo.Object
		gf := noGlobals
		if p.Tags[1] == "form=param" {
			args = []ugo.Object{shadowFn}
		}
		if p.Tags[1] == "form=global" {
			gf = func() ugo.Map { return ugo.Map{name: shadowFn} }
		}
		ch := m.check(c, p, args, gf, c01budgets)
		c.Count("matrix_cases")
		c.Count("matrix." + p.Tags[1])
		if ch {
			c.Nontrivial(progHash(p))
		}
		if idx%401 == 0 {
			c.Sample(map[string]any{"kind": "matrix", "tags": p.Tags, "src": p.Src})
		}
	}
	// (1c) const groups with implicit repetition: the expression of the first constant is compiled again for every
	// following value-less constant (with another iota, and with whatever the names mean at that point - a constant of
	// the group may re-declare a name the expression uses)
	for _, expr := range []string{"x + iota", "iota * x", "x << iota", "len(\"ab\") + iota + x", "[x, iota, y][iota % 3]", "x + y + iota", "-x + iota", "iota == 1 ? x : -x", "string(x) + string(iota)", "x", "func() { return x + 10 }() + iota", "[func(k) { return k + x + y }(iota)][0]",
		"len(\"abc\")", "len(\"ab\") + x", "string(65) + \"k\"", "len(string(x))"} {
		for _, names := range [][3]string{{"a", "b", "c"}, {"a", "x", "c"}, {"a", "b", "x"}, {"a", "y", "x"}, {"len", "b", "c"}, {"a", "len", "c"}, {"a", "string", "len"}} {
			for _, outer := range []string{"const x = 1\nconst y = 2.5\n", "const (\n  x = 3\n  y = 4u\n)\n", "x := 1\ny := 2\n"} {
				for wi, wrap := range []string{"%s%sreturn [%s, %s, %s]\n", "%sf := func() {\n%sreturn [%s, %s, %s]\n}\nreturn f()\n", "%sf := func() {\n  return func() {\n%sreturn [%s, %s, %s]\n  }\n}\nreturn f()()\n"} {
					idx++
					if idx%c.NBatch != c.Batch {
						continue
					}
					group := "const (\n  " + names[0] + " = " + expr + "\n  " + names[1] + "\n  " + names[2] + "\n)\n"
					src := "global L\n" + fmt.Sprintf(wrap, outer, group, names[0], names[1], names[2])
					p := &Program{Src: src, Tags: []string{"const-group-repetition", fmt.Sprint(wi)}}
					if !c.Begin(func() string { return src }) {
						continue
					}
					if m.check(c, p, nil, noGlobals, []int{1, 2, 100}) {
						c.Nontrivial(progHash(p))
					}
					c.Count("const_group_cases")
				}
			}
		}
	}
	// (1d) deep expressions: operand chains, parentheses, array / map literals, calls, index and unary chains nested
	// 3 .. 300 levels (the optimizer keeps per-level state for the expression it walks), constant and non-constant
	// operands, at top level and inside a function literal
	for _, depth := range []int{3, 31, 32, 33, 62, 63, 64, 65, 66, 70, 127, 128, 129, 200, 300} {
		for _, operand := range []string{"1", "s", "\"a\""} {
			var shapes []string
			shapes = append(shapes, strings.TrimSuffix(strings.Repeat(operand+" + ", depth), " + "))
			shapes = append(shapes, strings.Repeat("(", depth)+operand+strings.Repeat(")", depth))
			shapes = append(shapes, strings.Repeat("[", depth)+operand+strings.Repeat("]", depth))
			shapes = append(shapes, strings.Repeat("{k: ", depth)+operand+strings.Repeat("}", depth))
			shapes = append(shapes, strings.Repeat("id(", depth)+operand+strings.Repeat(")", depth))
			shapes = append(shapes, strings.Repeat("[", depth)+operand+strings.Repeat("][0]", depth))
			shapes = append(shapes, strings.Repeat("-(", depth)+"2"+strings.Repeat(")", depth))
			shapes = append(shapes, strings.Repeat("(true ? ", depth)+operand+strings.Repeat(" : 0)", depth))
			for si, sh := range shapes {
				idx++
				if idx%c.NBatch != c.Batch {
					continue
				}
				sh := sh
				if !c.Begin(func() string { return fmt.Sprintf("deep expression depth=%d shape=%d operand=%s", depth, si, operand) }) {
					continue
				}
				for _, wrap := range []string{"global L\ns := 2\nid := func(x) { return x }\nr := %s\nreturn string(r)\n", "global L\ns := 2\nid := func(x) { return x }\nf := func() {\n  return %s\n}\nreturn string(f())\n"} {
					p := &Program{Src: fmt.Sprintf(wrap, sh), Tags: []string{"deep-expression"}}
					if m.check(c, p, nil, noGlobals, []int{1, 100}) {
						c.Nontrivial(progHash(p))
					}
					c.Count("deep_expression_cases")
				}
			}
		}
	}
	// (2) folding table
	for _, op := range c01ops {
		for _, l := range c01literals {
			idx++
			if idx%c.NBatch != c.Batch {
				continue
			}
			var sb strings.Builder
			sb.WriteString("global L\n")
			for i, r := range c01literals {
				sb.WriteString(fmt.Sprintf("try {\n  L(%d, (%s) %s (%s))\n} catch e%d {\n  L(%d, e%d.Name)\n}\n", i, l, op, r, i, i, i))
			}
			p := &Program{Src: sb.String(), Tags: []string{"fold-table", op, l}}
			if !c.Begin(func() string { return "fold-table " + l + " " + op + " *" }) {
				continue
			}
			// each line alone as well (a refusal of one line must not hide the others)
			ch := m.check(c, p, nil, noGlobals, []int{1, 100})
			for _, r := range c01literals {
				q := &Program{Src: fmt.Sprintf("return (%s) %s (%s)\n", l, op, r), Tags: []string{"fold-single"}}
				if m.check(c, q, nil, noGlobals, []int{1, 3, 100}) {
					c.Nontrivial(q.Src)
				}
				// the same without parentheses: the operands reach the optimizer's literal x literal tables directly
				// (a parenthesised literal is a different node kind and takes the evaluator path instead)
				q3 := &Program{Src: fmt.Sprintf("return %s %s %s\n", l, op, r), Tags: []string{"fold-single-bare"}}
				if m.check(c, q3, nil, noGlobals, []int{1, 100}) {
					c.Nontrivial(q3.Src)
				}
				c.Count("fold_table_cases")
			}
			if ch {
				c.Nontrivial(progHash(p))
			}
		}
	}
	for i, u := range []string{"-", "+", "^", "!", "- -", "!!", "-^", "^-", "!-"} {
		idx++
		if idx%c.NBatch != c.Batch {
			continue
		}
		if !c.Begin(func() string { return "unary-table " + u }) {
			continue
		}
		for _, l := range c01literals {
			q := &Program{Src: fmt.Sprintf("x := %s(%s)\nif %s(%s) {\n  return [x, 1]\n} else {\n  return [x, 2]\n}\n", u, l, u, l), Tags: []string{"fold-unary"}}
			if m.check(c, q, nil, noGlobals, []int{1, 2, 100}) {
				c.Nontrivial(q.Src)
			}
			q2 := &Program{Src: fmt.Sprintf("return (%s) ? (%s(%s)) : (%s)\n", l, u, l, l), Tags: []string{"fold-ternary"}}
			if m.check(c, q2, nil, noGlobals, []int{1, 100}) {
				c.Nontrivial(q2.Src)
			}
			c.Count("fold_table_cases")
		}
		_ = i
	}
	// (3) generated programs
	n := c.Pick(500, 12000)
	o := gen.Opts{MaxStmts: 26, MaxDepth: 4, ExprDepth: 3, Try: 0.3, Throw: 0.08, Funcs: 0.6, Shadow: 0.2, BuiltinShadow: 0.08, LogProb: 0.15,
		Consts: 0.7, Globals: true, DeepRecursion: 20, Faults: 0.002}
	for i := 0; i < n; i++ {
		if stopExploring(c) {
			break
		}
		o.Params = c.Rng.Intn(3)
		o.Modules = 0
		if c.Rng.Intn(4) == 0 {
			o.Modules = 1 + c.Rng.Intn(2)
		}
		gp := gen.Generate(c.Rng, o)
		p := fromGen(gp)
		args := make([]ugo.Object, o.Params)
		for j := range args {
			args[j] = ugo.Int(c.Rng.Intn(7) - 1)
		}
		p.Args = renderArgs(args)
		if !c.Begin(func() string { return p.Src + "\n// args " + strings.Join(p.Args, ",") }) {
			continue
		}
		c.Count("generated")
		ch := m.check(c, p, args, func() ugo.Map { return ugo.Map{"G": ugo.Int(3)} }, c01budgets)
		for _, t := range p.Tags {
			c.Count("tag." + t)
		}
		if ch {
			c.Nontrivial(progHash(p))
		}
		if i%173 == 0 {
			c.Sample(map[string]any{"kind": "generated", "src": p.Src, "args": p.Args})
		}
	}
}
