package props

import (
	"bytes"
	"fmt"
	"math"
	"math/rand"
	"strconv"
	"strings"
)

// ---------------------------------------------------------------------------
// value generator (C17)

type c17gen struct {
	r      *rand.Rand
	budget int
}

var c17floatEdges = []float64{
	0, math.Copysign(0, -1), 1, -1, 0.1, 0.5, 1.5, 100, 1e6, 123456789, 1e20, 1e21, 999999999999999868928, 1e22, 1e23,
	1e-6, 0.000001, 1e-7, 9.999999e-7, 9.99999999999999e-7, 1e-5, 1 << 53, 1<<53 + 2, -(1 << 53),
	math.MaxFloat64, -math.MaxFloat64, math.SmallestNonzeroFloat64, -math.SmallestNonzeroFloat64,
	2.2250738585072014e-308, 2.225073858507201e-308, 5e-324, 1e-323, 1e308, 1e-308, 3.141592653589793, 1e15, 1e16, 1e17,
	0.1 + 0.2, 1.0 / 3.0, 4.35, 5e-7, 2e-6, 12345678901234567890.0, 1e-9, 1e-10, 1.5e-9, 1e-100, 1e100,
	math.NaN(), math.Inf(1), math.Inf(-1),
}

func (g *c17gen) float(finite bool) float64 {
	for {
		var f float64
		switch g.r.Intn(6) {
		case 0, 1:
			f = c17floatEdges[g.r.Intn(len(c17floatEdges))]
		case 2:
			f = math.Float64frombits(g.r.Uint64())
		case 3:
			f = float64(g.r.Int63n(2000000)-1000000) / math.Pow10(g.r.Intn(12))
		case 4:
			f = math.Pow10(g.r.Intn(80)-40) * float64(1+g.r.Intn(9))
			if g.r.Intn(2) == 0 {
				f = -f
			}
		default:
			f = float64(g.r.Int63()) * math.Pow10(g.r.Intn(30)-25)
		}
		if finite && (math.IsNaN(f) || math.IsInf(f, 0)) {
			continue
		}
		return f
	}
}

var c17asciiWords = []string{"a", "key", "Z9", "hello world", "x_y", "0", "null", "true", " ", "~", "e", "The quick brown fox"}
var c17ctrl = []string{"\x00", "\x01", "\b", "\t", "\n", "\v", "\f", "\r", "\x1b", "\x1f", "\x7f"}
var c17html = []string{"<", ">", "&", "<script>", "&amp;", "</"}
var c17quote = []string{`"`, `\`, `/`, `'`, `\"`, `\\`, `A`, `\b`, `\f`, `\n`}
var c17linesep = []string{"\u2028", "\u2029", "\u2027", "\u202a"}
var c17multi = []string{"\u00e9", "\u20ac", "\U0001f600", "\ufffd", "\ufeff", "\ud7ff", "\ue000", "\U0010ffff", "\u00e7", "\u65e5\u672c\u8a9e", "\u0080", "\u07ff", "\u0800", "\uffff", "\U00010000"}
var c17badUTF8 = []string{"\xff", "\xfe", "\xc0\x80", "\xe2\x80", "\xed\xa0\x80", "\xed\xbf\xbf", "\xf4\x90\x80\x80", "\x80", "\xbf", "\xe2", "\xf0\x9f\x98", "\xc3", "\xe2\x80\xa8\xe2\x80", "\xed\xa0\xbd\xed\xb8\x80", "\xf8\x88\x80\x80\x80"}

func (g *c17gen) pick(l []string) string { return l[g.r.Intn(len(l))] }

// str builds a string from feature pieces; valid=true excludes invalid UTF-8.
func (g *c17gen) str(valid bool) string {
	n := g.r.Intn(5)
	switch g.r.Intn(12) {
	case 0:
		n = 0
	case 1:
		n = 5 + g.r.Intn(30)
	}
	var b strings.Builder
	for i := 0; i < n; i++ {
		switch g.r.Intn(10) {
		case 0, 1, 2:
			b.WriteString(g.pick(c17asciiWords))
		case 3:
			b.WriteString(g.pick(c17ctrl))
		case 4:
			b.WriteString(g.pick(c17html))
		case 5:
			b.WriteString(g.pick(c17quote))
		case 6:
			b.WriteString(g.pick(c17linesep))
		case 7:
			b.WriteString(g.pick(c17multi))
		case 8:
			if valid {
				b.WriteByte(byte(0x20 + g.r.Intn(0x5f)))
			} else {
				b.WriteString(g.pick(c17badUTF8))
			}
		default:
			if valid {
				b.WriteRune(rune(g.r.Intn(0xd800)))
			} else {
				b.WriteByte(byte(g.r.Intn(256)))
			}
		}
	}
	return b.String()
}

var c17bytesLens = []int{0, 1, 2, 3, 4, 47, 48, 49, 50, 56, 63, 64, 65, 66, 96, 767, 768, 769, 770, 1023, 1024, 1025, 1500}

func (g *c17gen) bytesPayload() string {
	n := g.r.Intn(8)
	if g.r.Intn(6) == 0 {
		n = c17bytesLens[g.r.Intn(len(c17bytesLens))]
	}
	b := make([]byte, n)
	for i := range b {
		b[i] = byte(g.r.Intn(256))
	}
	return string(b)
}

var c17intEdges = []int64{0, 1, -1, 9, 10, -10, 1 << 31, -(1 << 31), 1 << 53, 1<<53 + 1, math.MaxInt64, math.MinInt64, 1000000, 999999999999}
var c17uintEdges = []uint64{0, 1, 10, 1 << 63, math.MaxUint64, math.MaxInt64, 1<<53 + 1}
var c17charEdges = []int32{0, 'a', '"', '<', 0x7f, 0x80, 0xd800, 0xdfff, 0xfffd, 0x10ffff, 0x110000, -1, math.MaxInt32, math.MinInt32, 0x2028}

// modes
const (
	c17mPlain = iota
	c17mRT
	c17mExotic
	c17mAll
)

func (g *c17gen) leaf(mode int) *c17spec {
	r := g.r
	if mode == c17mRT {
		switch r.Intn(6) {
		case 0:
			return &c17spec{K: "undef"}
		case 1:
			return &c17spec{K: "bool", U: uint64(r.Intn(2))}
		case 2, 3:
			return &c17spec{K: "float", U: math.Float64bits(g.float(true))}
		default:
			return &c17spec{K: "str", S: c17hex(g.str(true))}
		}
	}
	if mode >= c17mExotic && r.Intn(3) == 0 {
		if mode == c17mAll && r.Intn(2) == 0 {
			switch r.Intn(8) {
			case 0:
				return &c17spec{K: "func"}
			case 1:
				return &c17spec{K: "builtin", U: uint64(r.Intn(4))}
			case 2:
				return &c17spec{K: "cfunc"}
			case 3:
				return &c17spec{K: "err", S: c17hex(g.str(false))}
			case 4:
				return &c17spec{K: "rterr", S: c17hex(g.str(false))}
			case 5:
				return &c17spec{K: "loc", Via: []string{"utc", "fixed"}[r.Intn(2)]}
			case 6:
				return &c17spec{K: "scanarg"}
			default:
				return &c17spec{K: "func"}
			}
		}
		switch r.Intn(11) {
		case 9:
			return &c17spec{K: "textm", S: c17hex(g.str(false)), Q: r.Intn(6) == 0}
		case 10:
			return &c17spec{K: "jsonm", S: c17hex(g.rawPayload()), Q: r.Intn(6) == 0}
		case 0:
			return &c17spec{K: "syncnil"}
		case 1:
			return &c17spec{K: "syncnilmap"}
		case 2:
			return &c17spec{K: "ptrnil"}
		case 3:
			return g.timeSpec()
		case 4, 5:
			return &c17spec{K: "raw", S: c17hex(g.rawPayload())}
		case 6:
			return &c17spec{K: "rawnil"}
		case 7:
			return &c17spec{K: "rawnilval"}
		default:
			return g.timeSpec()
		}
	}
	switch r.Intn(14) {
	case 0:
		return &c17spec{K: "undef"}
	case 1:
		return &c17spec{K: "bool", U: uint64(r.Intn(2))}
	case 2:
		if r.Intn(2) == 0 {
			return &c17spec{K: "int", U: uint64(c17intEdges[r.Intn(len(c17intEdges))])}
		}
		return &c17spec{K: "int", U: r.Uint64() >> uint(r.Intn(64))}
	case 3:
		if r.Intn(2) == 0 {
			return &c17spec{K: "uint", U: c17uintEdges[r.Intn(len(c17uintEdges))]}
		}
		return &c17spec{K: "uint", U: r.Uint64() >> uint(r.Intn(64))}
	case 4, 5, 6:
		return &c17spec{K: "float", U: math.Float64bits(g.float(r.Intn(12) != 0))}
	case 7:
		if r.Intn(2) == 0 {
			return &c17spec{K: "char", U: uint64(uint32(c17charEdges[r.Intn(len(c17charEdges))]))}
		}
		return &c17spec{K: "char", U: uint64(r.Uint32())}
	case 8, 9, 10:
		return &c17spec{K: "str", S: c17hex(g.str(r.Intn(3) != 0))}
	case 11:
		return &c17spec{K: "bytes", S: c17hex(g.bytesPayload())}
	case 12:
		if r.Intn(8) == 0 {
			return &c17spec{K: []string{"nilarr", "nilmap", "nilbytes"}[r.Intn(3)]}
		}
		return &c17spec{K: "arr"}
	default:
		return &c17spec{K: "map"}
	}
}

func (g *c17gen) timeSpec() *c17spec {
	r := g.r
	var sec int64
	switch r.Intn(6) {
	case 0:
		sec = 0
	case 1:
		sec = 253402300800 + int64(r.Intn(1000)) // year 10000: MarshalJSON errors
	case 2:
		sec = -62167219200 - 86400*int64(1+r.Intn(400)) // before year 0: MarshalJSON errors
	case 3:
		sec = 253402300799 // last second of 9999
	default:
		sec = r.Int63n(4102444800)
	}
	var ns int64
	if r.Intn(2) == 0 {
		ns = int64(r.Intn(1000000000))
	}
	return &c17spec{K: "time", U: uint64(sec), N: ns, Via: []string{"utc", "+05:30", "-08:00", "+00:00:01"}[r.Intn(4)]}
}

func (g *c17gen) rawPayload() string {
	dg := &c17docgen{r: g.r}
	d, _ := dg.randomDoc()
	if len(d) > 300 {
		d = d[:300]
	}
	return string(d)
}

// value generates a spec tree.
func (g *c17gen) value(mode, depth int) *c17spec {
	r := g.r
	g.budget--
	if depth >= 5 || g.budget <= 0 || r.Intn(3) == 0 {
		return g.leaf(mode)
	}
	if mode >= c17mExotic && r.Intn(4) == 0 {
		switch r.Intn(4) {
		case 0:
			sp := &c17spec{K: "sync"}
			g.fillMap(sp, mode, depth)
			return sp
		case 1:
			return &c17spec{K: "ptr", E: []*c17spec{g.value(mode, depth+1)}}
		default:
			sp := &c17spec{K: "opts", E: []*c17spec{g.value(mode, depth+1)}, Q: r.Intn(2) == 0, H: r.Intn(2) == 0}
			switch r.Intn(6) {
			case 0:
				sp.Via, sp.Q, sp.H = "Quote", true, true
			case 1:
				sp.Via, sp.Q, sp.H = "NoQuote", false, true
			case 2:
				sp.Via, sp.Q, sp.H = "NoEscape", false, false
			case 3:
				sp.Via, sp.Q, sp.H = "Quote+NoEscape", true, false
			default:
				sp.Via = "struct"
			}
			if sp.Via != "struct" && sp.E[0].K == "opts" {
				// module functions mutate an existing wrapper in place; keep the spec self-describing
				sp.Via = "struct"
			}
			return sp
		}
	}
	if r.Intn(2) == 0 {
		sp := &c17spec{K: "arr"}
		n := r.Intn(5)
		for i := 0; i < n; i++ {
			sp.E = append(sp.E, g.value(mode, depth+1))
		}
		return sp
	}
	sp := &c17spec{K: "map"}
	g.fillMap(sp, mode, depth)
	return sp
}

func (g *c17gen) fillMap(sp *c17spec, mode, depth int) {
	n := g.r.Intn(5)
	seen := map[string]bool{}
	for i := 0; i < n; i++ {
		k := g.str(mode == c17mRT || g.r.Intn(4) != 0)
		if g.r.Intn(3) == 0 {
			k = g.pick(c17asciiWords)
		}
		if seen[k] {
			continue
		}
		seen[k] = true
		sp.Keys = append(sp.Keys, c17hex(k))
		sp.E = append(sp.E, g.value(mode, depth+1))
	}
}

// top generates one random top-level case and its mode name.
func (g *c17gen) top() (*c17spec, int) {
	g.budget = 6 + g.r.Intn(40)
	x := g.r.Intn(100)
	mode := c17mPlain
	switch {
	case x < 35:
		mode = c17mPlain
	case x < 55:
		mode = c17mRT
	case x < 80:
		mode = c17mExotic
	default:
		mode = c17mAll
	}
	return g.value(mode, 0), mode
}

// ---------------------------------------------------------------------------
// document generator

type c17docgen struct {
	r      *rand.Rand
	budget int
	keys   []string
}

func (g *c17docgen) ws(b *bytes.Buffer) {
	if g.r.Intn(4) != 0 {
		return
	}
	n := 1 + g.r.Intn(2)
	for i := 0; i < n; i++ {
		b.WriteByte(" \t\r\n"[g.r.Intn(4)])
	}
}

func (g *c17docgen) number(b *bytes.Buffer) {
	r := g.r
	if r.Intn(8) == 0 {
		b.WriteString(c17numEdges[r.Intn(len(c17numEdges))])
		return
	}
	if r.Intn(3) == 0 {
		b.WriteByte('-')
	}
	if r.Intn(5) == 0 {
		b.WriteByte('0')
	} else {
		b.WriteByte(byte('1' + r.Intn(9)))
		n := r.Intn(4)
		if r.Intn(10) == 0 {
			n = 15 + r.Intn(10)
		}
		for i := 0; i < n; i++ {
			b.WriteByte(byte('0' + r.Intn(10)))
		}
	}
	if r.Intn(3) == 0 {
		b.WriteByte('.')
		n := 1 + r.Intn(5)
		if r.Intn(10) == 0 {
			n = 17 + r.Intn(10)
		}
		for i := 0; i < n; i++ {
			b.WriteByte(byte('0' + r.Intn(10)))
		}
	}
	if r.Intn(4) == 0 {
		b.WriteByte("eE"[r.Intn(2)])
		switch r.Intn(3) {
		case 0:
			b.WriteByte('+')
		case 1:
			b.WriteByte('-')
		}
		n := 1 + r.Intn(2)
		if r.Intn(6) == 0 {
			n = 3 + r.Intn(2)
		}
		for i := 0; i < n; i++ {
			b.WriteByte(byte('0' + r.Intn(10)))
		}
	}
}

var c17numEdges = []string{"0", "-0", "0.0", "-0.0", "1e308", "1e309", "-1e309", "1.7976931348623157e308", "1.7976931348623158e308", "1.7976931348623159e308",
	"1.797693134862315708145274237317043567981e+308", "179769313486231580793728971405303415079934132710037826936173778980444968292764750946649017977587207096330286416692887910946555547851940402630657488671505820681908902000708383676273854845817711531764475730270069855571366959622842914819860834936475292719074168444365510704342711559699508093042880177904174497791.9999999999999999999999999999999999999999999999999999999999999999999999",
	"4.9e-324", "5e-324", "2.4703282292062327e-324", "2.4703282292062328e-324", "1e-400", "0e999", "0E-999", "1E+2", "1e+2", "1E2", "1e02", "1e-02", "1e0", "2.2250738585072011e-308", "2.2250738585072014e-308",
	"123456789012345678901234567890", "9007199254740993", "0.1", "0.30000000000000004", "1e21", "1e-7", "100000000000000000000000", "-9223372036854775808", "18446744073709551615", "18446744073709551616",
	"0." + strings.Repeat("0", 400) + "1", "1" + strings.Repeat("0", 400), "1" + strings.Repeat("0", 308), "1" + strings.Repeat("0", 309), "0.5e-323", "1e2147483648", "1e-2147483649", "1e99999999999999999999"}

func (g *c17docgen) hex4(b *bytes.Buffer, v int) {
	const up = "0123456789ABCDEF"
	const lo = "0123456789abcdef"
	for s := 12; s >= 0; s -= 4 {
		d := (v >> uint(s)) & 15
		if g.r.Intn(2) == 0 {
			b.WriteByte(up[d])
		} else {
			b.WriteByte(lo[d])
		}
	}
}

func (g *c17docgen) str(b *bytes.Buffer) {
	r := g.r
	b.WriteByte('"')
	n := r.Intn(6)
	if r.Intn(15) == 0 {
		n = 10 + r.Intn(40)
	}
	for i := 0; i < n; i++ {
		switch r.Intn(14) {
		case 0, 1, 2:
			b.WriteString([]string{"a", "key", "Z9", " ", "x y", "0", "'", "/", "~"}[r.Intn(9)])
		case 3:
			b.WriteByte('\\')
			b.WriteByte(`"\/bfnrt`[r.Intn(8)])
		case 4:
			b.WriteString(`\u`)
			g.hex4(b, r.Intn(0x10000))
		case 5: // surrogates: pair, lone high, lone low, reversed, high+non-escape, high+\n
			hi, lo := 0xd800+r.Intn(0x400), 0xdc00+r.Intn(0x400)
			switch r.Intn(7) {
			case 0, 1:
				b.WriteString(`\u`)
				g.hex4(b, hi)
				b.WriteString(`\u`)
				g.hex4(b, lo)
			case 2:
				b.WriteString(`\u`)
				g.hex4(b, hi)
			case 3:
				b.WriteString(`\u`)
				g.hex4(b, lo)
			case 4:
				b.WriteString(`\u`)
				g.hex4(b, lo)
				b.WriteString(`\u`)
				g.hex4(b, hi)
			case 5:
				b.WriteString(`\u`)
				g.hex4(b, hi)
				b.WriteString(`\n`)
			default:
				b.WriteString(`\u`)
				g.hex4(b, hi)
				b.WriteString(`\u`)
				g.hex4(b, r.Intn(0xd800))
			}
		case 6:
			b.WriteString(c17multi[r.Intn(len(c17multi))])
		case 7:
			b.WriteString(c17linesep[r.Intn(len(c17linesep))])
		case 8:
			b.WriteString(c17html[r.Intn(len(c17html))])
		case 9:
			b.WriteString(c17badUTF8[r.Intn(len(c17badUTF8))])
		case 10:
			b.WriteByte(0x7f)
		case 11:
			b.WriteString(`\u00`)
			g.hex4trunc(b, r.Intn(0x20))
		default:
			b.WriteByte(byte(0x20 + r.Intn(0x5f)))
			if c := b.Bytes()[b.Len()-1]; c == '"' || c == '\\' {
				b.Truncate(b.Len() - 1)
			}
		}
	}
	b.WriteByte('"')
}

func (g *c17docgen) hex4trunc(b *bytes.Buffer, v int) {
	b.WriteByte("0123456789abcdef"[(v>>4)&15])
	b.WriteByte("0123456789abcdef"[v&15])
}

func (g *c17docgen) value(b *bytes.Buffer, depth int) {
	r := g.r
	g.budget--
	g.ws(b)
	defer g.ws(b)
	k := r.Intn(10)
	if depth >= 6 || g.budget <= 0 {
		k = r.Intn(6)
	}
	switch k {
	case 0:
		b.WriteString("null")
	case 1:
		b.WriteString([]string{"true", "false"}[r.Intn(2)])
	case 2, 3:
		g.number(b)
	case 4, 5:
		g.str(b)
	case 6, 7:
		b.WriteByte('[')
		n := r.Intn(5)
		if n == 0 {
			g.ws(b)
		}
		for i := 0; i < n; i++ {
			if i > 0 {
				b.WriteByte(',')
			}
			g.value(b, depth+1)
		}
		b.WriteByte(']')
	default:
		b.WriteByte('{')
		n := r.Intn(5)
		if n == 0 {
			g.ws(b)
		}
		for i := 0; i < n; i++ {
			if i > 0 {
				b.WriteByte(',')
			}
			g.ws(b)
			if len(g.keys) > 0 && r.Intn(4) == 0 {
				b.WriteString(g.keys[r.Intn(len(g.keys))]) // duplicate key
			} else {
				start := b.Len()
				g.str(b)
				if len(g.keys) < 8 {
					g.keys = append(g.keys, string(b.Bytes()[start:]))
				}
			}
			g.ws(b)
			b.WriteByte(':')
			g.value(b, depth+1)
		}
		b.WriteByte('}')
	}
}

func (g *c17docgen) valid() []byte {
	var b bytes.Buffer
	g.budget = 4 + g.r.Intn(40)
	g.keys = g.keys[:0]
	g.value(&b, 0)
	return b.Bytes()
}

const c17soup = `{}[]",:0123456789.eE+-tfnrualse\ u` + "\t\n "

var c17soupTokens = []string{"{", "}", "[", "]", ",", ":", `"a"`, `""`, "1", "0", "-1", "1.5", "1e5", "true", "false", "null", " ", "\n", `"\n"`, `"A"`, "-", "e", ".", `"`, `\`, "tru", "nul", "01", "1.", "[]", "{}", `{"a":1}`, "\t", "\r"}

func (g *c17docgen) mutate(d []byte) []byte {
	r := g.r
	d = append([]byte(nil), d...)
	n := 1 + r.Intn(3)
	for m := 0; m < n; m++ {
		pos := 0
		if len(d) > 0 {
			pos = r.Intn(len(d))
		}
		switch r.Intn(13) {
		case 0: // delete byte
			if len(d) > 0 {
				d = append(d[:pos], d[pos+1:]...)
			}
		case 1: // insert soup byte
			d = append(d[:pos], append([]byte{c17soup[r.Intn(len(c17soup))]}, d[pos:]...)...)
		case 2: // insert arbitrary byte
			d = append(d[:pos], append([]byte{byte(r.Intn(256))}, d[pos:]...)...)
		case 3: // replace with soup byte
			if len(d) > 0 {
				d[pos] = c17soup[r.Intn(len(c17soup))]
			}
		case 4: // replace with arbitrary byte
			if len(d) > 0 {
				d[pos] = byte(r.Intn(256))
			}
		case 5: // truncate
			d = d[:pos]
		case 6: // duplicate a slice
			if len(d) > 0 {
				e := pos + r.Intn(len(d)-pos+1)
				d = append(d[:e], append(append([]byte(nil), d[pos:e]...), d[e:]...)...)
			}
		case 7: // swap
			if len(d) > 1 {
				q := r.Intn(len(d))
				d[pos], d[q] = d[q], d[pos]
			}
		case 8: // trailing garbage
			d = append(d, []string{"x", " 1", "]", "}", ",", "\x00", "null", " \n\t", "\xef\xbb\xbf", "//c", "[]"}[r.Intn(11)]...)
		case 9: // BOM / leading garbage
			d = append([]byte([]string{"\xef\xbb\xbf", "\xfe\xff", " ", "\n", "\x00", "+", "x"}[r.Intn(7)]), d...)
		case 10: // raw control char
			d = append(d[:pos], append([]byte{byte(r.Intn(0x20))}, d[pos:]...)...)
		case 11: // break an escape
			if i := bytes.IndexByte(d[pos:], '\\'); i >= 0 && pos+i+1 < len(d) {
				d[pos+i+1] = "'xaUv0 \n"[r.Intn(8)]
			}
		default: // insert token
			d = append(d[:pos], append([]byte(c17soupTokens[r.Intn(len(c17soupTokens))]), d[pos:]...)...)
		}
	}
	return d
}

// randomDoc returns one seeded document and its kind.
func (g *c17docgen) randomDoc() ([]byte, string) {
	r := g.r
	switch x := r.Intn(100); {
	case x < 40:
		return g.valid(), "generated"
	case x < 75:
		return g.mutate(g.valid()), "mutated"
	case x < 88:
		n := 1 + r.Intn(10)
		var b bytes.Buffer
		for i := 0; i < n; i++ {
			b.WriteString(c17soupTokens[r.Intn(len(c17soupTokens))])
		}
		return b.Bytes(), "soup"
	case x < 94:
		n := r.Intn(12)
		b := make([]byte, n)
		for i := range b {
			b[i] = c17soup[r.Intn(len(c17soup))]
		}
		return b, "soup"
	default:
		n := r.Intn(24)
		b := make([]byte, n)
		for i := range b {
			b[i] = byte(r.Intn(256))
		}
		return b, "bytes"
	}
}

// c17edgeDocs is the fixed list (also the "corpus seeds" of the non-triviality rule).
func c17edgeDocs() [][]byte {
	var l [][]byte
	add := func(s string) { l = append(l, []byte(s)) }
	for _, n := range c17numEdges {
		add(n)
		add("[" + n + "]")
		add(`{"a":` + n + `,"b":2}`)
		add("-" + n)
		add(" " + n + " ")
	}
	for _, s := range []string{"", " ", "\n", "01", "-", "-a", "1.", "1.e1", ".5", "0x10", "1e", "1e+", "1e-", "-01", "00", "+1", "1.5.2", "1e5e5", "--1", "- 1", "1 .5", "1e 5", "Infinity", "NaN", "-Infinity", "1_000",
		"nul", "null1", "nulll", "NULL", "True", "tru", "truee", "fals", "false0", "n", "t", "f",
		`"`, `""`, `"a`, `"\`, `"\"`, `"\u`, `"\u1`, `"\u12`, `"\u123`, `"\u1234`, `"\u1234"`, `"\ud834\udd1e"`, `"\ud834"`, `"\udd1e"`, `"\udd1e\ud834"`, `"\ud834A"`, `"\ud834\ud834\udd1e"`, `"\ud834x"`, `"\ud834\n"`,
		`"\ud800\udc00"`, `"\udbff\udfff"`, `"\uD800\uDBFF"`, `"\uDC00\uDC00"`, `"\u0000"`, `"\uffff"`, `"\ufffe"`, `"\ufffd"`, `"\u00e9"`, `"\u12G4"`, `"\U1234"`, `"\x41"`, `"\'"`, `'a'`, `"\a"`, `"\v"`, `"\0"`, `"\e"`, "\"\\\n\"",
		"\"\t\"", "\"\n\"", "\"\x00\"", "\"\x1f\"", "\"\x7f\"", "\"\x80\"", "\"\xff\"", "\"\xc0\x80\"", "\"\xed\xa0\x80\"", "\"\xe2\x80\xa8\"", "\"\xe2\x80\xa9\"", "\"\xe2\x80\"", "\"<>&\"", "\"\xef\xbb\xbf\"",
		"[]", "[ ]", "{}", "{ }", "[,]", "[1,]", "[,1]", "[1,,2]", "[1 2]", "[1:2]", "{,}", `{"a"}`, `{"a":}`, `{"a":1,}`, `{,"a":1}`, `{"a":1 "b":2}`, `{"a"::1}`, `{a:1}`, `{1:1}`, `{"a":1}}`, `{"a":1}]`, `[1]]`, `[1}`, `{"a":1]`, `[`, `{`, `]`, `}`, `[[`, `{"a":`, `{"a"`, `{"a":1`, `[1`, `[1,`,
		`{"a":1,"a":2}`, `{"a":1,"a":2,"a":{"a":3,"a":[4]}}`, `{"a":1,"a":2}`, `{"":1,"":2}`, "{\"\xff\":1,\"\xfe\":2}", `{"\ud800":1,"\udc00":2}`, `{"k":null,"k":1}`,
		"\xef\xbb\xbf{}", "\xef\xbb\xbf1", "\xfe\xff", "\xff\xfe[\x00]\x00", "{}\xef\xbb\xbf", "1 2", "1,2", "[] []", "{}{}", "null null", `"a""b"`, "1\x00", "1\x0c", "1\x0b", "\x0c1", "1\u00a0", "\u00a01", "1\u2028", "\u20281", "[1]\n", "\r\n[1]\r\n", "\t1\t",
		"true", "false", "null", " true", "true ", "[true,false,null]", `{"t":true,"f":false,"n":null}`, "/*c*/1", "1//c", "[1,/**/2]", "#1", "1;", "(1)", "`a`", `{"a":undefined}`, "undefined",
		`"\/"`, `"\\\/\"\b\f\n\r\t"`, `"\b"`, `"\f"`, `"\\b"`, `"\\\b"`, `"/"`, `"a\/b"`, `"</script>"`, `"<>&"`, `"\u2028\u2029"`, "\"\u2028\u2029\"", `["<",">","&"]`, "{\"<\":\">\",\"&\":\"\u2028\"}",
		"\"\xe2\x80\xa8", "[\"\xe2\x80\xa8\",\"\xe2\x80\xa9\"]", "\xe2\x80\xa8", "[\xe2\x80\xa8]", "[1\xe2\x80\xa8]", "\"a\"\xe2\x80\xa8", "<", "[<]", "[1]<", "&", ">",
	} {
		add(s)
	}
	// every single-character escape and every raw byte inside a string / at top level
	for c := 0; c < 256; c++ {
		add("\"\\" + string([]byte{byte(c)}) + "\"")
		add("\"a" + string([]byte{byte(c)}) + "b\"")
		add(string([]byte{byte(c)}))
		add("[1" + string([]byte{byte(c)}) + "2]")
		add("1" + string([]byte{byte(c)}))
	}
	return l
}

// c17deepRecipe describes a deep document compactly.
type c17deepRecipe struct {
	Shape  string // "arr" "obj" "mix" "arrws"
	Depth  int
	Leaf   string
	Closes int // number of closers emitted (Depth = balanced)
	Tail   string
}

func (rc c17deepRecipe) String() string {
	return fmt.Sprintf("deep{%s depth=%d leaf=%q closes=%d tail=%q}", rc.Shape, rc.Depth, rc.Leaf, rc.Closes, rc.Tail)
}

func (rc c17deepRecipe) build() []byte {
	var b bytes.Buffer
	var closers []byte
	for i := 0; i < rc.Depth; i++ {
		sh := rc.Shape
		if sh == "mix" {
			sh = []string{"arr", "obj", "arrws"}[i%3]
		}
		switch sh {
		case "arr":
			b.WriteByte('[')
			closers = append(closers, ']')
		case "arrws":
			b.WriteString("[ 0,")
			closers = append(closers, ']')
		default:
			b.WriteString(`{"a":`)
			closers = append(closers, '}')
		}
	}
	b.WriteString(rc.Leaf)
	for i := 0; i < rc.Closes && i < len(closers); i++ {
		b.WriteByte(closers[len(closers)-1-i])
	}
	b.WriteString(rc.Tail)
	return b.Bytes()
}

func c17deepRecipes(thorough bool) []c17deepRecipe {
	var l []c17deepRecipe
	depths := []int{1, 2, 100, 999, 1000, 1001, 5000}
	for d := 9990; d <= 10010; d++ {
		depths = append(depths, d)
	}
	if thorough {
		depths = append(depths, 9000, 9500, 10100, 11000, 20000, 50000)
	}
	for _, d := range depths {
		for _, sh := range []string{"arr", "obj", "mix"} {
			for _, leaf := range []string{"", "1", `"x"`, "null"} {
				if leaf == "" && sh != "arr" {
					if sh == "obj" {
						// innermost `{"a":` needs a value; use an empty object leaf instead
						leaf = "{}"
					} else {
						continue
					}
				}
				l = append(l, c17deepRecipe{sh, d, leaf, d, ""})
			}
			l = append(l, c17deepRecipe{sh, d, "1", d - 1, ""})
			l = append(l, c17deepRecipe{sh, d, "1", d, "]"})
			l = append(l, c17deepRecipe{sh, d, "[]", d, " "})
		}
	}
	return l
}

func c17quoteDoc(d []byte) string {
	if len(d) <= 6000 {
		return strconv.Quote(string(d))
	}
	return strconv.Quote(string(d[:3000])) + "...(" + strconv.Itoa(len(d)) + " bytes)..." + strconv.Quote(string(d[len(d)-1000:]))
}
