package props

import (
	"testing"
)

var smokeScripts = []string{
	`return 1 + 2 * 3`,
	`a := 1; f := func() { a *= 10; return a }; g := func() { a++; return a }; h := func() { a += 2; return a }; d := {}; d[f()] = [g(), h()]; return d`,
	`var f; for i := 0; i < 3; i++ { f = func(){ return i } }; return f()`,
	`var f; for i := 0; i < 3; i++ { i := i; f = func(){ return i } }; return f()`,
	`const ( x = 1<<iota; y; z ); return [x,y,z]`,
	`const ( _ = iota; x = "string" + iota; y ); return [x, y]`,
	`iota := "foo"; const ( x = iota; y ); return [x,y]`,
	`variadic := func (a, b, ...c) { return [a, b, c] }; return [variadic(1, 2, 3, 4), variadic(1,2), variadic(...[1,2,3])]`,
	`f1 := func(a, b, c) { return a + b + c }; return [f1(...[1, 2, 3]), f1(1, ...[2, 3]), f1(1, 2, ...[3])]`,
	`f1 := func(a, b, c) { return a + b + c }; return f1(...[1, 2])`,
	`x, y, z := [1, 2]; var (p, q); p, q = 1; m := {}; var w; m.y, w = [7, 8]; return [x,y,z,p,q,m,w]`,
	`fs := []; for i, v in [10,20,30] { fs = append(fs, func(){ return i*100+v }) }; r := []; for f in fs { r = append(r, f()) }; return r`,
	`try { L("a"); throw "boom" } catch e { L("c", e.Message) } finally { L("f") }; return 1`,
	`f := func() { try { return 1 } finally { L("fin") } }; return f()`,
	`f := func() { for i := 0; i < 3; i++ { try { if i == 1 { continue }; if i == 2 { break }; L("body", i) } finally { L("fin", i) } }; return "done" }; return f()`,
	`f := func() { try { return 1 } finally { return 2 } }; return f()`,
	`z := 0; try { x := 1 / z } catch e { return e.Name }`,
	`var f2; f := func(n) { if n == 0 { throw error("deep") }; return f2(n-1) }; f2 = f; try { f(3) } catch e { return e.Message }`,
	`var f; f = func(n, a) { if n == 0 { return a }; return f(n-1, a+n) }; return f(100, 0)`,
	`m := {a: {b: [1,2,{c: 5}]}}; m.a.b[2].c += 10; m.a["b"][0]++; return m`,
	`s := "hello world"; return [s[2:5], s[:3], s[8:], [1,2,3,4][1:3]]`,
	`a := 5; b := a > 3 ? "big" : "small"; c := a > 3 && a < 10; d := false || "x"; return [b, c, d, !a, -a, ^a]`,
	`global g; g = 5; g2 := globals(); return [g, g2["g"]]`,
	`param (a, ...b); return [a, b]`,
	`x := 1; if true { x := 2; L(x) }; if y := x + 1; y > 1 { L(y) } else { L("no") }; return x`,
	`f := func() { return 1, 2, 3 }; a, b, c := f(); return a + b + c`,
	`out := []; for i := 0; i < 5; i++ { if i % 2 == 0 { continue }; for j := 0; j < 5; j++ { if j > i { break }; out = append(out, [i, j]) } }; return out`,
	`m := import("m1"); n := import("m1"); m.inc(); n.inc(); return [m.get(), import("m2")()]`,
	`x := undefined; return x.a.b.c`,
	`x := [1]; return x[5]`,
	`x := 5; return x()`,
	`try {} finally {}; try { for i := 0; i < 1; i++ { try { break } finally { L("A") } }; L("X") } finally { L("B") }`,
	`f := func() { try { return 1 } finally { try {} finally {} }; return 2 }; return f()`,
	`try { try { throw "e" } finally { try {} finally {}; L("after") } } catch x { L(x.Message) }`,
	`try { try { throw "a" } finally { try { throw "b" } catch {} ; L("fin") } } catch x { L(x.Message) }`,
	`f := func(){ try { return 1 } finally { try { throw "b" } catch {} } }; return f()`,
	`f := func() { for i := 0; i < 2; i++ { try { L("t", i) } finally { if i == 0 { continue }; L("f", i) } }; try { return "r" } finally { L("z") } }; return f()`,
	`f := func() { for i := 0; i < 3; i++ { try { try { if i == 1 { break } } finally { L("in", i) } } finally { L("out", i) } }; return "done" }; return f()`,
	`f := func() { try { throw "x" } catch e { return "c" } finally { L("fin") } }; return f()`,
	`f := func() { try { throw "x" } catch e { throw "y" } finally { L("fin") } }; try { f() } catch e2 { return e2.Message }`,
	`f := func() { for i := 0; i < 2; i++ { try { throw "x" } finally { break } }; return "after" }; return f()`,
	`counter := func() { c := 0; return {inc: func() { c++; return c }, get: func() { return c }} }; a := counter(); b := counter(); a.inc(); a.inc(); b.inc(); return [a.get(), b.get()]`,
}

func TestRefSmoke(t *testing.T) {
	for i, src := range smokeScripts {
		p := &Program{Src: "global L; " + src, Modules: map[string]string{
			"m1": `global L; c := 0; L("m1 body"); return {inc: func() { c++ }, get: func() { return c }}`,
			"m2": `global L; m := import("m1"); L("m2 body"); return func() { return m.get() + 100 }`,
		}}
		for _, opt := range []int{-1, 0} {
			cr := compileProgram(p, opt)
			if cr.err != nil || cr.panicv != "" {
				t.Errorf("#%d compile: %v %s\n%s", i, cr.err, cr.panicv, src)
				continue
			}
			vm := runVM(cr.bc, nil, nil, false)
			r := runRef(p, nil, nil, 100000)
			if r.Discard != "" {
				t.Errorf("#%d ref discard: %s\n%s", i, r.Discard, src)
				continue
			}
			if ok, why := sameOutcome(vm, r); !ok {
				t.Errorf("#%d opt=%d MISMATCH %s\n  src: %s\n  vm:  %+v\n  ref: %+v", i, opt, why, src, vm, r.Outcome)
			}
		}
	}
}
