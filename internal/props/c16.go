package props

import (
	"encoding/json"
	"errors"
	"fmt"
	"math/rand"
	"strings"

	"github.com/ozanh/ugo"
	"github.com/ozanh/ugo/parser"

	"verif/internal/core"
)

// C16 — runtime errors report the true source locations.
type c16 struct{}

func init() { core.Register(c16{}) }

func (c16) ID() string    { return "C16" }
func (c16) Level() string { return "exploration" }
func (c16) Race() bool    { return false }
func (c16) Rule() string {
	return "the generator builds a call chain main -> f1 -> ... -> fN (N in 0..8, all functions distinct, one statement per line, filler/blank/comment lines, CRLF line ends, last line without newline) whose last function fails " +
		"(throw of error/string, failing operator, failing builtin, wrong argument count, index out of range, call of a non-callable, error returned by a Go callback, error inside for/if/try re-thrown through finally); " +
		"callees are closures, map-stored functions called by selector, functions from source modules (2nd/3rd file), functions passed as arguments. The expected StackTrace [(file,line)...] is known by construction. " +
		"Checked: exact equality of the (file,line) list outermost first; every position inside the text of the file it names; same list with optimizer off/on and after encode->decode; after prepending k in {1,7,300} blank or comment lines " +
		"to the main script every main-file line moves by exactly k. Compile-time variants: an unresolved reference / a parse error planted on a known line is reported on that line. " +
		"non-trivial = depth >= 2 or >= 2 files involved; distinct by source hash"
}
func (c16) Batches(string) int { return 32 }
func (c16) Required(string) []string {
	return []string{"chains", "traces_checked", "cfg.noopt", "cfg.opt", "cfg.encoded", "byte_zero_chains", "shift.300", "fail.throw-error", "fail.folded-lhs", "fail.folded-call", "fail.folded-index", "fail.const-lhs", "fail.operator", "fail.builtin", "fail.arity", "fail.index", "fail.notcallable", "fail.gocallback", "fail.finally-rethrow",
		"callee.closure", "callee.selector", "callee.module", "callee.argument", "multi_file_traces", "compile_error_positions", "depth.8"}
}
func (c16) Assumptions() []string {
	return []string{"the expected trace is computed by the generator from the line on which it wrote each call / failing statement", "direct recursion and self tail calls are not generated (the statement does not fix what they print)"}
}

type c16chain struct {
	Main    string            `json:"main"`
	Modules map[string]string `json:"modules,omitempty"`
	Expect  []string          `json:"expected_trace"` // "file:line"
	Depth   int               `json:"depth"`
	Fail    string            `json:"fail"`
	Callees []string          `json:"callees"`
	CRLF    bool              `json:"crlf"`
}

type c16wit struct {
	Chain  c16chain `json:"chain"`
	Config string   `json:"config"`
	Shift  int      `json:"shift"`
	Got    []string `json:"got_trace"`
	Want   []string `json:"want_trace"`
	Why    string   `json:"why"`
}

// constant sub-expressions the optimizer replaces by one literal
var c16folded = []string{"2 * 1.5", "1.5 * 2", "(1 + 2)", "1 + 2", "-3", "\"a\" + \"b\"", "2u << 1", "'a' + 1", "7 % 4", "1 + 2 * 3", "(2 * 1.5) * 2", "1 + 1.5 + 2", "3 - 1u", "10 / 4.0", "5 &^ 1"}

// c16foldedPick >= 0 fixes the constant sub-expression used by the folded-* kinds (exhaustive part); -1 = random
var c16foldedPick = -1

func c16pickFolded(r *rand.Rand) string {
	if c16foldedPick >= 0 {
		return c16folded[c16foldedPick%len(c16folded)]
	}
	return c16folded[r.Intn(len(c16folded))]
}

var c16fails = []string{"folded-lhs", "folded-call", "folded-index", "const-lhs", "throw-error", "throw-string", "operator", "builtin", "arity", "index", "notcallable", "gocallback", "finally-rethrow", "in-loop-if"}

type c16file struct {
	name  string
	lines []string
}

func (f *c16file) add(s string) int {
	f.lines = append(f.lines, s)
	return len(f.lines)
}

func c16filler(r *rand.Rand, f *c16file) {
	for k := r.Intn(3); k > 0; k-- {
		switch r.Intn(7) {
		case 4:
			// block comment spanning several lines
			n := 2 + r.Intn(3)
			f.add("/* block comment, line 1")
			for i := 2; i < n; i++ {
				f.add(fmt.Sprintf("   line %d of the comment", i))
			}
			f.add("   last line */")
		case 5:
			// raw string literal spanning several lines
			f.add(fmt.Sprintf("raw%d := `first", len(f.lines)))
			for i := r.Intn(3); i > 0; i-- {
				f.add("  middle")
			}
			f.add("last`")
		case 6:
			// a statement continued over several lines, and a trailing block comment that ends on a later line
			f.add(fmt.Sprintf("cont%d := [1,", len(f.lines)))
			f.add("  2,")
			f.add("  3] /* tail")
			f.add("*/")
		case 0:
			f.add("")
		case 1:
			f.add("// comment " + fmt.Sprint(r.Intn(100)))
		case 2:
			f.add(fmt.Sprintf("pad%d := %d", len(f.lines), r.Intn(50)))
		default:
			f.add("/* block comment */")
		}
	}
}

// failLines writes the failing statement(s) into f and returns the line that must be reported.
func c16failLines(r *rand.Rand, f *c16file, kind, ind string) int {
	switch kind {
	case "const-lhs":
		// the failing expression starts with a literal-valued constant (replaced by the optimizer)
		f.add(ind + "const kc = 7")
		f.add(ind + "em := {}")
		if r.Intn(2) == 0 {
			// the constant is referenced before (other lines, other positions in an expression) and after the failing use
			f.add(ind + "first := kc + 1")
			f.add(ind + "second := [kc, 2 * kc]")
			ln := f.add(ind + "q := kc - em")
			f.add(ind + "third := kc")
			return ln
		}
		return f.add(ind + "q := kc - em")
	case "folded-lhs":
		// the failing operator's left operand is a constant sub-expression folded by the optimizer
		f.add(ind + "em := {}")
		return f.add(ind + "q := " + c16pickFolded(r) + " - em")
	case "folded-call":
		return f.add(ind + "q := (" + c16pickFolded(r) + ")(1)")
	case "folded-index":
		f.add(ind + "arr := [1, 2]")
		return f.add(ind + "q := (" + c16pickFolded(r) + ")[arr]")
	case "throw-error":
		return f.add(ind + "throw error(\"boom\")")
	case "throw-string":
		return f.add(ind + "throw \"str\"")
	case "operator":
		f.add(ind + "zero := 0")
		return f.add(ind + "q := 10 / zero")
	case "builtin":
		return f.add(ind + "q := int(y, 2, 3)")
	case "arity":
		f.add(ind + "two := func(a, b) { return a }")
		return f.add(ind + "two(1)")
	case "index":
		f.add(ind + "arr := [1, 2]")
		return f.add(ind + "q := arr[5]")
	case "notcallable":
		f.add(ind + "five := 5")
		return f.add(ind + "five(1)")
	case "gocallback":
		return f.add(ind + "GOERR(1)")
	case "finally-rethrow":
		f.add(ind + "try {")
		ln := f.add(ind + "  throw error(\"in try\")")
		f.add(ind + "} finally {")
		f.add(ind + "  pad := 1")
		f.add(ind + "}")
		return ln
	default: // in-loop-if
		f.add(ind + "for i := 0; i < 3; i++ {")
		f.add(ind + "  if i == 1 {")
		ln := f.add(ind + "    throw error(\"loop\")")
		f.add(ind + "  }")
		f.add(ind + "}")
		return ln
	}
}

// c16callLines adds the statement "<target> := <call>" to f, directly or inside a try statement (the call made from
// the try body, from the catch block or from the finally block, where the frame's error handler is already used up),
// and returns the line of the call.
func c16callLines(r *rand.Rand, f *c16file, ind, target, call string) (int, string) {
	switch r.Intn(6) {
	case 0:
		f.add(ind + target + " := undefined")
		f.add(ind + "try {")
		f.add(ind + "  pad := 1")
		f.add(ind + "} finally {")
		ln := f.add(ind + "  " + target + " = " + call)
		f.add(ind + "}")
		return ln, "call-in-finally"
	case 1:
		f.add(ind + target + " := undefined")
		f.add(ind + "try {")
		f.add(ind + "  throw \"pre\"")
		f.add(ind + "} catch {")
		ln := f.add(ind + "  " + target + " = " + call)
		f.add(ind + "}")
		return ln, "call-in-catch"
	case 2:
		f.add(ind + target + " := undefined")
		f.add(ind + "try {")
		ln := f.add(ind + "  " + target + " = " + call)
		f.add(ind + "} finally {")
		f.add(ind + "  pad := 2")
		f.add(ind + "}")
		return ln, "call-in-try"
	case 3:
		f.add(ind + target + " := undefined")
		f.add(ind + "try {")
		f.add(ind + "  throw \"pre\"")
		f.add(ind + "} catch {")
		f.add(ind + "  pad := 3")
		f.add(ind + "} finally {")
		f.add(ind + "  try {")
		f.add(ind + "    pad := 4")
		f.add(ind + "  } finally {")
		ln := f.add(ind + "    " + target + " = " + call)
		f.add(ind + "  }")
		f.add(ind + "}")
		return ln, "call-in-nested-finally"
	}
	return f.add(ind + target + " := " + call), "call-plain"
}

// c16build builds one chain.
func c16build(r *rand.Rand, depth int, fail string) c16chain {
	ch := c16chain{Depth: depth, Fail: fail, Modules: map[string]string{}}
	main := &c16file{name: "(main)"}
	main.add("global GOERR")
	c16filler(r, main)
	// functions are defined bottom-up so that each can reference the next one
	type fninfo struct {
		callExpr func(arg string) string // how the caller invokes it
		prelude  []string                // lines the *caller's file* needs before the call (e.g. import)
		file     string
		kind     string
	}
	fns := make([]*fninfo, depth+1)
	var expect []string // built innermost first, reversed at the end
	nextCall := ""      // expression calling function i+1 from inside function i
	var nextPrelude []string
	modCount := 0
	// the innermost body fails; bodies of f_i (i<depth) call f_{i+1}
	for i := depth; i >= 1; i-- {
		kind := []string{"closure", "selector", "module", "argument"}[r.Intn(4)]
		if kind == "module" && i < depth && fns[i+1].kind != "module" {
			// a module cannot see functions defined in the main script
			kind = []string{"closure", "selector", "argument"}[r.Intn(3)]
		}
		name := fmt.Sprintf("f%d", i)
		fi := &fninfo{kind: kind}
		var body *c16file
		ind := "  "
		switch kind {
		case "module":
			modCount++
			mname := fmt.Sprintf("mod%d", i)
			body = &c16file{name: mname}
			body.add("global GOERR")
			c16filler(r, body)
			body.add("return func(x) {")
			fi.file = mname
		default:
			body = main
			fi.file = "(main)"
			c16filler(r, main)
			switch kind {
			case "closure":
				main.add(fmt.Sprintf("cap%d := %d", i, i))
				main.add(name + " := func(x) {")
			case "selector":
				main.add(fmt.Sprintf("obj%d := {}", i))
				main.add(fmt.Sprintf("obj%d.%s = func(x) {", i, name))
			case "argument":
				main.add(name + " := func(x) {")
			}
		}
		if kind == "closure" {
			body.add(ind + fmt.Sprintf("y := x + cap%d", i))
		} else {
			body.add(ind + "y := x + 1")
		}
		c16filler(r, body)
		var ln int
		if i == depth {
			ln = c16failLines(r, body, fail, ind)
		} else {
			for _, pl := range nextPrelude {
				body.add(ind + pl)
			}
			var how string
			ln, how = c16callLines(r, body, ind, "r", nextCall)
			ch.Callees = append(ch.Callees, how)
			body.add(ind + "return r")
		}
		expect = append(expect, fmt.Sprintf("%s:%d", fi.file, ln))
		body.add("}")
		if kind == "module" {
			ch.Modules[body.name] = strings.Join(body.lines, "\n") + "\n"
		}
		// how the caller (function i-1, or main) calls this function
		switch kind {
		case "closure":
			nextCall, nextPrelude = name+"(y)", nil
		case "selector":
			nextCall, nextPrelude = fmt.Sprintf("obj%d.%s(y)", i, name), nil
		case "module":
			nextCall, nextPrelude = fmt.Sprintf("imp%d(y)", i), []string{fmt.Sprintf("imp%d := import(\"mod%d\")", i, i)}
		case "argument":
			nextCall, nextPrelude = fmt.Sprintf("func(g, v) { return g(v) }(%s, y)", name), nil
		}
		if kind == "argument" {
			// the helper literal adds its own frame on the same line: calling line listed twice is merged only if the positions are equal,
			// so call through a named helper defined on its own line instead
			nextCall = "" // set below
		}
		fns[i] = fi
		if kind == "argument" {
			// define a named apply helper in the caller's file (main), on its own line
			hl := main.add(fmt.Sprintf("apply%d := func(g, v) {", i))
			_ = hl
			al := main.add("  return g(v)")
			main.add("}")
			// caller line -> apply line -> callee...
			expect = append(expect, fmt.Sprintf("(main):%d", al))
			nextCall = fmt.Sprintf("apply%d(%s, y)", i, name)
		}
		ch.Callees = append(ch.Callees, kind)
	}
	c16filler(r, main)
	main.add("y := 1")
	var ln int
	if depth == 0 {
		ln = c16failLines(r, main, fail, "")
	} else {
		for _, pl := range nextPrelude {
			main.add(pl)
		}
		var how string
		ln, how = c16callLines(r, main, "", "res", nextCall)
		ch.Callees = append(ch.Callees, how)
		main.add("return res")
	}
	expect = append(expect, fmt.Sprintf("(main):%d", ln))
	// reverse: outermost first
	for i, j := 0, len(expect)-1; i < j; i, j = i+1, j-1 {
		expect[i], expect[j] = expect[j], expect[i]
	}
	ch.Expect = expect
	sep := "\n"
	if r.Intn(4) == 0 {
		sep = "\r\n"
		ch.CRLF = true
	}
	ch.Main = strings.Join(main.lines, sep)
	if r.Intn(2) == 0 {
		ch.Main += sep
	}
	return ch
}

func c16globals() ugo.Map {
	return ugo.Map{"GOERR": &ugo.Function{Name: "GOERR", Value: func(...ugo.Object) (ugo.Object, error) {
		return nil, errors.New("go callback failed")
	}}}
}

func traceList(err error) ([]string, []parser.SourceFilePos) {
	var re *ugo.RuntimeError
	if !errors.As(err, &re) {
		return nil, nil
	}
	st := re.StackTrace()
	out := make([]string, len(st))
	for i, p := range st {
		out[i] = fmt.Sprintf("%s:%d", p.Filename, p.Line)
	}
	return out, st
}

func c16collapse(l []string) []string {
	var out []string
	for i, e := range l {
		if i == 0 || l[i-1] != e {
			out = append(out, e)
		}
	}
	return out
}

func shiftExpect(expect []string, k int) []string {
	out := make([]string, len(expect))
	for i, e := range expect {
		if strings.HasPrefix(e, "(main):") {
			var n int
			fmt.Sscanf(strings.TrimPrefix(e, "(main):"), "%d", &n)
			out[i] = fmt.Sprintf("(main):%d", n+k)
		} else {
			out[i] = e
		}
	}
	return out
}

func (m c16) checkChain(c *core.Ctx, ch c16chain) {
	files := map[string]string{"(main)": ch.Main}
	for k, v := range ch.Modules {
		files[k] = v
	}
	for _, shift := range []struct {
		k       int
		comment bool
	}{{0, false}, {1, false}, {7, true}, {300, false}, {300, true}} {
		prefix := strings.Repeat("\n", shift.k)
		if shift.comment {
			prefix = strings.Repeat("// pad\n", shift.k)
		}
		src := prefix + ch.Main
		want := shiftExpect(ch.Expect, shift.k)
		mm := ugo.NewModuleMap()
		for name, msrc := range ch.Modules {
			mm.AddSourceModule(name, []byte(msrc))
		}
		for _, cfg := range []string{"noopt", "opt", "encoded"} {
			if shift.k != 0 && cfg == "encoded" {
				continue
			}
			cr := safeCompile([]byte(src), ugo.CompilerOptions{ModuleMap: mm, NoOptimize: cfg == "noopt"})
			if cr.panicv != "" || cr.err != nil {
				c.Count("discarded_compile_error")
				c.SetAdd("compile_errors", trunc(core.NormMsg(fmt.Sprint(cr.err)+cr.panicv), 80))
				continue
			}
			bc := cr.bc
			if cfg == "encoded" {
				b, err, pan := safeEncode(bc)
				if err != nil || pan != "" {
					continue
				}
				dec, err, pan := safeDecode(b, mm)
				if err != nil || pan != "" {
					c.Violation("C16|decode-fails", "decode of compiler output fails: "+fmt.Sprint(err)+pan, c16wit{Chain: ch, Config: cfg})
					continue
				}
				bc = dec
			}
			var err error
			func() {
				defer func() {
					if r := recover(); r != nil {
						err = fmt.Errorf("host panic: %v", r)
					}
				}()
				_, err = ugo.NewVM(bc).Run(c16globals())
			}()
			got, pos := traceList(err)
			c.Count("traces_checked")
			c.Count("cfg." + cfg)
			c.Count(fmt.Sprintf("shift.%d", shift.k))
			wit := func(why string) c16wit {
				return c16wit{Chain: ch, Config: cfg, Shift: shift.k, Got: got, Want: want, Why: why}
			}
			if err == nil || got == nil {
				c.Violation("C16|no-trace|"+ch.Fail, "the failing chain returned no runtime error with a stack trace: "+fmt.Sprint(err), wit("no trace"))
				return
			}
			// direct recursion through ONE call statement: the implementation lists that line once for adjacent
			// activations; the statement ("in every function still active") does not settle whether every activation must
			// be listed, so runs of identical adjacent entries are compared as one entry on both sides. Non-adjacent
			// repeats (re-entered helpers, mutual recursion) are part of the order "outermost to innermost" and must be there.
			if strings.Join(c16collapse(got), " ") != strings.Join(c16collapse(want), " ") {
				why := "stack trace lines differ from the call/fail lines"
				cls := "lines"
				if len(got) != len(want) {
					cls = "length"
				}
				if shift.k != 0 {
					cls += "-shifted"
				}
				c.Violation("C16|trace|"+cls+"|"+cfg+"|"+ch.Fail, why, wit(why))
				return
			}
			// every position lies inside the text of the file it names
			for _, p := range pos {
				text, ok := files[p.Filename]
				if p.Filename == "(main)" {
					text, ok = src, true
				}
				if !ok {
					c.Violation("C16|unknown-file", "trace names an unknown file "+p.Filename, wit("unknown file"))
					return
				}
				lines := strings.Split(text, "\n")
				if p.Line < 1 || p.Line > len(lines) || p.Column < 1 || p.Column > len(lines[p.Line-1])+1 || p.Offset < 0 || p.Offset > len(text) {
					c.Violation("C16|position-outside-file|"+cfg, fmt.Sprintf("position %s:%d:%d (offset %d) is outside the file text", p.Filename, p.Line, p.Column, p.Offset), wit("position outside file"))
					return
				}
			}
		}
	}
}

func (m c16) compileErrorPositions(c *core.Ctx, r *rand.Rand) {
	// an unresolved reference / a parse error planted on a known line (main and module)
	pre := r.Intn(30)
	var lines []string
	for i := 0; i < pre; i++ {
		lines = append(lines, []string{"", "// c", fmt.Sprintf("v%d := %d", i, i)}[r.Intn(3)])
	}
	bad := []struct{ text, kind string }{{"x := undefinedName + 1", "compile"}, {"y := ((1 + 2)", "parse"}, {"const z", "parse"}, {"break", "compile"}}[r.Intn(4)]
	lines = append(lines, bad.text)
	want := len(lines)
	lines = append(lines, "return 1")
	src := strings.Join(lines, "\n")
	for _, inModule := range []bool{false, true} {
		var err error
		mm := ugo.NewModuleMap()
		text := src
		if inModule {
			mm.AddSourceModule("m", []byte(src))
			text = "\n\nreturn import(\"m\")\n"
		}
		cr := safeCompile([]byte(text), ugo.CompilerOptions{ModuleMap: mm})
		err = cr.err
		if cr.panicv != "" || err == nil {
			c.Count("compile_error_probe_no_error")
			continue
		}
		line := -1
		file := ""
		var ce *ugo.CompilerError
		var pl parser.ErrorList
		var pe *parser.Error
		switch {
		case errors.As(err, &ce):
			p := ce.FileSet.Position(ce.Node.Pos())
			line, file = p.Line, p.Filename
		case errors.As(err, &pl) && len(pl) > 0:
			line, file = pl[0].Pos.Line, pl[0].Pos.Filename
		case errors.As(err, &pe):
			line, file = pe.Pos.Line, pe.Pos.Filename
		default:
			c.Count("compile_error_probe_other_error_type")
			continue
		}
		c.Count("compile_error_positions")
		wantFile := "(main)"
		if inModule {
			wantFile = "m"
		}
		okLine := line == want || (bad.kind == "parse" && (line == want+1 || line == want)) // a parse error may be detected at the next token
		if !okLine || file != wantFile {
			c.Violation("C16|compile-error-position|"+bad.kind, fmt.Sprintf("%s error planted on %s:%d is reported at %s:%d", bad.kind, wantFile, want, file, line),
				c16wit{Chain: c16chain{Main: text, Modules: map[string]string{"m": src}}, Why: err.Error()})
		}
	}
}

func (m c16) Run(c *core.Ctx) {
	if c.Replay != nil {
		var w c16wit
		if json.Unmarshal(c.Replay, &w) == nil && w.Chain.Main != "" {
			m.checkChain(c, w.Chain)
		}
		return
	}
	// exhaustive over depth x fail kinds once (callee kinds random), then random
	idx := 0
	for depth := 0; depth <= 8; depth++ {
		for _, fk := range c16fails {
			idx++
			ch := c16build(c.Rng, depth, fk)
			if idx%c.NBatch != c.Batch {
				continue
			}
			if !c.Begin(func() string { return ch.Main }) {
				continue
			}
			m.note(c, ch)
			m.checkChain(c, ch)
		}
	}
	// every foldable constant sub-expression as the leading operand of a failing operator / call / index, depth 0..2
	for fi := range c16folded {
		for depth := 0; depth <= 2; depth++ {
			for _, fk := range []string{"folded-lhs", "folded-call", "folded-index"} {
				idx++
				c16foldedPick = fi
				ch := c16build(c.Rng, depth, fk)
				c16foldedPick = -1
				if idx%c.NBatch != c.Batch {
					continue
				}
				if !c.Begin(func() string { return ch.Main }) {
					continue
				}
				m.note(c, ch)
				m.checkChain(c, ch)
			}
		}
	}
	// positions at byte 0 of a file (line 1, column 1): the failing statement or the calling statement is the very first
	// thing in the main script or in a module, with one, two or three files in the set
	for bi, ch := range append(append(c16byteZeroChains(), c16reentrantChains()...), c16observedChains()...) {
		idx++
		if idx%c.NBatch != c.Batch {
			continue
		}
		ch := ch
		if !c.Begin(func() string { return ch.Main }) {
			continue
		}
		c.Count("byte_zero_chains")
		c.Nontrivial(fmt.Sprintf("byte0-%d", bi))
		m.checkChain(c, ch)
	}
	idx++
	if idx%c.NBatch == c.Batch && c.Begin(func() string { return "observed law" }) {
		m.observedLaw(c)
		c.Nontrivial("observed-law")
	}
	n := c.Pick(60, 20000)
	for i := 0; i < n; i++ {
		ch := c16build(c.Rng, c.Rng.Intn(9), c16fails[c.Rng.Intn(len(c16fails))])
		if !c.Begin(func() string { return ch.Main }) {
			continue
		}
		m.note(c, ch)
		m.checkChain(c, ch)
		if i%20 == 0 {
			c.Sample(ch)
		}
		if i%3 == 0 {
			m.compileErrorPositions(c, c.Rng)
		}
	}
}

// c16reentrantChains: call graphs in which the same call statement is active more than once with other frames in between
// (a helper re-entered through the function it calls; mutual recursion; a module function that calls back into its caller)
func c16reentrantChains() []c16chain {
	return []c16chain{
		{Main: "apply := func(g, v) {\n  return g(v)\n}\ninner := func(v) {\n  return apply(func(w) {\n    throw error(\"x\")\n  }, v)\n}\nreturn apply(inner, 1)\n",
			Expect: []string{"(main):9", "(main):2", "(main):5", "(main):2", "(main):6"}, Fail: "reentrant-helper"},
		{Main: "var (even, odd)\neven = func(n) {\n  if n == 0 {\n    throw error(\"bottom\")\n  }\n  return odd(n - 1) + 1\n}\nodd = func(n) {\n  v := even(n - 1)\n  return v + 1\n}\nreturn even(4)\n",
			Expect: []string{"(main):12", "(main):6", "(main):9", "(main):6", "(main):9", "(main):4"}, Fail: "mutual-recursion"},
		{Main: "var walk\nwalk = func(n, f) {\n  if n == 0 {\n    return f(n)\n  }\n  r := walk(n - 1, f)\n  return r\n}\nres := walk(3, func(k) {\n  return [1][k + 5]\n})\nreturn res\n",
			Expect: []string{"(main):9", "(main):6", "(main):6", "(main):6", "(main):4", "(main):10"}, Fail: "direct-recursion"},
		{Main: "m := import(\"cb\")\nstep := func(n) {\n  if n == 0 {\n    throw error(\"deep\")\n  }\n  r := m(step, n - 1)\n  return r\n}\nout := m(step, 2)\nreturn out\n",
			Modules: map[string]string{"cb": "return func(f, n) {\n  v := f(n)\n  return v\n}\n"},
			Expect:  []string{"(main):9", "cb:2", "(main):6", "cb:2", "(main):6", "cb:2", "(main):4"}, Fail: "module-callback-reentry"},
	}
}

// c16observedChains: an error is caught half-way, looked at (formatted with %+v, its fields read, wrapped) and thrown
// again; what the script does with the error value must not change the trace the uncaught error finally reports. The
// variants differ only in the "look" line, so all of them have the same expected trace.
func c16observedChains() []c16chain {
	var out []c16chain
	for _, look := range []string{"logged = 1", "logged = sprintf(\"%+v\", err)", "logged = string(err) + err.Message + err.Name", "logged = sprintf(\"%v %+v\", err, err) + sprintf(\"%+v\", err)", "logged = isError(err) ? sprintf(\"%+v\", [err]) : 0"} {
		out = append(out, c16chain{
			Main:   "logged := \"\"\ninner := func() {\n  throw error(\"boom\")\n}\nmiddle := func() {\n  try {\n    inner()\n  } catch err {\n    " + look + "\n    throw err\n  }\n}\nouter := func() {\n  middle()\n}\nouter()\n",
			Expect: []string{"(main):16", "(main):14", "(main):10", "(main):7", "(main):3"}, Fail: "observed-rethrow"})
	}
	return out
}

// observedLaw: the same script with different "look at the error" lines (same line count) reports the same trace; the
// baseline is the variant that does not look at the error at all.
func (m c16) observedLaw(c *core.Ctx) {
	looks := []string{"logged = 1", "logged = sprintf(\"%+v\", err)", "logged = string(err) + err.Message", "logged = sprintf(\"%+v|%+v\", err, [err])", "logged = err.New(\"wrapped\") == err"}
	families := []struct {
		name, tmpl string
		mods       map[string]string
	}{
		{"module", "logged := \"\"\ninner := import(\"thrower\")\nmiddle := func() {\n  try {\n    inner()\n  } catch err {\n    %s\n    throw err\n  }\n}\nouter := func() {\n  try {\n    middle()\n  } catch err {\n    %s\n    throw err\n  } finally {\n    logged = 0\n  }\n}\nouter()\n", map[string]string{"thrower": "return func() {\n  throw error(\"x\")\n}\n"}},
		{"runtime-error", "logged := \"\"\ninner := func(a) {\n  return a[5]\n}\nmiddle := func() {\n  try {\n    return inner([1])\n  } catch err {\n    %s\n    throw err\n  }\n}\nr := middle()\nreturn r // %s\n", nil},
	}
	for _, fam := range families {
		var base []string
		for li, look := range looks {
			src := fmt.Sprintf(fam.tmpl, look, look)
			mm := ugo.NewModuleMap()
			for n, ms := range fam.mods {
				mm.AddSourceModule(n, []byte(ms))
			}
			for _, noopt := range []bool{true, false} {
				cr := safeCompile([]byte(src), ugo.CompilerOptions{ModuleMap: mm, NoOptimize: noopt})
				if cr.err != nil || cr.panicv != "" {
					c.Inconclusive("observed-law script does not compile: " + fmt.Sprint(cr.err) + cr.panicv)
					continue
				}
				var err error
				func() {
					defer func() {
						if r := recover(); r != nil {
							err = fmt.Errorf("host panic: %v", r)
						}
					}()
					_, err = ugo.NewVM(cr.bc).Run(c16globals())
				}()
				got, _ := traceList(err)
				c.Count("observed_law_runs")
				if li == 0 && noopt {
					base = got
					if len(base) < 3 {
						c.Inconclusive("observed-law baseline has no trace: " + fmt.Sprint(err))
					}
					continue
				}
				if strings.Join(got, " ") != strings.Join(base, " ") {
					c.Violation("C16|observed-trace-changes|"+fam.name, "looking at a caught error before throwing it again changes the trace finally reported", c16wit{Chain: c16chain{Main: src, Modules: fam.mods, Fail: "observed-law-" + fam.name}, Config: fmt.Sprintf("noopt=%v look=%q", noopt, look), Got: got, Want: base, Why: "trace depends on what the script did with the error value"})
					return
				}
			}
		}
	}
}

func c16byteZeroChains() []c16chain {
	thrower := "return func() {\n  throw error(\"x\")\n}\n"
	return []c16chain{
		{Main: "throw error(\"boom\")", Expect: []string{"(main):1"}, Fail: "byte0-throw"},
		{Main: "throw error(\"boom\")\n", Expect: []string{"(main):1"}, Fail: "byte0-throw"},
		{Main: "[1, 2][5]\n", Expect: []string{"(main):1"}, Fail: "byte0-index"},
		{Main: "import(\"m0\")()\n", Modules: map[string]string{"m0": thrower}, Expect: []string{"(main):1", "m0:2"}, Fail: "byte0-call"},
		{Main: "import(\"m0\")\n", Modules: map[string]string{"m0": "throw error(\"at import\")\n"}, Expect: []string{"(main):1", "m0:1"}, Fail: "byte0-module-body"},
		{Main: "f := import(\"m1\")\nf()\n", Modules: map[string]string{"m1": "import(\"m0\")()\n", "m0": thrower}, Expect: []string{"(main):1", "m1:1", "m0:2"}, Fail: "byte0-module-call"},
		{Main: "import(\"m2\")\nimport(\"m1\")\n", Modules: map[string]string{"m2": "return 1\n", "m1": "import(\"m0\")()\n", "m0": thrower}, Expect: []string{"(main):2", "m1:1", "m0:2"}, Fail: "byte0-module-call"},
		{Main: "g := import(\"m2\")\nimport(\"m1\")\ng()\n", Modules: map[string]string{"m2": "return func() {\n  [1][3]\n}\n", "m1": "return 1\n"}, Expect: []string{"(main):3", "m2:2"}, Fail: "byte0-first-module-not-last"},
		{Main: "import(\"m2\")()\n", Modules: map[string]string{"m2": "return func() {\n  return import(\"m1\")\n}\n", "m1": "throw \"s\"\n"}, Expect: []string{"(main):1", "m2:2", "m1:1"}, Fail: "byte0-module-body"},
	}
}

func (m c16) note(c *core.Ctx, ch c16chain) {
	c.Count("chains")
	c.Count("fail." + strings.Replace(ch.Fail, "throw-string", "throw-error", 1))
	c.Count(fmt.Sprintf("depth.%d", ch.Depth))
	for _, k := range ch.Callees {
		c.Count("callee." + k)
	}
	if len(ch.Modules) > 0 {
		c.Count("multi_file_traces")
	}
	if ch.Depth >= 2 || len(ch.Modules) > 0 {
		c.Nontrivial(ch.Main)
	}
}
