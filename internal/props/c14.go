package props

import (
	"encoding/json"
	"fmt"
	"reflect"
	"strings"
	"sync"
	"time"

	"github.com/ozanh/ugo"

	"verif/internal/canon"
	"verif/internal/core"
	"verif/internal/gen"
)

// C14 — calling a script function from Go equals calling it inside the script.
type c14 struct{}

func init() { core.Register(c14{}) }

func (c14) ID() string    { return "C14" }
func (c14) Level() string { return "exploration" }
func (c14) Race() bool    { return true }
func (c14) Rule() string {
	return "every call of a script function in a generated program is written CALL(f, args...). Run A defines CALL in the script (`func(f, ...a) { return f(...a) }`, an ordinary in-script call); run B receives CALL as a Go callback that calls f " +
		"through an Invoker (three variants: pooled Acquire/Invoke/Release per call, un-pooled Invoke, one pooled Invoker kept per function and reused for all its calls). " +
		"A and B must produce the same value, event log (per-call results and errors), globals and uncaught error name+message; functions are closures updating captured variables and globals, variadic, recursive, throwing, " +
		"with try/finally, importing modules; nested calls go through child VMs of child VMs. Only argument counts the parameters accept are generated. " +
		"A concurrent part runs variant B of one Bytecode on 16 VMs at once under the race detector. non-trivial = >=2 calls through CALL and captured/global state changed by a callee; distinct by source hash"
}
func (c14) Batches(string) int { return 16 }
func (c14) Required(string) []string {
	return []string{"compared", "invocations", "variant.pooled", "variant.unpooled", "variant.reused", "variant.recycled", "recycled_invoker_rounds", "second_runs_with_kept_invokers", "stdlib_callback_threw", "nested_invocations", "errors_propagated", "tag.call-variadic", "tag.call-spread", "tag.assign-captured", "concurrent_runs", "tail_mix_programs"}
}
func (c14) Assumptions() []string {
	return []string{"run A (in-script calls through a script-defined CALL) is the reference", "the process-wide VM pool is primed by the previously executed programs of the same batch"}
}

type c14wit struct {
	Src     string            `json:"src"`
	Modules map[string]string `json:"modules,omitempty"`
	Variant string            `json:"variant"`
	Why     string            `json:"why"`
	A       any               `json:"in_script"`
	B       any               `json:"via_invoker"`
	Args    []string          `json:"args,omitempty"`
}

type c14stats struct {
	argsModified   string // set when an Invoke changed the host's argument slice
	recycledRounds int
	mu             sync.Mutex
	invokes        int
	nested         int
	errs           int
	depth          int
}

// c14call builds the Go CALL callback for a variant.
func c14call(variant string, st *c14stats) (*ugo.Function, func()) {
	reused := map[ugo.Object]*ugo.Invoker{}
	var mu sync.Mutex
	fn := &ugo.Function{Name: "CALL", ValueEx: func(c ugo.Call) (ugo.Object, error) {
		if c.Len() < 1 {
			return ugo.Undefined, ugo.ErrWrongNumArguments.NewError("want>=1 got=0")
		}
		f := c.Get(0)
		args := make([]ugo.Object, 0, c.Len()-1)
		for i := 1; i < c.Len(); i++ {
			args = append(args, c.Get(i))
		}
		st.mu.Lock()
		st.invokes++
		st.depth++
		if st.depth > 1 {
			st.nested++
		}
		fromRoot := st.depth == 1 // the caller is the VM running the script itself, which lives as long as the run
		st.mu.Unlock()
		defer func() {
			st.mu.Lock()
			st.depth--
			st.mu.Unlock()
		}()
		var v ugo.Object
		var err error
		orig := append([]ugo.Object{}, args...)
		defer func() {
			// the host's argument slice belongs to the host: Invoke must leave its elements alone (a script call packs
			// variadic arguments into a fresh array; contents of reference values may of course be changed by the callee)
			for i := range orig {
				if !c14sameObject(orig[i], args[i]) {
					st.mu.Lock()
					if st.argsModified == "" {
						st.argsModified = fmt.Sprintf("element %d of the argument slice passed to Invoke changed from %s to %s", i, canon.Value(orig[i]), canon.Value(args[i]))
					}
					st.mu.Unlock()
				}
			}
		}()
		switch variant {
		case "pooled":
			inv := ugo.NewInvoker(c.VM(), f)
			inv.Acquire()
			v, err = inv.Invoke(args...)
			inv.Release()
		case "unpooled":
			v, err = ugo.NewInvoker(c.VM(), f).Invoke(args...)
		case "recycled":
			// one Invoker object per function, used for many rounds of Acquire / Invoke / Release
			// (an Invoker belongs to the VM it was made for: only those made for the root VM are kept between calls;
			// calls coming from a child VM, which is recycled when its callback returns, get a throw-away one)
			var inv *ugo.Invoker
			if fromRoot {
				mu.Lock()
				inv = reused[f]
				if inv != nil {
					delete(reused, f) // taken out while in use (re-entrant calls get their own)
				}
				mu.Unlock()
			}
			if inv == nil {
				inv = ugo.NewInvoker(c.VM(), f)
			}
			inv.Acquire()
			v, err = inv.Invoke(args...)
			inv.Release()
			if fromRoot {
				st.mu.Lock()
				st.recycledRounds++
				st.mu.Unlock()
				mu.Lock()
				if _, exists := reused[f]; !exists {
					reused[f] = inv
				}
				mu.Unlock()
			}
		default: // reused: only safe when the same function is not re-entered; fall back to a fresh pooled one when busy
			mu.Lock()
			inv := reused[f]
			if inv != nil {
				delete(reused, f) // taken out while in use (re-entrant calls get their own)
			}
			mu.Unlock()
			if inv == nil {
				inv = ugo.NewInvoker(c.VM(), f)
				inv.Acquire()
			}
			v, err = inv.Invoke(args...)
			mu.Lock()
			if _, exists := reused[f]; !exists {
				reused[f] = inv
			} else {
				inv.Release()
			}
			mu.Unlock()
		}
		if err != nil {
			st.mu.Lock()
			st.errs++
			st.mu.Unlock()
		}
		return v, err
	}}
	cleanup := func() {
		mu.Lock()
		for _, inv := range reused {
			if variant != "recycled" {
				inv.Release()
			}
		}
		mu.Unlock()
	}
	return fn, cleanup
}

// c14sameObject: same scalar value, or the same reference (slice start and length / map / pointer).
func c14sameObject(a, b ugo.Object) bool {
	if a == nil || b == nil {
		return a == nil && b == nil
	}
	va, vb := reflect.ValueOf(a), reflect.ValueOf(b)
	if va.Type() != vb.Type() {
		return false
	}
	switch va.Kind() {
	case reflect.Slice:
		return va.Len() == vb.Len() && (va.Len() == 0 || va.Pointer() == vb.Pointer())
	case reflect.Map, reflect.Ptr, reflect.Func:
		return va.Pointer() == vb.Pointer()
	}
	if va.Type().Comparable() {
		return a == b
	}
	return true
}

// c14insertCall puts the script-level CALL definition after the leading global/param declarations.
func c14insertCall(src string) string {
	lines := strings.SplitAfter(src, "\n")
	i := 0
	for i < len(lines) && (strings.HasPrefix(lines[i], "global ") || strings.HasPrefix(lines[i], "param ")) {
		i++
	}
	return strings.Join(lines[:i], "") + c14scriptCall + strings.Join(lines[i:], "")
}

const c14scriptCall = "CALL := func(f, ...a) {\n  return f(...a)\n}\n"

func (m c14) pair(c *core.Ctx, src string, modules map[string]string, args []ugo.Object, variant string) (compared bool, st *c14stats) {
	st = &c14stats{}
	p := &Program{Modules: modules}
	mm := moduleMapFor(p)
	srcA := c14insertCall(src)
	srcB := strings.Replace(src, "global L\n", "global (L, CALL)\n", 1)
	// modules also use CALL when they call script functions: give them the same treatment
	mmA, mmB := ugo.NewModuleMap(), ugo.NewModuleMap()
	for name, msrc := range modules {
		mmA.AddSourceModule(name, []byte(c14insertCall(msrc)))
		mmB.AddSourceModule(name, []byte(strings.Replace(msrc, "global L\n", "global (L, CALL)\n", 1)))
	}
	_ = mm
	ca := safeCompile([]byte(srcA), ugo.CompilerOptions{ModuleMap: mmA})
	cb := safeCompile([]byte(srcB), ugo.CompilerOptions{ModuleMap: mmB})
	if ca.err != nil || cb.err != nil || ca.panicv != "" || cb.panicv != "" {
		c.Count("discarded_compile_error")
		return false, st
	}
	panicFn := func() *ugo.Function {
		return &ugo.Function{Name: "PANIC", Value: func(...ugo.Object) (ugo.Object, error) { panic("go callback panic") }}
	}
	// both sides run on one VM each, so that a second run (new globals object) can follow on the same VMs
	vmA, vmB := ugo.NewVM(ca.bc).SetRecover(true), ugo.NewVM(cb.bc).SetRecover(true)
	runOn := func(vm *ugo.VM, bc *ugo.Bytecode, extra ugo.Map) canon.Outcome {
		rec := &canon.Recorder{}
		g := ugo.Map{"L": rec.Func()}
		for k, v := range extra {
			g[k] = v
		}
		return canon.RunBytecode(bc, canon.RunOpts{VM: vm, Recover: true, Globals: g, Args: args, LogOf: rec.String, Timeout: 20 * time.Second})
	}
	a := runOn(vmA, ca.bc, ugo.Map{"G": ugo.Int(3), "PANIC": panicFn()})
	call, cleanup := c14call(variant, st)
	b := runOn(vmB, cb.bc, ugo.Map{"G": ugo.Int(3), "CALL": call, "PANIC": panicFn()})
	var a2, b2 *canon.Outcome
	if (variant == "reused" || variant == "recycled") && st.nested == 0 && a.Kind != "timeout" && b.Kind != "timeout" && a.Kind != "unabortable" && b.Kind != "unabortable" {
		// the Invokers kept by the Go side (all made for the root VM: no nested invocation happened) are used again in a
		// second run of the same VM that is given a different globals object
		x := runOn(vmA, ca.bc, ugo.Map{"G": ugo.Int(100), "PANIC": panicFn()})
		y := runOn(vmB, cb.bc, ugo.Map{"G": ugo.Int(100), "CALL": call, "PANIC": panicFn()})
		a2, b2 = &x, &y
		c.Count("second_runs_with_kept_invokers")
	}
	cleanup()
	if a.Kind == "timeout" || b.Kind == "timeout" {
		c.Inconclusive("watchdog")
		return false, st
	}
	c.Count("compared")
	c.Count("variant." + variant)
	if st.argsModified != "" {
		c.Violation("C14|host-args-modified|"+variant, "Invoke modifies the argument slice of its Go caller: "+st.argsModified, c14wit{Src: src, Modules: modules, Variant: variant, Why: st.argsModified, Args: renderArgs(args)})
		return true, st
	}
	c.CountN("invocations", int64(st.invokes))
	c.CountN("nested_invocations", int64(st.nested))
	c.CountN("errors_propagated", int64(st.errs))
	c.CountN("recycled_invoker_rounds", int64(st.recycledRounds))
	// globals: B has the extra CALL entry
	bg := strings.Replace(b.Globals, "\"CALL\":<fn>,", "", 1)
	if a.Kind != b.Kind || a.Value != b.Value || a.Log != b.Log || a.ErrName != b.ErrName || a.ErrMsg != b.ErrMsg || a.Globals != bg {
		why := "value"
		switch {
		case a.Kind != b.Kind:
			why = "kind " + a.Kind + " vs " + b.Kind + "(" + b.ErrName + ":" + trunc(b.ErrMsg, 60) + ")"
		case a.Log != b.Log:
			why = "event log"
		case a.ErrName != b.ErrName || a.ErrMsg != b.ErrMsg:
			why = "error"
		case a.Globals != bg:
			why = "globals"
		}
		c.Violation("C14|diff|"+variant+"|"+strings.SplitN(why, " ", 2)[0]+"|"+fmt.Sprintf("%x", hashStr(src)), "calling through an Invoker ("+variant+") differs from the in-script call ("+why+")",
			c14wit{Src: src, Modules: modules, Variant: variant, Why: why, A: a, B: b, Args: renderArgs(args)})
		return true, st
	}
	if a2 != nil && a2.Kind != "timeout" && b2.Kind != "timeout" {
		bg2 := strings.Replace(b2.Globals, "\"CALL\":<fn>,", "", 1)
		if a2.Kind != b2.Kind || a2.Value != b2.Value || a2.Log != b2.Log || a2.ErrName != b2.ErrName || a2.ErrMsg != b2.ErrMsg || a2.Globals != bg2 {
			c.Violation("C14|diff-second-run|"+variant+"|"+fmt.Sprintf("%x", hashStr(src)), "a second run of the same VM with a new globals object: calling through the Invokers kept from the first run ("+variant+") differs from the in-script call",
				c14wit{Src: src, Modules: modules, Variant: variant, Why: "second run with kept Invokers", A: *a2, B: *b2, Args: renderArgs(args)})
		}
	}
	return true, st
}

var c14probes = []string{
	"global L\nn := 0\ninc := func(d) { n += d; return n }\nL(CALL(inc, 1))\nL(CALL(inc, 2))\nreturn n",
	"global L\nv := func(a, ...b) { return [a, b] }\nL(CALL(v, 1))\nL(CALL(v, 1, 2, 3))\nL(CALL(v, ...[1, 2]))\nw := func(...x) { return x }\nL(CALL(w))\nreturn CALL(w, 1, 2)",
	"global (L, G)\nf := func() { G = G + 1; return G }\nCALL(f)\nCALL(f)\nreturn G",
	"global L\nth := func(x) {\n  if x > 1 {\n    throw error(\"big\")\n  }\n  return x\n}\ntry {\n  L(CALL(th, 1))\n  L(CALL(th, 2))\n} catch e {\n  L(e.Name, e.Message)\n}\nreturn CALL(th, 5)",
	"global L\nouter := func(n) {\n  inner := func(k) { return k * n }\n  return CALL(inner, 2) + CALL(inner, 3)\n}\nreturn [CALL(outer, 1), CALL(outer, 10)]",
	"global L\nvar fact\nfact = func(n) {\n  if n <= 1 {\n    return 1\n  }\n  return n * CALL(fact, n - 1)\n}\nreturn CALL(fact, 6)",
	"global L\nf := func() {\n  try {\n    return import(\"mod0\").bump(1)\n  } finally {\n    L(\"fin\")\n  }\n}\nCALL(f)\nimport(\"mod0\").bump(10)\nreturn [CALL(f), import(\"mod0\").get()]",
	// a Go callback panics inside a function that has its own try/catch/finally (recovery is enabled on the VM)
	"global L\nglobal PANIC\nf := func(n) {\n  try {\n    if n > 0 {\n      PANIC()\n    }\n    return \"ok\"\n  } catch e {\n    return \"caught\"\n  } finally {\n    L(\"fin\", n)\n  }\n}\ng := func(n) {\n  try {\n    return PANIC()\n  } finally {\n    L(\"g fin\", n)\n  }\n}\nr := [CALL(f, 0), CALL(f, 1), CALL(f, 0)]\ntry {\n  CALL(g, 5)\n} catch e {\n  L(\"outer caught\")\n  r = append(r, \"outer\")\n}\nreturn r",
	// variadic functions that write to / keep their rest parameter
	"global L\nbump := func(a, ...rest) {\n  rest[0] += a\n  return rest[0]\n}\nL(CALL(bump, 10, 1, 2))\nL(CALL(bump, 10, 1, 2))\nkeep := []\nhold := func(...r) {\n  keep = append(keep, r)\n  r[0] = \"w\"\n  return len(r)\n}\nL(CALL(hold, 1, 2))\nL(CALL(hold, 3))\nreturn keep",
	"global L\nall := func(...r) {\n  for i := 0; i < len(r); i++ {\n    r[i] = r[i] * 2\n  }\n  return r\n}\nx := CALL(all, 1, 2, 3)\ny := CALL(all, x[0], x[1], x[2])\nx[0] = 100\nreturn [x, y, CALL(all)]",
	"global L\nnoret := func() { L(\"side\") }\nreturn [CALL(noret), CALL(func() { return undefined })]",
	"global L\nf := func(a, b) { return a - b }\ntry {\n  return CALL(f, 1)\n} catch e {\n  return e.Name\n}",
}

// stdlibCallbackErrors: the strings functions that take a script function run it through a pooled Invoker. Whenever that
// function threw (the script counts it), the error has to come back to the script - as it would from a call in the script.
func (m c14) stdlibCallbackErrors(c *core.Ctx, fn, input string, bad string) {
	body := "return c == 'x'"
	if fn == "Map" {
		body = "return c + 1"
	}
	call := "s." + fn + "(" + fmt.Sprintf("%q", input) + ", f)"
	if fn == "Map" {
		call = "s.Map(f, " + fmt.Sprintf("%q", input) + ")"
	}
	src := "s := import(\"strings\")\nthrew := 0\ncalls := 0\nf := func(c) {\n  calls++\n  if c == '" + bad + "' {\n    threw++\n    throw error(\"boom\")\n  }\n  " + body + "\n}\nr := undefined\ntry {\n  r = " + call + "\n} catch e {\n  r = \"E:\" + e.Message\n}\nreturn [threw, r, calls]\n"
	p := &Program{Src: src, Builtin: []string{"strings"}}
	cr := safeCompile([]byte(src), ugo.CompilerOptions{ModuleMap: moduleMapFor(p)})
	if cr.err != nil || cr.panicv != "" {
		c.Inconclusive("stdlib callback probe does not compile: " + fmt.Sprint(cr.err) + cr.panicv)
		return
	}
	o := runVM(cr.bc, nil, nil, true)
	c.Count("stdlib_callback_probes")
	if o.Kind != "value" {
		c.Violation("C14|stdlib-callback|"+fn+"|"+o.Kind, "strings."+fn+" with a throwing callback: the script ended with "+o.Kind+" "+o.ErrMsg, c14wit{Src: src, Variant: "stdlib", Why: o.Kind, B: o})
		return
	}
	if strings.HasPrefix(o.Value, "[i:0,") {
		c.Count("stdlib_callback_never_threw")
		return
	}
	c.Count("stdlib_callback_threw")
	if !strings.Contains(o.Value, ",s:\"E:boom\",") {
		c.Violation("C14|stdlib-callback-error-lost|"+fn, "strings."+fn+": the script function threw but the call returned a value: [threw, result, calls] = "+o.Value, c14wit{Src: src, Variant: "stdlib", Why: "error of the callback is lost", B: o})
	}
}

func (m c14) Run(c *core.Ctx) {
	mod0 := map[string]string{"mod0": "global L\nstate := 1\nL(\"mod0-body\")\nreturn {bump: func(d) { state += d; return state }, get: func() { return state }, dep: func() { return -state }}\n"}
	variants := []string{"pooled", "unpooled", "reused", "recycled"}
	if c.Replay != nil {
		var w c14wit
		if json.Unmarshal(c.Replay, &w) == nil && w.Src != "" {
			for _, v := range variants {
				m.pair(c, w.Src, w.Modules, parseIntArgs(w.Args), v)
			}
		}
		return
	}
	idx := 0
	for _, src := range c14probes {
		for _, v := range variants {
			idx++
			if idx%c.NBatch != c.Batch {
				continue
			}
			src, v := src, v
			if !c.Begin(func() string { return v + "\n" + src }) {
				continue
			}
			// the arity probe (last one) exercises the lenient Go-side arity: not compared
			if strings.Contains(src, "CALL(f, 1)\n} catch") {
				c.Count("lenient_arity_probe_not_compared")
				continue
			}
			if ok, _ := m.pair(c, src, mod0, nil, v); ok {
				c.Nontrivial(v + src)
			}
		}
	}
	for _, fn := range []string{"Map", "TrimFunc", "TrimLeftFunc", "TrimRightFunc", "IndexFunc", "LastIndexFunc", "FieldsFunc"} {
		for _, input := range []string{"xab", "abx", "xax", "aaa", "bxa", "a", "xxab", "baxx", "xbxaxbx", ""} {
			for _, bad := range []string{"a", "b", "x"} {
				idx++
				if idx%c.NBatch != c.Batch {
					continue
				}
				fn, input, bad := fn, input, bad
				if !c.Begin(func() string { return "stdlib callback " + fn + " " + input + " throws on " + bad }) {
					continue
				}
				m.stdlibCallbackErrors(c, fn, input, bad)
				c.Nontrivial("stdlibcb " + fn + input + bad)
			}
		}
	}
	// plans of self calls (returned / discarded, tail / non-tail, throwing) run one after the other through the same function
	for form := 0; form < 2; form++ {
		for pi, src := range gen.TailMixPrograms("CALL", form) {
			for _, v := range variants {
				idx++
				if idx%c.NBatch != c.Batch {
					continue
				}
				src, v := src, v
				if !c.Begin(func() string { return v + "\n" + src }) {
					continue
				}
				if ok, _ := m.pair(c, src, nil, nil, v); ok {
					c.Count("tail_mix_programs")
					c.Nontrivial(fmt.Sprintf("tailmix-%d-%d-%s", form, pi, v))
				}
			}
		}
	}
	n := c.Pick(120, 20000)
	o := gen.Opts{MaxStmts: 22, MaxDepth: 4, ExprDepth: 2, Try: 0.4, Throw: 0.2, Funcs: 1.0, Shadow: 0.15, LogProb: 0.15, Globals: true,
		DeepRecursion: 6, ImportProb: 0.1, CallVia: "CALL"}
	var lastSrc string
	var lastMods map[string]string
	for i := 0; i < n; i++ {
		if stopExploring(c) {
			break
		}
		o.Modules = c.Rng.Intn(3)
		o.Params = c.Rng.Intn(2)
		gp := gen.Generate(c.Rng, o)
		args := make([]ugo.Object, o.Params)
		for j := range args {
			args[j] = ugo.Int(c.Rng.Intn(5) - 1)
		}
		v := variants[c.Rng.Intn(len(variants))]
		src := gp.Src
		if !c.Begin(func() string { return v + "\n" + src + fmt.Sprintf("\n// modules %v", gp.Modules) }) {
			continue
		}
		ok, st := m.pair(c, src, gp.Modules, args, v)
		if !ok {
			continue
		}
		for _, t := range gp.TagList() {
			c.Count("tag." + t)
		}
		if st.invokes >= 2 && (gp.Tags["assign-captured"] > 0 || strings.Contains(src, "G =") || strings.Contains(src, "G +=")) {
			c.Nontrivial(src)
			lastSrc, lastMods = src, gp.Modules
		}
		if i%41 == 0 {
			c.Sample(map[string]any{"variant": v, "src": src, "invocations": st.invokes})
		}
	}
	// concurrent part: 16 VMs over one Bytecode, all calling through pooled Invokers, under -race
	if lastSrc != "" && c.Begin(func() string { return "concurrent\n" + lastSrc }) {
		srcB := strings.Replace(lastSrc, "global L\n", "global (L, CALL)\n", 1)
		mmB := ugo.NewModuleMap()
		for name, msrc := range lastMods {
			mmB.AddSourceModule(name, []byte(strings.Replace(msrc, "global L\n", "global (L, CALL)\n", 1)))
		}
		cb := safeCompile([]byte(srcB), ugo.CompilerOptions{ModuleMap: mmB})
		if cb.err == nil && cb.panicv == "" {
			outs := make([]canon.Outcome, 16)
			var wg sync.WaitGroup
			for g := 0; g < 16; g++ {
				wg.Add(1)
				go func(g int) {
					defer wg.Done()
					st := &c14stats{}
					call, cleanup := c14call("pooled", st)
					rec := &canon.Recorder{}
					outs[g] = canon.RunBytecode(cb.bc, canon.RunOpts{Recover: true, NoOutput: true, LogOf: rec.String,
						Globals: ugo.Map{"L": rec.Func(), "G": ugo.Int(3), "CALL": call}, Args: []ugo.Object{ugo.Int(1)}})
					cleanup()
				}(g)
			}
			wg.Wait()
			for g := 1; g < 16; g++ {
				c.Count("concurrent_runs")
				if outs[g].Key(false) != outs[0].Key(false) {
					c.Violation("C14|concurrent-diff", "concurrent Invoker runs of one Bytecode disagree", c14wit{Src: lastSrc, Modules: lastMods, Variant: "pooled-concurrent", A: outs[0], B: outs[g]})
					break
				}
			}
		}
	}
}
