package props

import "strings"

// minimizeLines is a line-based delta-debugging reducer: it removes chunks of
// lines (and balanced brace blocks) from src while keep(src) stays true.
func minimizeLines(src string, keep func(string) bool) string {
	lines := strings.Split(strings.TrimRight(src, "\n"), "\n")
	join := func(ls []string) string { return strings.Join(ls, "\n") + "\n" }
	if !keep(join(lines)) {
		return src
	}
	changed := true
	for changed {
		changed = false
		// remove balanced blocks / single lines
		for i := 0; i < len(lines); i++ {
			end := i
			if strings.HasSuffix(strings.TrimSpace(lines[i]), "{") && !strings.HasPrefix(strings.TrimSpace(lines[i]), "}") {
				depth := 0
				for j := i; j < len(lines); j++ {
					depth += strings.Count(lines[j], "{") - strings.Count(lines[j], "}")
					if depth <= 0 {
						end = j
						break
					}
				}
			}
			cand := append(append([]string{}, lines[:i]...), lines[end+1:]...)
			if len(cand) > 0 && keep(join(cand)) {
				lines = cand
				changed = true
				i--
				continue
			}
			if end != i {
				// try unwrapping the block: drop header and closing line
				cand = append(append(append([]string{}, lines[:i]...), lines[i+1:end]...), lines[end+1:]...)
				if keep(join(cand)) {
					lines = cand
					changed = true
					i--
					continue
				}
			}
		}
	}
	return join(lines)
}
