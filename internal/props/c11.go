package props

import (
	"bytes"
	"encoding/binary"
	"encoding/json"
	"fmt"
	"strings"

	"github.com/ozanh/ugo"
	"github.com/ozanh/ugo/encoder/opv1"

	"verif/internal/core"
	"verif/internal/gen"
)

// C11 — bytecode in the previous (version 1) format still runs the same program.
type c11 struct{}

func init() { core.Register(c11{}) }

func (c11) ID() string    { return "C11" }
func (c11) Level() string { return "exploration" }
func (c11) Race() bool    { return false }
func (c11) Rule() string {
	return "each compiled program is down-converted by the harness to the version-1 layout (2-byte jump/try operands per encoder/opv1.OpcodeOperands, every target and source-map key relocated through the offset map), " +
		"written with a version-1 header and decoded by the repository's decoder; the decoded program and the original are run on 3 argument vectors and value, event log, globals, error name+message and stack trace file:line must agree. " +
		"The down-converter is validated on every program by an independent harness up-converter that must reproduce the original instruction bytes. " +
		"Programs whose functions exceed 65535 bytes in v1 layout are skipped (counted). non-trivial = >=2 jump-class instructions in one function; distinct by source hash"
}
func (c11) Batches(string) int { return 32 }
func (c11) Required(string) []string {
	return []string{"compared", "generated", "probes", "op.jump", "op.jumpfalsy", "op.andjump", "op.orjump", "op.setuptry", "functions_with_jumps_in_constants", "error_outcomes_with_trace", "downconvert_selfcheck_ok", "large_function_probes"}
}
func (c11) Assumptions() []string {
	return []string{"harness DownConvert (validated per program by the harness's own inverse)", "encoder/opv1.OpcodeOperands is the repository's record of the v1 operand widths", "original v2 run is the reference"}
}

func isJumpOp(op byte) bool {
	switch op {
	case opv1.OpJump, opv1.OpJumpFalsy, opv1.OpAndJump, opv1.OpOrJump, opv1.OpSetupTry:
		return true
	}
	return false
}

func widthOf(widths []int) int {
	t := 0
	for _, w := range widths {
		t += w
	}
	return t
}

// relayout converts one function between layouts. from/to give operand widths per opcode.
func relayout(insts []byte, srcMap map[int]int, from, to func(op byte) []int) ([]byte, map[int]int, error) {
	// pass 1: offsets
	newPos := map[int]int{}
	n := 0
	for i := 0; ; {
		newPos[i] = n
		if i >= len(insts) {
			break
		}
		op := insts[i]
		if int(op) >= len(opv1.OpcodeOperands) {
			return nil, nil, fmt.Errorf("unknown opcode %d", op)
		}
		wf, wt := widthOf(from(op)), widthOf(to(op))
		if i+1+wf > len(insts) {
			return nil, nil, fmt.Errorf("truncated")
		}
		i += 1 + wf
		n += 1 + wt
	}
	out := make([]byte, 0, n)
	for i := 0; i < len(insts); {
		op := insts[i]
		out = append(out, op)
		fw, tw := from(op), to(op)
		operands, _ := ugo.ReadOperands(fw, insts[i+1:], nil)
		if isJumpOp(op) {
			for j, t := range operands {
				if op == opv1.OpSetupTry && t == 0 {
					continue
				}
				np, ok := newPos[t]
				if !ok {
					return nil, nil, fmt.Errorf("jump target %d is not an instruction start", t)
				}
				operands[j] = np
			}
		}
		for j, w := range tw {
			v := operands[j]
			switch w {
			case 1:
				if v > 0xff {
					return nil, nil, fmt.Errorf("operand overflow")
				}
				out = append(out, byte(v))
			case 2:
				if v > 0xffff {
					return nil, nil, errNotRepresentable
				}
				out = binary.BigEndian.AppendUint16(out, uint16(v))
			case 4:
				out = binary.BigEndian.AppendUint32(out, uint32(v))
			}
		}
		i += 1 + widthOf(fw)
	}
	var sm map[int]int
	if srcMap != nil {
		sm = make(map[int]int, len(srcMap))
		for k, v := range srcMap {
			np, ok := newPos[k]
			if !ok {
				return nil, nil, fmt.Errorf("source map key %d is not an instruction start", k)
			}
			sm[np] = v
		}
	}
	return out, sm, nil
}

var errNotRepresentable = fmt.Errorf("not representable in v1 (offset > 65535)")

func v1widths(op byte) []int { return opv1.OpcodeOperands[op] }
func v2widths(op byte) []int { return ugo.OpcodeOperands[op] }

// downConvert returns a copy of bc in v1 instruction layout.
func downConvert(bc *ugo.Bytecode) (*ugo.Bytecode, error) {
	conv := func(cf *ugo.CompiledFunction) (*ugo.CompiledFunction, error) {
		ins, sm, err := relayout(cf.Instructions, cf.SourceMap, v2widths, v1widths)
		if err != nil {
			return nil, err
		}
		// self-check with the inverse
		back, sm2, err := relayout(ins, sm, v1widths, v2widths)
		if err != nil {
			return nil, fmt.Errorf("selfcheck: %w", err)
		}
		if !bytes.Equal(back, cf.Instructions) || len(sm2) != len(cf.SourceMap) {
			return nil, fmt.Errorf("selfcheck: inverse does not reproduce the original")
		}
		for k, v := range cf.SourceMap {
			if sm2[k] != v {
				return nil, fmt.Errorf("selfcheck: source map differs")
			}
		}
		return &ugo.CompiledFunction{NumParams: cf.NumParams, NumLocals: cf.NumLocals, Instructions: ins, Variadic: cf.Variadic, Free: cf.Free, SourceMap: sm}, nil
	}
	out := &ugo.Bytecode{FileSet: bc.FileSet, NumModules: bc.NumModules}
	var err error
	if out.Main, err = conv(bc.Main); err != nil {
		return nil, err
	}
	out.Constants = make([]ugo.Object, len(bc.Constants))
	for i, k := range bc.Constants {
		if cf, ok := k.(*ugo.CompiledFunction); ok {
			if out.Constants[i], err = conv(cf); err != nil {
				return nil, err
			}
		} else {
			out.Constants[i] = k
		}
	}
	return out, nil
}

type c11wit struct {
	Program *Program `json:"program"`
	Why     string   `json:"why"`
	Orig    any      `json:"v2"`
	Dec     any      `json:"v1_decoded"`
}

var c11probes = []string{
	"global L\nparam p\nfor i := 0; i < 3; i++ {\n  L(i)\n}\nreturn p",
	"global L\nparam p\nif p > 0 {\n  L(\"pos\")\n} else if p == 0 {\n  L(\"zero\")\n} else {\n  L(\"neg\")\n}\nreturn p > 0 && p < 5 || p == -2",
	"global L\nparam p\ntry {\n  if p > 0 {\n    throw \"x\"\n  }\n  L(1)\n} catch e {\n  L(e.Message)\n} finally {\n  L(2)\n}\nreturn p",
	"global L\nparam p\nf := func(n) {\n  r := 0\n  for i := 0; i < n; i++ {\n    if i % 2 == 0 {\n      continue\n    }\n    if i > 6 {\n      break\n    }\n    r += i\n  }\n  return r > 5 ? r : -r\n}\nreturn [f(p), f(4), f(10)]",
	"global L\nparam p\nf := func(n) {\n  return [1, 2][n]\n}\ng := func(n) {\n  if n > 0 {\n    return f(n + 1)\n  }\n  return f(0)\n}\nreturn g(p)",
	"global L\nparam p\nm := import(\"mod0\")\nreturn m.bump(p) + m.get()",
	// a call of a throwing script function whose result feeds a jump directly (condition of if / for / ?: , operand of
	// && / ||), written over several lines: the CALLER's frame position is looked up at the jump-class instruction
	"global L\nparam p\ncheck := func(v) {\n  if v > 0 {\n    throw error(\"bad \" + v)\n  }\n  return v == 0\n}\nn := 5\nif p < -100 ||\n  n > 100 ||\n  check(p) {\n  L(\"then\")\n}\nreturn n",
	"global L\nparam p\ncheck := func(v) {\n  if v > 0 {\n    throw error(\"bad\")\n  }\n  return false\n}\nfor i := 0; i < 3 &&\n  !check(p + i - 1); i++ {\n  L(i)\n}\nreturn 1",
	"global L\nparam p\ncheck := func(v) {\n  return [1, 2][v + 1] > 1\n}\nr := check(p) ?\n  \"yes\" :\n  \"no\"\ns := check(p - 1) &&\n  check(p)\nreturn [r, s]",
	"global L\nparam p\nf := func(v) {\n  try {\n    return [1][v]\n  } finally {\n    L(\"fin\")\n  }\n}\ng := func(v) {\n  if f(v) > 0 || f(v + 1) > 0 {\n    return 1\n  }\n  return 0\n}\nreturn g(p)",
	// functions with identical bodies (identical instruction bytes) on different lines, each with jumps; the error is
	// raised in the first / the second / the third of them, or in a twin that lives in a module
	"global L\nparam p\na := func(n) {\n  if n > 0 {\n    return [1, 2][n + 5]\n  }\n  return n\n}\n\nb := func(n) {\n  if n > 0 {\n    return [1, 2][n + 5]\n  }\n  return n\n}\n\n\nc := func(n) {\n  if n > 0 {\n    return [1, 2][n + 5]\n  }\n  return n\n}\nreturn [a(p - 7), b(p - 1), c(p)]",
	"global L\nparam p\nfs := []\nfor i := 0; i < 2; i++ {\n  fs = append(fs, func(n) {\n    for k := 0; k < 2; k++ {\n      if n == k {\n        throw error(\"first\")\n      }\n    }\n    return n\n  })\n}\nfs = append(fs, func(n) {\n    for k := 0; k < 2; k++ {\n      if n == k {\n        throw error(\"first\")\n      }\n    }\n    return n\n  })\nreturn [fs[0](p + 5), fs[2](p)]",
	"global L\nparam p\ntw := func(n) {\n  try {\n    if n > 0 {\n      return 1 / (n - n)\n    }\n  } finally {\n    L(n)\n  }\n  return 0\n}\nm := import(\"twin\")\nreturn [tw(p - 7), m(p)]",
}

func (m c11) one(c *core.Ctx, p *Program, vecs [][]ugo.Object, optLimit int) bool {
	mm := moduleMapFor(p)
	opts := ugo.CompilerOptions{ModuleMap: mm, NoOptimize: optLimit < 0}
	cr := safeCompile([]byte(p.Src), opts)
	if cr.err != nil || cr.panicv != "" {
		c.Count("discarded_compile_error")
		return false
	}
	v1bc, err := downConvert(cr.bc)
	if err == errNotRepresentable {
		c.Count("skipped_not_representable")
		return false
	}
	if err != nil {
		c.Inconclusive("down-converter rejected compiler output: " + err.Error())
		return false
	}
	c.Count("downconvert_selfcheck_ok")
	b, eerr, pan := safeEncode(v1bc)
	if eerr != nil || pan != "" {
		c.Inconclusive("cannot encode the down-converted bytecode: " + fmt.Sprint(eerr) + pan)
		return false
	}
	binary.BigEndian.PutUint16(b[4:6], 1) // version 1 header
	dec, derr, pan := safeDecode(b, mm)
	if pan != "" {
		c.Violation("C11|decode-panic|"+core.NormMsg(pan), "decoding version-1 bytes panics: "+pan, c11wit{Program: p, Why: pan})
		return false
	}
	if derr != nil {
		c.Violation("C11|decode-fails|"+core.NormMsg(derr.Error()), "decoding valid version-1 bytes fails: "+derr.Error(), c11wit{Program: p, Why: derr.Error()})
		return false
	}
	// observation only: byte-identical to the v2 original?
	same := bytes.Equal(dec.Main.Instructions, cr.bc.Main.Instructions)
	if same {
		c.Count("decoded_main_identical_to_v2")
	}
	for _, args := range vecs {
		o0 := runVM(cr.bc, args, ugo.Map{"G": ugo.Int(3)}, true)
		o := runVM(dec, args, ugo.Map{"G": ugo.Int(3)}, true)
		if o0.Kind == "timeout" {
			c.Inconclusive("original run hit the watchdog")
			continue
		}
		c.Count("compared")
		if o0.Kind == "error" && o0.Trace != "" {
			c.Count("error_outcomes_with_trace")
		}
		if o.Key(true) != o0.Key(true) {
			why := "outcome"
			switch {
			case o.Kind == "timeout":
				why = "decoded v1 program does not terminate"
			case o.Kind != o0.Kind:
				why = "kind " + o0.Kind + "->" + o.Kind
			case o.Value != o0.Value:
				why = "value"
			case o.Log != o0.Log:
				why = "event log"
			case o.ErrName != o0.ErrName || o.ErrMsg != o0.ErrMsg:
				why = "error"
			case o.Trace != o0.Trace:
				why = "stack trace positions"
			}
			c.Violation("C11|diff|"+why+"|"+progHash(p), "decoded version-1 program behaves differently ("+why+")", c11wit{Program: p, Why: why, Orig: o0, Dec: o})
			return true
		}
	}
	return true
}

func c11countOps(c *core.Ctx, bc *ugo.Bytecode) (maxJumps int) {
	scan := func(insts []byte, isConst bool) {
		j := 0
		ugo.IterateInstructions(insts, func(_ int, op ugo.Opcode, _ []int, _ int) bool {
			switch op {
			case ugo.OpJump:
				c.Count("op.jump")
				j++
			case ugo.OpJumpFalsy:
				c.Count("op.jumpfalsy")
				j++
			case ugo.OpAndJump:
				c.Count("op.andjump")
				j++
			case ugo.OpOrJump:
				c.Count("op.orjump")
				j++
			case ugo.OpSetupTry:
				c.Count("op.setuptry")
				j++
			}
			return true
		})
		if j > maxJumps {
			maxJumps = j
		}
		if isConst && j > 0 {
			c.Count("functions_with_jumps_in_constants")
		}
	}
	scan(bc.Main.Instructions, false)
	for _, k := range bc.Constants {
		if cf, ok := k.(*ugo.CompiledFunction); ok {
			scan(cf.Instructions, true)
		}
	}
	return
}

// c11largeSrc builds a script whose one function holds nIf conditionals followed by a tail with a loop, a try statement,
// logical operators and a conditional expression (all jumps of the tail have targets at the very end of the function).
func c11largeSrc(nIf int, inFunc bool) string {
	var sb strings.Builder
	ind := ""
	sb.WriteString("param x\n")
	if inFunc {
		sb.WriteString("f := func(x) {\n")
		ind = "  "
	}
	sb.WriteString(ind + "n := 0\n")
	for k := 0; k < nIf; k++ {
		fmt.Fprintf(&sb, "%sif x == %d {\n%s  n += %d\n%s}\n", ind, 100+k, ind, 1+k%7, ind)
	}
	for _, l := range []string{
		"for i := 0; i < 3; i++ {", "  n += i", "}",
		"try {", "  if x == 1 {", "    throw \"t\"", "  }", "  n += 10", "} catch e {", "  n += 100", "} finally {", "  n += 1000", "}",
		"b := x > 0 && n > 5 || x < -1", "return [n, b, x == 0 ? \"z\" : \"nz\"]",
	} {
		sb.WriteString(ind + l + "\n")
	}
	if inFunc {
		sb.WriteString("}\nreturn f(x)\n")
	}
	return sb.String()
}

// largeProbe finds the largest such function that still fits the version-1 format (<= 65535 bytes) while its widened
// version-2 layout exceeds 65535 bytes, and compares the runs.
func (m c11) largeProbe(c *core.Ctx, inFunc bool) {
	for nIf := 3700; nIf >= 2500; nIf -= 20 {
		src := c11largeSrc(nIf, inFunc)
		cr := safeCompile([]byte(src), ugo.CompilerOptions{NoOptimize: true})
		if cr.err != nil || cr.panicv != "" {
			c.Inconclusive("large probe does not compile: " + fmt.Sprint(cr.err) + cr.panicv)
			return
		}
		if _, err := downConvert(cr.bc); err != nil {
			continue
		}
		size := len(cr.bc.Main.Instructions)
		for _, k := range cr.bc.Constants {
			if cf, ok := k.(*ugo.CompiledFunction); ok && len(cf.Instructions) > size {
				size = len(cf.Instructions)
			}
		}
		if size <= 65535 {
			c.Inconclusive(fmt.Sprintf("large probe: version-2 layout of the largest representable function is only %d bytes", size))
			return
		}
		p := &Program{Src: src, Tags: []string{fmt.Sprintf("large function: %d conditionals, %d bytes in version-2 layout", nIf, size)}}
		vecs := [][]ugo.Object{{ugo.Int(0)}, {ugo.Int(1)}, {ugo.Int(-2)}, {ugo.Int(100)}, {ugo.Int(int64(100 + nIf - 1))}, {ugo.Int(int64(100 + nIf/2))}}
		if m.one(c, p, vecs, -1) {
			c.Count("large_function_probes")
			c.SetAdd("large_function_sizes", fmt.Sprintf("conditionals=%d v2bytes=%d inFunc=%v", nIf, size, inFunc))
			c.Nontrivial(fmt.Sprintf("large-%v", inFunc))
		}
		return
	}
	c.Inconclusive("large probe: no representable size found")
}

func (m c11) Run(c *core.Ctx) {
	if c.Replay != nil {
		var w c11wit
		if json.Unmarshal(c.Replay, &w) == nil && w.Program != nil {
			vecs := [][]ugo.Object{{ugo.Int(0)}, {ugo.Int(1)}, {ugo.Int(-2)}, {ugo.Int(3), ugo.Int(1)}, parseIntArgs(w.Program.Args)}
			m.one(c, w.Program, vecs, -1)
			m.one(c, w.Program, vecs, 0)
		}
		return
	}
	idx := 0
	for _, src := range c11probes {
		for _, opt := range []int{-1, 0} {
			idx++
			if idx%c.NBatch != c.Batch {
				continue
			}
			p := &Program{Src: src, Modules: map[string]string{"mod0": "global L\nstate := 1\nreturn {bump: func(d) { if d > 0 { state += d }; return state }, get: func() { return state > 1 ? state : -1 }}\n",
				"twin": "global L\n// the same function text as tw in the main script, on other lines\n\nreturn func(n) {\n  try {\n    if n > 0 {\n      return 1 / (n - n)\n    }\n  } finally {\n    L(n)\n  }\n  return 0\n}\n"}}
			if !c.Begin(func() string { return src }) {
				continue
			}
			if m.one(c, p, [][]ugo.Object{{ugo.Int(0)}, {ugo.Int(1)}, {ugo.Int(-2)}, {ugo.Int(7)}}, opt) {
				c.Count("probes")
				c.Nontrivial(fmt.Sprint(opt) + progHash(p))
			}
		}
	}
	for _, inFunc := range []bool{false, true} {
		idx++
		if idx%c.NBatch != c.Batch {
			continue
		}
		if !c.Begin(func() string { return fmt.Sprintf("large function probe inFunc=%v", inFunc) }) {
			continue
		}
		m.largeProbe(c, inFunc)
	}
	n := c.Pick(400, 30000)
	o := gen.Opts{MaxStmts: 28, MaxDepth: 4, ExprDepth: 3, Try: 0.5, Throw: 0.15, Funcs: 0.6, Shadow: 0.2, LogProb: 0.2,
		Consts: 0.2, Globals: true, DeepRecursion: 20, Faults: 0.004}
	for i := 0; i < n; i++ {
		if stopExploring(c) {
			break
		}
		o.Params = 1 + c.Rng.Intn(2)
		o.Modules = 0
		if c.Rng.Intn(3) == 0 {
			o.Modules = 1 + c.Rng.Intn(2)
		}
		gp := gen.Generate(c.Rng, o)
		p := fromGen(gp)
		vecs := make([][]ugo.Object, 3)
		for v := range vecs {
			for j := 0; j < o.Params; j++ {
				vecs[v] = append(vecs[v], ugo.Int(c.Rng.Intn(9)-2))
			}
		}
		p.Args = renderArgs(vecs[0])
		opt := []int{-1, 0}[c.Rng.Intn(2)]
		if !c.Begin(func() string { return p.Src + fmt.Sprintf("\n// args %v opt %d", vecs, opt) }) {
			continue
		}
		if !m.one(c, p, vecs, opt) {
			continue
		}
		c.Count("generated")
		cr := safeCompile([]byte(p.Src), ugo.CompilerOptions{ModuleMap: moduleMapFor(p), NoOptimize: opt < 0})
		if cr.bc != nil && c11countOps(c, cr.bc) >= 2 {
			c.Nontrivial(progHash(p))
		}
		if i%151 == 0 {
			c.Sample(map[string]any{"src": p.Src, "modules": p.Modules})
		}
	}
}
