package props

import (
	"bytes"
	"encoding/binary"
	"encoding/hex"
	"encoding/json"
	"fmt"
	"io"
	"math"
	"math/bits"
	"math/rand"
	"runtime"
	"runtime/debug"
	"strconv"
	"strings"

	"github.com/ozanh/ugo"
	"github.com/ozanh/ugo/encoder"

	"verif/internal/core"
)

// C18 — decoding malformed bytecode returns an error, never a panic, and does
// not allocate out of proportion to the input.
//
// Deliberately not flagged:
//   - any returned error, whatever its text; any successfully decoded value
//     (a corrupted input may well decode to a different valid program);
//   - allocation up to 1 MiB + 256 x len(input) per call. The decoder copies the
//     remaining buffer at every nesting level, so allocation is quadratic in the
//     nesting depth; inputs here are <= ~8 KiB where that stays inside the budget
//     (the 32 KiB seed x:deepnest-32k shows the quadratic growth and is a known finding)
//     (a 4 KiB 800-level nest is part of the workload to watch recursion depth);
//   - version-1 relabelled v2 programs that decode to garbage instructions
//     without panicking (semantic validity of v1 conversion is another property);
//   - a valid encoding that the decoder rejects with an error (e.g. builtin
//     function constants on older trees): round-trip fidelity is another property.
//
// Workload restrictions that only bound the number of process crashes on a tree
// that still has the unbounded-allocation defects (they skip nothing once those
// are repaired, apart from saving time): lengths of 2^31 / 2^40 are tried on a
// handful of small seeds only and first; on batch-local random programs a
// container tag is not substituted in front of a 5..10-byte number; havoc does
// not start from seeds that contain such numbers; after an entry point has
// allocated >= 256 MiB on an input the remaining entry points are not fed the
// same input. Results survive a crash through c18_ckpt.go.
type c18 struct{}

func init() { core.Register(c18{}) }

func (c18) ID() string    { return "C18" }
func (c18) Level() string { return "fault_enumeration" }
func (c18) Race() bool    { return false }
func (c18) Rule() string {
	return "seeds = deterministic encodings (format v2, v1 by version relabel, v1 by down-converted instructions) of ~40 built-in programs covering every constant kind, closures, variadics, try/catch, " +
		"source and builtin modules, hand-built bytecodes with constants the compiler never emits (bools, bytes, containers, builtin functions, gob fallback), ~45 single objects, source file (set) encodings, " +
		"every object placed in every top-level field slot; thorough adds batch-local random programs. Enumerated per seed: every truncation; every single-byte substitution by " +
		"{0,1,0x7f,0x80,0xff,b+1,b-1, every type tag 0..14,255}; double-byte corruptions of the first 64 bytes; at every offset a length-prefixed varint is replaced by {0,1,n+1,n-1,2^22 (smallest power of two above twice the budget),2^62,-1,max,min} " +
		"(and 2^31, 2^40 on a few small seeds, run first because they may kill the process); header version/signature variants; seeded random byte strings <= 4 KiB (raw, with v1/v2 header, token-structured) and havoc mutants. " +
		"Each input goes to (*Bytecode).UnmarshalBinary, DecodeBytecodeFrom (module map; nil modules and (*Bytecode).Decode when unmarshal succeeds), DecodeObject (bytes.Reader and plain io.Reader), " +
		"the typed UnmarshalBinary selected by the tag byte, SourceFile(Set).UnmarshalBinary. Oracle: no panic (recovered, fingerprint = top /repo frame + message class, entry point in the witness), no process crash, " +
		"runtime.MemStats.TotalAlloc delta <= 1 MiB + 256*len(input) (allocation site attributed by a heap-profile diff of a re-run). " +
		"non-trivial = input differs from its seed and passes the 6-byte header (bytecode) / is non-empty (objects); distinct by (seed, mutation kind, offset)"
}
func (c18) Batches(tier string) int {
	if tier == "thorough" {
		return 32
	}
	return 16
}
func (c18) Required(tier string) []string {
	r := []string{
		"seeds_bc", "seeds_obj", "seeds_v1", "seeds_sf", "seed_decodes_ok",
		"cases:seed", "cases:trunc", "cases:sub1", "cases:sub2", "cases:splice", "cases:probe", "cases:version", "cases:random", "cases:havoc",
		"alloc_measured", "reached_field_decoder", "mutant_decoded_ok",
		"ep:Bytecode.UnmarshalBinary:err", "ep:DecodeBytecodeFrom:err", "ep:DecodeObject:err", "ep:Bytecode.UnmarshalBinary:ok", "ep:DecodeBytecodeFrom:ok", "ep:DecodeObject:ok",
		"ep:Bytecode.Decode:ok", "ep:SourceFile.UnmarshalBinary:err", "ep:SourceFileSet.UnmarshalBinary:err", "ep:CompiledFunction.UnmarshalBinary:err", "ep:Array.UnmarshalBinary:err", "ep:Map.UnmarshalBinary:err",
	}
	for _, f := range []string{"int", "uint", "float", "char", "string", "bool", "bytes", "array", "map", "syncmap", "undefined", "compiledfunc", "closure", "variadic", "trycatch",
		"srcmodule", "builtinmodule", "gobfallback", "builtinfunc", "function", "v1", "fieldswap", "sourcefile", "sourcefileset"} {
		r = append(r, "seedfeat:"+f)
	}
	if tier == "thorough" {
		r = append(r, "seeds_random_program")
	}
	return r
}
func (c18) Assumptions() []string {
	return []string{
		"the deterministic re-encoder in c18_enc.go writes the same format as the real encoder (checked at run time: the real decoder must read both encodings back to DeepEqual values)",
		"runtime.MemStats.TotalAlloc on a GOMAXPROCS(1) child measures the decoder's allocation (the harness allocates a reader and a closure inside the window)",
		"allocation-site attribution uses runtime.MemProfile with MemProfileRate=64KiB on a re-run of the same input; it only labels a violation, it does not decide it",
		"no coverage feedback: depth comes from exhaustive positional enumeration on structured seeds, not from guided fuzzing",
		"inputs are <= ~8 KiB; the budget is not checked for larger inputs (allocation grows quadratically with nesting depth there)",
		"a child that dies (fatal out of memory) is restarted by the driver; its earlier observations are restored from a checkpoint written every 250 cases, the <=250 cases after the last checkpoint are lost",
	}
}

// ---------------------------------------------------------------------------
// observation of one call

type c18out struct {
	entry  string
	err    error
	pan    string
	top    string
	frames []string
	delta  uint64
}

var c18ms0, c18ms1 runtime.MemStats

// c18call runs f and observes error / panic / allocation.
func c18call(entry string, f func() error) (o c18out) {
	o.entry = entry
	done := false
	runtime.ReadMemStats(&c18ms0)
	func() {
		defer func() {
			if r := recover(); r != nil {
				runtime.ReadMemStats(&c18ms1)
				done = true
				o.pan = fmt.Sprint(r)
				if o.pan == "" {
					o.pan = "(empty panic value)"
				}
				o.top, o.frames = c18stackTop(debug.Stack())
			}
		}()
		o.err = f()
	}()
	if !done {
		runtime.ReadMemStats(&c18ms1)
	}
	o.delta = c18ms1.TotalAlloc - c18ms0.TotalAlloc
	return o
}

// c18stackTop returns the first /repo function on the stack and the leading frames.
func c18stackTop(st []byte) (string, []string) {
	top := "?"
	var frames []string
	for _, l := range strings.Split(string(st), "\n") {
		if l == "" || l[0] == '\t' || strings.HasPrefix(l, "goroutine ") {
			continue
		}
		if i := strings.LastIndex(l, "("); i > 0 {
			l = l[:i]
		}
		if strings.HasPrefix(l, "runtime/debug.Stack") || strings.HasPrefix(l, "verif/") {
			if top != "?" {
				break
			}
			continue
		}
		if len(frames) < 8 {
			frames = append(frames, l)
		}
		if top == "?" && strings.HasPrefix(l, "github.com/ozanh/ugo") {
			top = strings.TrimPrefix(l, "github.com/ozanh/ugo/")
		}
	}
	return top, frames
}

// c18errClass normalises a returned error for the observed-set of error kinds
// (evidence only): payloads in single quotes and raw bytes are dropped.
func c18errClass(msg string) string {
	msg = core.NormMsg(msg)
	var b strings.Builder
	inq := false
	for _, r := range msg {
		switch {
		case r == '\'':
			if !inq {
				b.WriteString("'Q'")
			}
			inq = !inq
		case inq:
		case r < 0x20 || r > 0x7e:
			b.WriteByte('?')
		default:
			b.WriteRune(r)
		}
		if b.Len() >= 90 {
			break
		}
	}
	return b.String()
}

func c18msgClass(msg string) string {
	if strings.HasPrefix(msg, "interface conversion:") {
		if i := strings.LastIndex(msg, ", not "); i >= 0 {
			return "interface conversion, not " + msg[i+6:]
		}
		return "interface conversion"
	}
	return core.NormMsg(msg)
}

// plainReader hides ReadByte/Len so that the io.Reader paths are taken.
type c18plainReader struct{ r io.Reader }

func (p c18plainReader) Read(b []byte) (int, error) { return p.r.Read(b) }

// ---------------------------------------------------------------------------
// entry points per input kind

type c18entry struct {
	name string
	f    func() error
}

type c18runner struct {
	c    *core.Ctx
	mods *ugo.ModuleMap
	rec  *c18rec
	all  bool                  // replay: run every conditional entry point
	base map[c18stackKey]int64 // heap profile at the last attribution
	// current case
	seed string
	kind string
	mut  string
}

func (r *c18runner) typedEntries(data []byte) []c18entry {
	if len(data) == 0 {
		return nil
	}
	mk := func(name string, f func(d []byte) error) c18entry {
		return c18entry{name, func() error { return f(append([]byte(nil), data...)) }}
	}
	switch data[0] {
	case 0:
		return []c18entry{mk("UndefinedType.UnmarshalBinary", func(d []byte) error { var v encoder.UndefinedType; return v.UnmarshalBinary(d) })}
	case 1, 2:
		return []c18entry{mk("Bool.UnmarshalBinary", func(d []byte) error { var v encoder.Bool; return v.UnmarshalBinary(d) })}
	case 3:
		return []c18entry{mk("Int.UnmarshalBinary", func(d []byte) error { var v encoder.Int; return v.UnmarshalBinary(d) })}
	case 4:
		return []c18entry{mk("Uint.UnmarshalBinary", func(d []byte) error { var v encoder.Uint; return v.UnmarshalBinary(d) })}
	case 5:
		return []c18entry{mk("Char.UnmarshalBinary", func(d []byte) error { var v encoder.Char; return v.UnmarshalBinary(d) })}
	case 6:
		return []c18entry{mk("Float.UnmarshalBinary", func(d []byte) error { var v encoder.Float; return v.UnmarshalBinary(d) })}
	case 7:
		return []c18entry{mk("String.UnmarshalBinary", func(d []byte) error { var v encoder.String; return v.UnmarshalBinary(d) })}
	case 8:
		return []c18entry{mk("Bytes.UnmarshalBinary", func(d []byte) error { var v encoder.Bytes; return v.UnmarshalBinary(d) })}
	case 9:
		return []c18entry{mk("Array.UnmarshalBinary", func(d []byte) error { var v encoder.Array; return v.UnmarshalBinary(d) })}
	case 10:
		return []c18entry{
			mk("Map.UnmarshalBinary", func(d []byte) error { v := encoder.Map{}; return v.UnmarshalBinary(d) }),
			mk("Map.UnmarshalBinary(zero value)", func(d []byte) error { var v encoder.Map; return v.UnmarshalBinary(d) }),
		}
	case 11:
		return []c18entry{mk("SyncMap.UnmarshalBinary", func(d []byte) error { var v encoder.SyncMap; return v.UnmarshalBinary(d) })}
	case 12:
		return []c18entry{mk("CompiledFunction.UnmarshalBinary", func(d []byte) error { var v encoder.CompiledFunction; return v.UnmarshalBinary(d) })}
	case 13:
		return []c18entry{mk("Function.UnmarshalBinary", func(d []byte) error { var v encoder.Function; return v.UnmarshalBinary(d) })}
	case 14:
		return []c18entry{mk("BuiltinFunction.UnmarshalBinary", func(d []byte) error { var v encoder.BuiltinFunction; return v.UnmarshalBinary(d) })}
	}
	return nil
}

// Fingerprints name the defect site (top /repo frame + message class, or the
// allocating stack), not the entry point: every bytecode entry point funnels into
// (*Bytecode).UnmarshalBinary and every object entry point into DecodeObject and
// the typed unmarshalers it dispatches to, so a fingerprint per entry point would
// multiply each defect by 3..16 and make the set depend on which routes the random
// phases happen to find. The entry point is in the witness and in the ep:* counters.

// c18big is the "moderately huge" length: the smallest power of two above twice
// the budget of an n-byte input, so that one byte per claimed element already
// breaks the budget while a 16-byte-per-element site stays far below RLIMIT_AS.
func c18big(n int) int64 {
	v := int64(1) << 20
	for uint64(v) <= 2*c18budget(n+16) {
		v <<= 1
	}
	return v
}

// c18budget is the allocation allowed for an input of n bytes.
func c18budget(n int) uint64 { return 1<<20 + 256*uint64(n) }

type c18wit struct {
	Seed       string   `json:"seed"`
	Kind       string   `json:"kind"`
	Mut        string   `json:"mut"`
	Entry      string   `json:"entry"`
	Len        int      `json:"len"`
	Hex        string   `json:"hex"`
	Panic      string   `json:"panic,omitempty"`
	Frames     []string `json:"frames,omitempty"`
	AllocDelta uint64   `json:"alloc_delta,omitempty"`
	Budget     uint64   `json:"budget,omitempty"`
	AllocSite  string   `json:"alloc_site,omitempty"`
}

// judge runs one input through the entry points of its kind. Returns whether
// any entry point decoded it without error.
func (r *c18runner) judge(data []byte) (anyOK bool) {
	c := r.rec
	var entries []c18entry
	switch r.kind {
	case c18kBC:
		entries = append(entries, c18entry{"Bytecode.UnmarshalBinary", func() error {
			var bc encoder.Bytecode
			return bc.UnmarshalBinary(data)
		}})
	case c18kObj:
		entries = append(entries,
			c18entry{"DecodeObject", func() error {
				_, err := encoder.DecodeObject(bytes.NewReader(data))
				return err
			}},
			c18entry{"DecodeObject", func() error {
				_, err := encoder.DecodeObject(c18plainReader{bytes.NewReader(data)})
				return err
			}})
		entries = append(entries, r.typedEntries(data)...)
	case c18kSF:
		entries = append(entries, c18entry{"SourceFile.UnmarshalBinary", func() error {
			var v encoder.SourceFile
			return v.UnmarshalBinary(data)
		}})
	case c18kSFS:
		entries = append(entries, c18entry{"SourceFileSet.UnmarshalBinary", func() error {
			var v encoder.SourceFileSet
			return v.UnmarshalBinary(data)
		}})
	}
	n := 0
	huge := false
	run := func(e c18entry) c18out {
		if huge && !r.all {
			// an earlier entry point already allocated >= 256 MiB on this input; the others
			// funnel into the same code and would only repeat gigabytes of zeroing
			c.Count("entry_skipped_after_huge_alloc")
			return c18out{entry: e.name, err: errC18skipped}
		}
		o := c18call(e.name, e.f)
		n++
		c.Count("alloc_measured")
		r.assess(data, e, o)
		if o.delta >= c18hugeDelta {
			huge = true
		}
		return o
	}
	for _, e := range entries {
		o := run(e)
		if o.pan == "" && o.err == nil {
			anyOK = true
		}
	}
	if r.kind == c18kBC {
		first := anyOK
		o := run(c18entry{"DecodeBytecodeFrom", func() error {
			_, err := encoder.DecodeBytecodeFrom(bytes.NewReader(data), r.mods)
			return err
		}})
		if o.pan == "" && o.err == nil {
			anyOK = true
		}
		if first || r.all {
			// unmarshal succeeded: the object fix-up phase is reached, try the other routes into it
			run(c18entry{"DecodeBytecodeFrom", func() error {
				_, err := encoder.DecodeBytecodeFrom(c18plainReader{bytes.NewReader(data)}, nil)
				return err
			}})
			run(c18entry{"Bytecode.Decode", func() error {
				var bc encoder.Bytecode
				return bc.Decode(bytes.NewReader(data), r.mods)
			}})
		}
	}
	if n > 1 {
		c.Eval(n - 1)
	}
	return anyOK
}

func (r *c18runner) wit(data []byte, o c18out) c18wit {
	return c18wit{Seed: r.seed, Kind: r.kind, Mut: r.mut, Entry: o.entry, Len: len(data), Hex: hex.EncodeToString(data)}
}

func (r *c18runner) assess(data []byte, e c18entry, o c18out) {
	c := r.rec
	switch {
	case o.pan != "":
		c.Count("ep:" + o.entry + ":panic")
		fp := "C18|panic|" + o.top + "|" + c18msgClass(o.pan)
		w := r.wit(data, o)
		w.Panic, w.Frames = o.pan, o.frames
		c.Violation(fp, fmt.Sprintf("%s panics on a %d-byte input (seed %s, %s): %s", o.entry, len(data), r.seed, r.mut, core.NormMsg(o.pan)), w)
	case o.err != nil:
		c.Count("ep:" + o.entry + ":err")
		c.SetAdd("error_classes", c18errClass(o.err.Error()))
	default:
		c.Count("ep:" + o.entry + ":ok")
	}
	if b := c18budget(len(data)); o.delta > b {
		c.Count("ep:" + o.entry + ":overalloc")
		c.Count(fmt.Sprintf("overalloc_log2:%02d", bits.Len64(o.delta)-1))
		var site string
		var bytesAt int64
		if o.delta >= c18hugeDelta {
			site, bytesAt = r.allocSiteNoRerun(o.delta)
			debug.FreeOSMemory()
		} else {
			site, bytesAt = r.allocSite(e.f)
		}
		fp := "C18|alloc|" + site
		if r.seed == "x:deepnest-32k" && r.mut == "seed" {
			// the 32 KiB, ~7000-level nest of one-element arrays: the decoder copies the rest of the buffer at every level
			fp = "C18|alloc|quadratic-in-nesting-depth|" + site
		}
		w := r.wit(data, o)
		w.AllocDelta, w.Budget, w.AllocSite = o.delta, b, fmt.Sprintf("%s (%d bytes sampled by the heap profile)", site, bytesAt)
		c.Violation(fp, fmt.Sprintf("%s allocates %d bytes for a %d-byte input (budget %d) at %s (seed %s, %s)", o.entry, o.delta, len(data), b, site, r.seed, r.mut), w)
	}
}

// ---------------------------------------------------------------------------
// allocation-site attribution: heap-profile diff around a re-run

type c18stackKey [32]uintptr

func c18profile() map[c18stackKey]int64 {
	runtime.GC()
	runtime.GC()
	n, _ := runtime.MemProfile(nil, true)
	for {
		recs := make([]runtime.MemProfileRecord, n+64)
		m, ok := runtime.MemProfile(recs, true)
		if ok {
			out := make(map[c18stackKey]int64, m)
			for _, r := range recs[:m] {
				out[c18stackKey(r.Stack0)] += r.AllocBytes
			}
			return out
		}
		n = m
	}
}

const c18hugeDelta = 256 << 20

var errC18skipped = fmt.Errorf("c18: entry point skipped")

// allocSite re-runs f and returns "topRepoFunc<-leafFunc" of the stack that
// allocated most in the re-run, and the bytes it allocated.
func (r *c18runner) allocSite(f func() error) (string, int64) {
	base := c18profile()
	func() {
		defer func() { _ = recover() }()
		_ = f()
	}()
	cur := c18profile()
	r.base = cur
	return c18bestInc(base, cur, 0)
}

// allocSiteNoRerun attributes an allocation of >= 256 MiB without repeating it:
// the diff against the last snapshot is dominated by that allocation (sampled
// small objects accumulated since cannot add up to half of it).
func (r *c18runner) allocSiteNoRerun(delta uint64) (string, int64) {
	cur := c18profile()
	base := r.base
	r.base = cur
	return c18bestInc(base, cur, int64(delta/2))
}

func c18bestInc(base, cur map[c18stackKey]int64, atLeast int64) (string, int64) {
	var best c18stackKey
	var bestInc int64
	for k, v := range cur {
		inc := v - base[k]
		if inc <= bestInc || inc < atLeast {
			continue
		}
		if !c18hasRepoFrame(k) {
			continue
		}
		best, bestInc = k, inc
	}
	if bestInc == 0 {
		return "unattributed", 0
	}
	return c18siteName(best), bestInc
}

func c18frames(k c18stackKey) []string {
	n := 0
	for n < len(k) && k[n] != 0 {
		n++
	}
	var out []string
	fr := runtime.CallersFrames(k[:n])
	for {
		f, more := fr.Next()
		if f.Function != "" {
			out = append(out, f.Function)
		}
		if !more {
			break
		}
	}
	return out
}

func c18hasRepoFrame(k c18stackKey) bool {
	for _, f := range c18frames(k) {
		if strings.HasPrefix(f, "github.com/ozanh/ugo") {
			return true
		}
	}
	return false
}

func c18siteName(k c18stackKey) string {
	fs := c18frames(k)
	leaf, top := "", ""
	for _, f := range fs {
		if strings.HasPrefix(f, "runtime.") {
			continue
		}
		if leaf == "" {
			leaf = f
		}
		if strings.HasPrefix(f, "encoding/gob.") {
			// whatever allocates below gob (saferio.ReadData, reflect.MakeSlice ...): one site
			leaf = "encoding/gob"
		}
		if strings.HasPrefix(f, "github.com/ozanh/ugo") {
			top = strings.TrimPrefix(f, "github.com/ozanh/ugo/")
			break
		}
	}
	leaf = strings.TrimPrefix(leaf, "github.com/ozanh/ugo/")
	if leaf == top {
		return top
	}
	return top + "<-" + leaf
}

// ---------------------------------------------------------------------------
// mutations (spec strings are sufficient to rebuild the input from the seed)

func c18enc(v int64) []byte { return c18vi(v) }

// c18varintAt reports whether a length-prefixed varint starts at p.
func c18varintAt(d []byte, p int) (n int, v int64, ok bool) {
	n = int(d[p])
	if n == 0 {
		return 0, 0, true
	}
	if n > binary.MaxVarintLen64 || p+1+n > len(d) {
		return 0, 0, false
	}
	v, k := binary.Varint(d[p+1 : p+1+n])
	if k != n {
		return 0, 0, false
	}
	return n, v, true
}

func c18hasBigVarint(d []byte) bool {
	for p := range d {
		if n, _, ok := c18varintAt(d, p); ok && n >= 5 {
			return true
		}
	}
	return false
}

// c18apply rebuilds a mutated input from its seed and spec.
func c18apply(seed []byte, spec string) ([]byte, error) {
	pad := false
	if strings.HasSuffix(spec, "+pad") {
		pad = true
		spec = strings.TrimSuffix(spec, "+pad")
	}
	parts := strings.Split(spec, ":")
	num := func(i int) int {
		if i >= len(parts) {
			return -1
		}
		n, err := strconv.Atoi(parts[i])
		if err != nil {
			return -1
		}
		return n
	}
	hx := func(i int) []byte {
		if i >= len(parts) {
			return nil
		}
		b, _ := hex.DecodeString(parts[i])
		return b
	}
	d := append([]byte(nil), seed...)
	bad := fmt.Errorf("bad mutation spec %q for a %d-byte seed", spec, len(seed))
	switch parts[0] {
	case "seed":
	case "trunc":
		k := num(1)
		if k < 0 || k > len(d) {
			return nil, bad
		}
		d = d[:k]
	case "sub":
		p, v := num(1), hx(2)
		if p < 0 || p >= len(d) || len(v) != 1 {
			return nil, bad
		}
		d[p] = v[0]
	case "sub2":
		p, v, q, w := num(1), hx(2), num(3), hx(4)
		if p < 0 || p >= len(d) || q < 0 || q >= len(d) || len(v) != 1 || len(w) != 1 {
			return nil, bad
		}
		d[p], d[q] = v[0], w[0]
	case "splice":
		p, k, v := num(1), num(2), hx(3)
		if p < 0 || k < 0 || p+k > len(d) {
			return nil, bad
		}
		d = append(append(append([]byte(nil), d[:p]...), v...), seed[p+k:]...)
	case "ver":
		v := hx(1)
		if len(d) < 6 || len(v) != 2 {
			return nil, bad
		}
		d[4], d[5] = v[0], v[1]
	case "sig":
		v := hx(1)
		if len(d) < 4 || len(v) != 4 {
			return nil, bad
		}
		copy(d, v)
	case "havoc":
		sub, err := strconv.ParseInt(parts[1], 10, 64)
		if err != nil {
			return nil, bad
		}
		d = c18havoc(d, rand.New(rand.NewSource(sub)))
	default:
		return nil, bad
	}
	if pad {
		d = append(d, make([]byte, 16)...)
	}
	return d, nil
}

func c18havoc(d []byte, r *rand.Rand) []byte {
	interesting := []byte{0, 1, 2, 3, 5, 9, 10, 12, 0x7f, 0x80, 0xff}
	for k := 1 + r.Intn(5); k > 0; k-- {
		if len(d) == 0 {
			d = append(d, byte(r.Intn(256)))
			continue
		}
		p := r.Intn(len(d))
		switch r.Intn(7) {
		case 0:
			d[p] = byte(r.Intn(256))
		case 1:
			d[p] = interesting[r.Intn(len(interesting))]
		case 2:
			d[p] ^= 1 << uint(r.Intn(8))
		case 3: // delete a run
			q := p + 1 + r.Intn(8)
			if q > len(d) {
				q = len(d)
			}
			d = append(d[:p:p], d[q:]...)
		case 4: // insert a varint
			v := []int64{0, 1, -1, 64, 300, 70000, 1 << 23, 1 << 62}[r.Intn(8)]
			d = append(d[:p:p], append(c18enc(v), d[p:]...)...)
		case 5: // duplicate a chunk
			q := p + 1 + r.Intn(32)
			if q > len(d) {
				q = len(d)
			}
			chunk := append([]byte(nil), d[p:q]...)
			at := r.Intn(len(d))
			d = append(d[:at:at], append(chunk, d[at:]...)...)
		case 6: // overwrite with a chunk from elsewhere
			q := r.Intn(len(d))
			n := 1 + r.Intn(8)
			for i := 0; i < n && p+i < len(d) && q+i < len(d); i++ {
				d[p+i] = d[q+i]
			}
		}
		if len(d) > 8192 {
			d = d[:8192]
		}
	}
	return d
}

// c18random builds a random byte string of a given shape from its sub-seed.
func c18random(sub int64, shape int) (kind string, data []byte) {
	r := rand.New(rand.NewSource(sub))
	n := r.Intn(4097)
	if r.Intn(3) > 0 {
		n = r.Intn(200)
	}
	tokens := func(n int) []byte {
		var d []byte
		for len(d) < n {
			switch r.Intn(6) {
			case 0:
				d = append(d, byte(r.Intn(15)))
			case 1:
				d = append(d, c18enc([]int64{0, 1, 2, 5, 64, 300, -1, 1 << 20, 1 << 62}[r.Intn(9)])...)
			case 2:
				d = append(d, byte(r.Intn(6)))
			case 3:
				d = append(d, byte(r.Intn(256)))
			case 4:
				d = append(d, 1, byte(r.Intn(40)))
			case 5:
				d = append(d, 255)
			}
		}
		return d
	}
	raw := func(n int) []byte {
		d := make([]byte, n)
		r.Read(d)
		return d
	}
	switch shape {
	case 0:
		return c18kBC, raw(n)
	case 1:
		return c18kBC, append(c18header(2), raw(n)...)
	case 2:
		return c18kBC, append(c18header(1), raw(n)...)
	case 3:
		return c18kBC, append(c18header(uint16(1+r.Intn(2))), tokens(n)...)
	case 4:
		return c18kObj, raw(n)
	case 5:
		return c18kObj, tokens(n)
	case 6:
		d := tokens(n)
		if len(d) > 0 {
			d[0] = []byte{9, 10, 11, 12, 13, 14, 7, 8, 255}[r.Intn(9)]
		}
		return c18kObj, d
	case 7:
		return c18kSF, tokens(n)
	default:
		return c18kSFS, tokens(n)
	}
}

const c18shapes = 9

// ---------------------------------------------------------------------------

type c18desc struct {
	Seed string `json:"seed"`
	Kind string `json:"kind"`
	Mut  string `json:"mut"`
	Hex  string `json:"hex,omitempty"`
}

// do executes one case: log, build, judge, count.
func (r *c18runner) do(class string, s *c18seed, mut string, data []byte) {
	c := r.rec
	if !c.Begin(func() string {
		d := c18desc{Seed: s.id, Kind: s.kind, Mut: mut}
		if len(data) <= 128 || class == "probe" {
			d.Hex = hex.EncodeToString(data)
		}
		b, _ := json.Marshal(d)
		return string(b)
	}) {
		return
	}
	r.seed, r.kind, r.mut = s.id, s.kind, mut
	c.Count("cases:" + class)
	differs := !bytes.Equal(data, s.data)
	reached := false
	if s.kind == c18kBC {
		if len(data) >= 6 && binary.BigEndian.Uint32(data) == encoder.BytecodeSignature {
			if v := binary.BigEndian.Uint16(data[4:]); v == 1 || v == 2 {
				reached = true
				c.Count("reached_field_decoder")
				if v == 1 {
					c.Count("reached_field_decoder_v1")
				}
			}
		}
	} else {
		reached = len(data) > 0
	}
	ok := r.judge(data)
	if differs && reached {
		if ok {
			c.Count("mutant_decoded_ok")
		}
		id := mut
		if i := strings.Index(mut, ":"); i >= 0 {
			// kind + first offset
			rest := mut[i+1:]
			if j := strings.Index(rest, ":"); j >= 0 {
				rest = rest[:j]
			}
			id = mut[:i] + ":" + rest
		}
		c.Nontrivial(s.id + "|" + id)
	}
}

func c18subValues(b byte) []byte {
	vals := []byte{0, 1, 0x7f, 0x80, 0xff, b + 1, b - 1}
	for t := byte(2); t <= 14; t++ {
		vals = append(vals, t)
	}
	var seen [256]bool
	seen[b] = true
	out := vals[:0]
	for _, v := range vals {
		if !seen[v] {
			seen[v] = true
			out = append(out, v)
		}
	}
	return out
}

func c18hex1(b byte) string { return hex.EncodeToString([]byte{b}) }

// enumerate runs the positional enumerations of one seed. part(i) tells whether
// unit i (a position) belongs to this batch.
func (r *c18runner) enumerate(s *c18seed, part func() bool, sub2Vals []string, full bool, skipCrashProne bool) {
	d := s.data
	L := len(d)
	buf := make([]byte, 0, L+32)
	// unmutated seed
	if part() {
		r.do("seed", s, "seed", d)
	}
	// truncations
	for k := 0; k < L; k++ {
		if !part() {
			continue
		}
		r.do("trunc", s, "trunc:"+strconv.Itoa(k), d[:k])
	}
	// single-byte substitutions
	for p := 0; p < L; p++ {
		if !part() {
			continue
		}
		for _, v := range c18subValues(d[p]) {
			if skipCrashProne && v >= 7 && v <= 14 && p+1 < L {
				if n, _, ok := c18varintAt(d, p+1); ok && n >= 5 {
					// container tag in front of a 5..10-byte number: the number becomes a length, one time in
					// five between 2^33 and 2^47 = fatal out-of-memory. The built-in seeds (p:floats, p:ints,
					// p:timemod ...) enumerate exactly this with crash attribution; on batch-local random
					// programs it would only push the batch over the driver's crash limit.
					r.rec.Count("sub1_skipped_crash_prone")
					continue
				}
			}
			buf = append(buf[:0], d...)
			buf[p] = v
			r.do("sub1", s, "sub:"+strconv.Itoa(p)+":"+c18hex1(v), buf)
		}
	}
	// length/count varint rewrites
	for p := 0; p < L; p++ {
		if !part() {
			continue
		}
		n, v, ok := c18varintAt(d, p)
		if !ok {
			// the seed is valid, so every length/count the decoder reads is a well-formed
			// length-prefixed varint: other offsets are covered by the substitutions
			continue
		}
		vals := []int64{0, 1, v + 1, v - 1, c18big(L), 1 << 62, -1, math.MaxInt64, math.MinInt64}
		seen := map[int64]bool{}
		seen[v] = true
		for _, nv := range vals {
			if seen[nv] {
				continue
			}
			seen[nv] = true
			e := c18enc(nv)
			buf = append(append(append(buf[:0], d[:p]...), e...), d[p+1+n:]...)
			spec := "splice:" + strconv.Itoa(p) + ":" + strconv.Itoa(1+n) + ":" + hex.EncodeToString(e)
			r.do("splice", s, spec, buf)
			if len(buf) < L {
				buf = append(buf, make([]byte, 16)...)
				r.do("splice", s, spec+"+pad", buf)
			}
		}
	}
	// double-byte corruptions of the first 64 bytes
	if len(sub2Vals) > 0 {
		lim := L
		if lim > 64 {
			lim = 64
		}
		val := func(code string, b byte) byte {
			switch code {
			case "00":
				return 0
			case "ff":
				return 0xff
			case "80":
				return 0x80
			case "+1":
				return b + 1
			}
			return b - 1
		}
		for i := 0; i < lim; i++ {
			for j := i + 1; j < lim; j++ {
				if !part() {
					continue
				}
				for _, a := range sub2Vals {
					for _, b := range sub2Vals {
						x, y := val(a, d[i]), val(b, d[j])
						if x == d[i] || y == d[j] {
							continue
						}
						buf = append(buf[:0], d...)
						buf[i], buf[j] = x, y
						r.do("sub2", s, fmt.Sprintf("sub2:%d:%s:%d:%s", i, c18hex1(x), j, c18hex1(y)), buf)
					}
				}
			}
		}
	}
	// header variants
	if s.kind == c18kBC && L >= 6 && full {
		for _, v := range []string{"0000", "0001", "0002", "0003", "ffff", "0100", "0200", "0102"} {
			if !part() {
				continue
			}
			buf = append(buf[:0], d...)
			hv, _ := hex.DecodeString(v)
			buf[4], buf[5] = hv[0], hv[1]
			r.do("version", s, "ver:"+v, buf)
		}
		for _, v := range []string{"00000000", "0075474e", "4f477500", "ffffffff"} {
			if !part() {
				continue
			}
			buf = append(buf[:0], d...)
			hv, _ := hex.DecodeString(v)
			copy(buf, hv)
			r.do("version", s, "sig:"+v, buf)
		}
	}
}

// probe: length rewrites that may take the process down (run first).
func (r *c18runner) probe(s *c18seed, part func() bool) {
	d := s.data
	for p := 0; p < len(d); p++ {
		n, v, ok := c18varintAt(d, p)
		if !ok {
			continue
		}
		for _, nv := range []int64{1 << 31, 1 << 40} {
			if nv == v || !part() {
				continue
			}
			e := c18enc(nv)
			buf := append(append(append([]byte(nil), d[:p]...), e...), d[p+1+n:]...)
			r.do("probe", s, "splice:"+strconv.Itoa(p)+":"+strconv.Itoa(1+n)+":"+hex.EncodeToString(e), buf)
		}
	}
}

func (m c18) Run(c *core.Ctx) {
	runtime.GOMAXPROCS(1)
	runtime.MemProfileRate = 64 << 10
	r := &c18runner{c: c, mods: c18mods()}
	r.rec = c18newRec(c)
	rc := r.rec
	r.base = c18profile()

	if c.Replay != nil {
		m.replay(c, r)
		return
	}

	seeds, err := c18builtinSeeds()
	if err != nil {
		rc.Violation("C18|harness-seeds", "seed construction failed: "+err.Error(), nil)
		return
	}
	fresh := rc.st.Counters["restored_from_checkpoint_after_crash"] == 0
	if c.Batch == 0 && fresh {
		for _, s := range seeds {
			switch s.kind {
			case c18kBC:
				rc.Count("seeds_bc")
			case c18kObj:
				rc.Count("seeds_obj")
			default:
				rc.Count("seeds_sf")
			}
			for _, f := range s.feats {
				rc.Count("seedfeat:" + f)
				if f == "v1" {
					rc.Count("seeds_v1")
				}
			}
			rc.CountN("seed_bytes", int64(len(s.data)))
		}
		// sanity: the genuine seeds decode (hand-made "x:" inputs are malformed on purpose)
		for _, s := range seeds {
			if s.kind != c18kBC || strings.HasPrefix(s.id, "x:") || strings.Contains(s.id, "/v1relabel") || strings.HasPrefix(s.id, "h:modconst") {
				continue
			}
			if _, err := encoder.DecodeBytecodeFrom(bytes.NewReader(s.data), r.mods); err != nil {
				rc.Violation("C18|harness-seed-undecodable", "valid seed "+s.id+" does not decode: "+err.Error(), c18wit{Seed: s.id, Hex: hex.EncodeToString(s.data)})
			} else {
				rc.Count("seed_decodes_ok")
			}
		}
	}

	// global unit counter: a unit (position) belongs to batch unit % NBatch
	unit := 0
	part := func() bool {
		unit++
		return unit%c.NBatch == c.Batch
	}

	// phase 0: crash-prone length rewrites on small seeds (a crash loses the
	// child's accumulated results, so these run before anything else)
	for i := range seeds {
		s := &seeds[i]
		if !s.probe || len(s.data) > 400 {
			continue
		}
		if !c.Thorough() && !c18quickProbe[s.id] {
			continue
		}
		if c.Batch == 0 && fresh {
			rc.Count("probe_seeds")
		}
		r.probe(s, part)
	}

	// phase 3: havoc mutants of random seeds
	nHavoc := c.Pick(4000, 60000)
	for k := 0; k < nHavoc; k++ {
		s := &seeds[c.Rng.Intn(len(seeds))]
		sub := c.Rng.Int63n(1 << 40)
		if len(s.data) > 3000 && k%8 != 0 {
			continue
		}
		if c18hasBigVarint(s.data) {
			// a 5..10-byte number that havoc moves behind a container tag becomes a length, one time in
			// five between 2^33 and 2^47, i.e. a fatal out-of-memory crash (the probe phase and the
			// positional enumeration already cover that); keep the crash count per batch bounded
			continue
		}
		mut := "havoc:" + strconv.FormatInt(sub, 10)
		data := c18havoc(append([]byte(nil), s.data...), rand.New(rand.NewSource(sub)))
		r.do("havoc", s, mut, data)
	}

	// phase 4: random byte strings
	nRand := c.Pick(4000, 60000)
	for k := 0; k < nRand; k++ {
		sub := c.Rng.Int63n(1 << 40)
		shape := k % c18shapes
		kind, data := c18random(sub, shape)
		s := &c18seed{id: fmt.Sprintf("rand:%d:%d", sub, shape), kind: kind, data: nil}
		r.do("random", s, "seed", data)
		if k < 2 {
			c.Sample(map[string]any{"seed": s.id, "kind": kind, "len": len(data), "hex_head": hex.EncodeToString(data[:c18min(len(data), 48)])})
		}
	}
	// phase 1: exhaustive positional enumerations on the built-in seeds
	nBig := 0
	for i := range seeds {
		s := &seeds[i]
		var sub2 []string
		full := true
		if strings.HasPrefix(s.id, "x:field") || strings.HasPrefix(s.id, "x:cfins") || strings.HasPrefix(s.id, "x:sfname") {
			// field-slot swaps: the point is the unmutated input; enumerate a fraction only
			if !c.Thorough() && i%4 != 0 {
				if part() {
					r.do("seed", s, "seed", s.data)
				}
				continue
			}
			full = false
		} else if c.Thorough() {
			sub2 = []string{"00", "ff", "+1", "80"}
		} else if s.kind != c18kBC || i%5 == 0 {
			sub2 = []string{"00", "ff", "+1"}
		}
		if s.id == "x:deepnest-32k" {
			if part() {
				r.do("seed", s, "seed", s.data)
			}
			continue
		}
		if strings.HasPrefix(s.id, "x:amplify") || s.id == "x:deepnest" || s.id == "x:deepnest-claim" {
			// every decode of these allocates tens of MiB: the unmutated input and its truncations are the point
			if part() {
				r.do("seed", s, "seed", s.data)
			}
			for k := 64; k < len(s.data); k += 64 {
				if part() {
					r.do("trunc", s, "trunc:"+strconv.Itoa(k), s.data[:k])
				}
			}
			continue
		}
		if len(s.data) > 1500 {
			// large seeds (stdlib module tables): enumerate a share in quick
			nBig++
			if !c.Thorough() && nBig%3 != 1 {
				if part() {
					r.do("seed", s, "seed", s.data)
				}
				continue
			}
		}
		r.enumerate(s, part, sub2, full, false)
	}

	// phase 2: batch-local random programs
	nProg := c.Pick(1, 12)
	for k := 0; k < nProg; k++ {
		sub := c.Rng.Int63n(1 << 40)
		ss, err := c18randomSeeds(sub)
		if err != nil {
			rc.Count("random_program_compile_failed")
			continue
		}
		rc.Count("seeds_random_program")
		for i := range ss {
			s := &ss[i]
			for _, f := range s.feats {
				rc.Count("seedfeat:" + f)
			}
			if len(s.data) > 3000 {
				rc.Count("random_program_too_large")
				continue
			}
			var sub2 []string
			if c.Thorough() && i == 0 {
				sub2 = []string{"ff", "+1"}
			}
			r.enumerate(s, func() bool { return true }, sub2, true, true)
		}
	}

	if c.Batch == 0 {
		c.Sample(map[string]any{"seed": seeds[1].id, "kind": seeds[1].kind, "len": len(seeds[1].data), "hex": hex.EncodeToString(seeds[1].data),
			"enumerated": "every truncation, every single-byte substitution, varint rewrites at every offset, double-byte corruptions of the first 64 bytes"})
	}
}

// quick tier: one seed per allocation site family is enough to see each crash site
var c18quickProbe = map[string]bool{"p:int1": true, "h:v1jumps": true, "o:arrmixed": true, "o:compiledfunc": true, "s:fileset": true, "s:file0": true}

func c18min(a, b int) int {
	if a < b {
		return a
	}
	return b
}

// c18seedByID rebuilds a seed from its id.
func c18seedByID(id string) (*c18seed, error) {
	if strings.HasPrefix(id, "rand:") {
		p := strings.Split(id, ":")
		if len(p) != 3 {
			return nil, fmt.Errorf("bad random id %q", id)
		}
		sub, _ := strconv.ParseInt(p[1], 10, 64)
		shape, _ := strconv.Atoi(p[2])
		kind, data := c18random(sub, shape)
		return &c18seed{id: id, kind: kind, data: data}, nil
	}
	if strings.HasPrefix(id, "r:") {
		name := id
		if i := strings.Index(id, "/"); i >= 0 {
			name = id[:i]
		}
		sub, err := strconv.ParseInt(strings.TrimPrefix(name, "r:"), 10, 64)
		if err != nil {
			return nil, err
		}
		ss, err := c18randomSeeds(sub)
		if err != nil {
			return nil, err
		}
		for i := range ss {
			if ss[i].id == id {
				return &ss[i], nil
			}
		}
		return nil, fmt.Errorf("no seed %q", id)
	}
	seeds, err := c18builtinSeeds()
	if err != nil {
		return nil, err
	}
	for i := range seeds {
		if seeds[i].id == id {
			return &seeds[i], nil
		}
	}
	return nil, fmt.Errorf("no seed %q", id)
}

// replay accepts a violation witness (c18wit) or the parent's crash witness
// {"case": <c18desc JSON>, ...}.
func (m c18) replay(c *core.Ctx, r *c18runner) {
	var w struct {
		Seed string `json:"seed"`
		Kind string `json:"kind"`
		Mut  string `json:"mut"`
		Hex  string `json:"hex"`
		Case string `json:"case"`
	}
	if err := json.Unmarshal(c.Replay, &w); err != nil {
		c.Inconclusive("replay: cannot parse witness: " + err.Error())
		return
	}
	if w.Case != "" {
		var d c18desc
		if err := json.Unmarshal([]byte(w.Case), &d); err != nil {
			c.Inconclusive("replay: cannot parse crash case: " + err.Error())
			return
		}
		w.Seed, w.Kind, w.Mut, w.Hex = d.Seed, d.Kind, d.Mut, d.Hex
	}
	var data []byte
	if w.Hex != "" {
		b, err := hex.DecodeString(w.Hex)
		if err != nil {
			c.Inconclusive("replay: bad hex")
			return
		}
		data = b
	} else {
		s, err := c18seedByID(w.Seed)
		if err != nil {
			c.Inconclusive("replay: " + err.Error())
			return
		}
		data, err = c18apply(s.data, w.Mut)
		if err != nil {
			c.Inconclusive("replay: " + err.Error())
			return
		}
		if w.Kind == "" {
			w.Kind = s.kind
		}
	}
	r.all = true
	r.seed, r.kind, r.mut = w.Seed, w.Kind, w.Mut
	r.judge(data)
}
