package props

import (
	"bytes"
	"encoding/gob"
	"encoding/hex"
	"fmt"
	"math"
	"math/rand"
	"reflect"
	"strconv"
	"strings"
	gotime "time"

	"github.com/ozanh/ugo"
	"github.com/ozanh/ugo/encoder"
	"github.com/ozanh/ugo/parser"
	ufmt "github.com/ozanh/ugo/stdlib/fmt"
	ujson "github.com/ozanh/ugo/stdlib/json"
	ustrings "github.com/ozanh/ugo/stdlib/strings"
	utime "github.com/ozanh/ugo/stdlib/time"
)

// seed kinds
const (
	c18kBC  = "bc"  // whole bytecode (header + fields)
	c18kObj = "obj" // one object in DecodeObject format
	c18kSF  = "sf"  // SourceFile.MarshalBinary output
	c18kSFS = "sfs" // SourceFileSet.MarshalBinary output
)

type c18seed struct {
	id    string
	kind  string
	data  []byte
	feats []string
	probe bool // used in the crash-probe phase (2^31 / 2^40 length rewrites)
}

// c18mods is the module map given to the compiler and to DecodeBytecodeFrom.
// "modA" (builtin) and "modB" (source) differ in one byte on purpose: a
// single-byte corruption of the module name constant reaches the other kind.
func c18mods() *ugo.ModuleMap {
	return ugo.NewModuleMap().
		AddBuiltinModule("fmt", ufmt.Module).
		AddBuiltinModule("strings", ustrings.Module).
		AddBuiltinModule("time", utime.Module).
		AddBuiltinModule("json", ujson.Module).
		AddBuiltinModule("modA", map[string]ugo.Object{
			"fn":  &ugo.Function{Name: "fn", Value: func(...ugo.Object) (ugo.Object, error) { return ugo.Int(1), nil }},
			"val": ugo.Int(7),
			"str": ugo.String("s"),
			"arr": ugo.Array{ugo.Int(1), ugo.True},
		}).
		AddSourceModule("modB", []byte(`return {fn: func(x) { return x + 1 }, val: 10}`)).
		AddSourceModule("srcmod", []byte(`
inner := import("srcinner")
return {
	Incr: func(x) { return inner.add(x, 1) },
	Decr: func(x) { return x - 1 },
}`)).
		AddSourceModule("srcinner", []byte(`return {add: func(a, b) { return a + b }}`))
}

type c18prog struct {
	name  string
	src   string
	feats []string
	probe bool
}

func c18manyInts() string {
	var b strings.Builder
	b.WriteString("return [")
	for i := 0; i < 300; i++ {
		if i > 0 {
			b.WriteString(", ")
		}
		b.WriteString(strconv.Itoa(1000 + i*37))
	}
	b.WriteString("]")
	return b.String()
}

func c18programs() []c18prog {
	long := strings.Repeat("abcdefghij", 20)
	return []c18prog{
		{"empty", ``, []string{"compiledfunc"}, true},
		{"int1", `return 1`, []string{"int"}, true},
		{"ints", `return [0, 1, -1, 63, 64, 127, 128, 255, 256, 65535, 65536, 2147483648, 9223372036854775807, -9223372036854775807]`, []string{"int"}, false},
		{"uints", `return [0u, 1u, 255u, 4294967296u, 18446744073709551615u]`, []string{"uint"}, false},
		{"floats", `return [0.0, 1.5, -2.25, 1e300, 1e-300, 3.141592653589793]`, []string{"float"}, false},
		{"chars", `return ['a', '\n', 'é', '世', '0']`, []string{"char"}, false},
		{"strings", "return [\"\", \"a\", \"hello world\", `raw\\n`, \"" + long + "\"]", []string{"string"}, false},
		{"mixed", `return [1, 2u, 3.5, 'c', "str", true, false, undefined]`, []string{"int", "uint", "float", "char", "string"}, true},
		{"func", `f := func(a, b) { return a + b }; return f(1, 2)`, []string{"compiledfunc"}, true},
		{"closure", `f := func(a, b) { return func(c) { return a + b + c } }; return f(1, 2)(3)`, []string{"compiledfunc", "closure"}, false},
		{"closure2", `x := 10; g := func() { x += 1; return func() { x += 2; return x } }; return g()()`, []string{"closure"}, false},
		{"variadic", `f := func(a, ...b) { return len(b) + a }; return f(1, 2, 3)`, []string{"variadic"}, true},
		{"variadic2", `f := func(...v) { return v }; g := func(a, b, ...c) { return f(a, b, ...c) }; return g(1, 2, 3, 4)`, []string{"variadic"}, false},
		{"trycatch", `try { throw "x" } catch e { return e } finally { v := 1 }`, []string{"trycatch"}, true},
		{"tryfinally", `r := 0; try { r = 1 / r } catch { r = -1 } finally { r += 10 }; return r`, []string{"trycatch"}, false},
		{"trynested", `f := func() { try { try { throw error("a") } finally { x := 1 } } catch err { return string(err) } }; return f()`, []string{"trycatch", "compiledfunc"}, false},
		{"loop", `s := 0; for i := 0; i < 10; i++ { if i % 2 == 0 { continue }; s += i }; return s`, []string{"jumps"}, false},
		{"forin", `s := ""; for k, v in {a: 1, b: 2} { s += k + string(v) }; for v in [1, 2] { s += string(v) }; return s`, []string{"jumps"}, false},
		{"logic", `a := 1; b := 0; return (a && b) || (a ? "t" : "f")`, []string{"jumps"}, false},
		{"params", `param (a, ...b); global g; return [a, b, g]`, []string{"variadic"}, false},
		{"mapsarrays", `m := {a: 1, b: ["abc", {c: 2.5}], "d e": 'x'}; m.a = m.b[1].c; return m["d e"]`, []string{"string", "float", "char"}, false},
		{"selectors", `s := "abc"; a := [1, 2, 3]; return [s[1:], a[:2], a[1], bytes(1, 2, 3)[0]]`, []string{"int"}, false},
		{"builtins", `return [len("a"), append([], 1), string(1), int("2"), typeName(1), isError(undefined), sprintf("%d", 3)]`, []string{"string"}, false},
		{"srcmod", `m := import("srcmod"); return m.Incr(m.Decr(5))`, []string{"srcmodule", "compiledfunc"}, false},
		{"srcmodB", `m := import("modB"); return m.fn(m.val)`, []string{"srcmodule"}, true},
		{"modA", `m := import("modA"); return m.fn() + m.val`, []string{"builtinmodule", "function"}, true},
		{"modAB", `a := import("modA"); b := import("modB"); return a.fn() + b.fn(1)`, []string{"builtinmodule", "srcmodule", "function"}, false},
		{"fmtmod", `fmt := import("fmt"); return fmt.Sprintf("%d", 1)`, []string{"builtinmodule", "function"}, false},
		{"stringsmod", `strings := import("strings"); return strings.Join(["a"], "")`, []string{"builtinmodule", "function"}, false},
		{"jsonmod", `json := import("json"); return json.Marshal(1)`, []string{"builtinmodule", "function"}, false},
		{"timemod", `time := import("time"); return time.Second`, []string{"builtinmodule", "function", "gobfallback"}, false},
		{"full", `
fmt := import("fmt")
strings := import("strings")
time := import("time")
json := import("json")
srcmod := import("srcmod")
v := int(json.Unmarshal(json.Marshal(1)))
v = int(strings.Join([v], ""))
v = srcmod.Incr(v)
f := func(a, ...b) { try { return a + 1u + 2.5 } catch e { return [e, true, "str", 'c'] } finally { v = 3 } }
return v*time.Second/time.Second`, []string{"builtinmodule", "srcmodule", "trycatch", "variadic"}, false},
		{"manyints", c18manyInts(), []string{"int"}, false},
		{"biglocals", `a:=1;b:=2;c:=3;d:=4;e:=5;f:=6;g:=7;h:=8;i:=9;j:=10;k:=11;l:=12; return func(x){ m:=a+b+c+d+e+f; n:=g+h+i+j+k+l; return m+n+x }(1)`, []string{"closure"}, false},
		{"recursion", `var fib; fib = func(n) { return n < 2 ? n : fib(n-1) + fib(n-2) }; return fib(10)`, []string{"closure", "jumps"}, false},
		{"throwfn", `f := func(x) { if x { throw error("bad") }; return "ok" }; try { f(true) } catch err { return err.Message }; return f(false)`, []string{"trycatch", "jumps"}, false},
		{"destructure", `x, y := [1, 2]; z := func() { return [3, 4] }; a, b := z(); return x + y + a + b`, []string{"compiledfunc"}, false},
		{"callname", `m := {f: func(a) { return a * 2 }}; s := "x"; return m.f(2)`, []string{"compiledfunc"}, false},
		{"multiline", "a := 1\n\n\nb := 2\n// comment\nreturn a +\n b\n", []string{"int"}, false},
		{"deepfunc", `return func() { return func() { return func() { return func(...a) { return 'z' } } } }`, []string{"compiledfunc", "variadic", "char"}, false},
	}
}

func c18compile(src string) (*ugo.Bytecode, error) {
	return ugo.Compile([]byte(src), ugo.CompilerOptions{ModuleMap: c18mods()})
}

// c18extraConstants are values the compiler never puts into Constants but the
// format supports (bools, bytes, containers, builtin function, gob fallback).
func c18extraConstants() []ugo.Object {
	baz := ugo.Object(ugo.String("baz"))
	return []ugo.Object{
		ugo.Undefined, ugo.True, ugo.False,
		ugo.Bytes{}, ugo.Bytes("foo"),
		ugo.Array{}, ugo.Array{ugo.Undefined, ugo.True, ugo.Int(-5), ugo.Array{ugo.String("n")}},
		ugo.Map{}, ugo.Map{"k": ugo.Int(1), "m": ugo.Map{"z": ugo.Float(2)}, "": ugo.String("empty key")},
		&ugo.SyncMap{}, &ugo.SyncMap{Value: ugo.Map{"k": ugo.String("")}},
		ugo.ErrIndexOutOfBounds,
		&ugo.RuntimeError{Err: ugo.ErrInvalidIndex},
		&utime.Time{Value: gotime.Unix(1700000000, 5).UTC()},
		&ujson.EncoderOptions{Value: ugo.Int(1)},
		&ujson.RawMessage{Value: ugo.Bytes("bar")},
		&ugo.ObjectPtr{Value: &baz},
	}
}

type c18objSeed struct {
	name  string
	v     ugo.Object
	feats []string
}

func c18objects() []c18objSeed {
	baz := ugo.Object(ugo.Int(3))
	fn, _ := c18compile(`return func(a, ...b) { try { return a } catch e { return b } }`)
	var cf, cfNoMap *ugo.CompiledFunction
	if fn != nil {
		for _, c := range fn.Constants {
			if f, ok := c.(*ugo.CompiledFunction); ok {
				cf = f
				g := *f
				g.SourceMap = nil
				cfNoMap = &g
			}
		}
	}
	long := strings.Repeat("x", 200)
	out := []c18objSeed{
		{"undefined", ugo.Undefined, []string{"undefined"}},
		{"true", ugo.True, []string{"bool"}},
		{"false", ugo.False, []string{"bool"}},
		{"int0", ugo.Int(0), []string{"int"}},
		{"int1", ugo.Int(1), []string{"int"}},
		{"int-1", ugo.Int(-1), []string{"int"}},
		{"intmax", ugo.Int(math.MaxInt64), []string{"int"}},
		{"intmin", ugo.Int(math.MinInt64), []string{"int"}},
		{"uint0", ugo.Uint(0), []string{"uint"}},
		{"uintmax", ugo.Uint(math.MaxUint64), []string{"uint"}},
		{"char0", ugo.Char(0), []string{"char"}},
		{"chara", ugo.Char('a'), []string{"char"}},
		{"charmax", ugo.Char(0x10FFFF), []string{"char"}},
		{"char-1", ugo.Char(-1), []string{"char"}},
		{"float0", ugo.Float(0), []string{"float"}},
		{"float1.5", ugo.Float(1.5), []string{"float"}},
		{"floatnan", ugo.Float(math.NaN()), []string{"float"}},
		{"floatinf", ugo.Float(math.Inf(-1)), []string{"float"}},
		{"str0", ugo.String(""), []string{"string"}},
		{"str3", ugo.String("abc"), []string{"string"}},
		{"str200", ugo.String(long), []string{"string"}},
		{"bytes0", ugo.Bytes{}, []string{"bytes"}},
		{"bytes3", ugo.Bytes{0, 1, 255}, []string{"bytes"}},
		{"bytes200", ugo.Bytes(long), []string{"bytes"}},
		{"arr0", ugo.Array{}, []string{"array"}},
		{"arrmixed", ugo.Array{ugo.Undefined, ugo.True, ugo.Int(300), ugo.Uint(2), ugo.Char('c'), ugo.Float(-1), ugo.String("s"), ugo.Bytes("b"),
			ugo.Array{ugo.Array{ugo.Int(1)}}, ugo.Map{"a": ugo.Int(1)}}, []string{"array"}},
		{"map0", ugo.Map{}, []string{"map"}},
		{"mapnested", ugo.Map{"a": ugo.Int(1), "bb": ugo.Array{ugo.String("x")}, "c": ugo.Map{"d": ugo.Bytes("e"), "": ugo.False}}, []string{"map"}},
		{"sync0", &ugo.SyncMap{}, []string{"syncmap"}},
		{"sync1", &ugo.SyncMap{Value: ugo.Map{"i": ugo.Int(0), "u": ugo.Uint(9)}}, []string{"syncmap"}},
		{"function", &ugo.Function{Name: "myfunc"}, []string{"function"}},
		{"function0", &ugo.Function{Name: ""}, []string{"function"}},
		{"builtinlen", ugo.BuiltinObjects[ugo.BuiltinLen], []string{"builtinfunc"}},
		{"builtinappend", ugo.BuiltinObjects[ugo.BuiltinAppend], []string{"builtinfunc"}},
		{"goberror", ugo.Array{ugo.ErrIndexOutOfBounds}, []string{"gobfallback"}},
		{"gobrterror", ugo.Array{&ugo.RuntimeError{Err: ugo.ErrInvalidIndex}}, []string{"gobfallback"}},
		{"gobtime", &utime.Time{Value: gotime.Unix(1700000000, 5).UTC()}, []string{"gobfallback"}},
		{"gobjsonopts", &ujson.EncoderOptions{Value: ugo.Array{ugo.Int(1), ugo.String("q")}}, []string{"gobfallback"}},
		{"gobraw", &ujson.RawMessage{Value: ugo.Bytes("bar")}, []string{"gobfallback"}},
		{"gobptr", &ugo.ObjectPtr{Value: &baz}, []string{"gobfallback"}},
		{"modulemap", ugo.Map{ugo.AttrModuleName: ugo.String("modA"), "fn": &ugo.Function{Name: "fn"}, "val": ugo.Int(7)}, []string{"map", "function"}},
	}
	if cf != nil {
		out = append(out,
			c18objSeed{"compiledfunc", cf, []string{"compiledfunc", "variadic", "trycatch"}},
			c18objSeed{"compiledfunc-nomap", cfNoMap, []string{"compiledfunc"}},
			c18objSeed{"compiledfunc-empty", &ugo.CompiledFunction{}, []string{"compiledfunc"}},
			c18objSeed{"arrfuncs", ugo.Array{cf, ugo.Int(1), cfNoMap}, []string{"array", "compiledfunc"}},
		)
	}
	return out
}

// c18selfCheck: the real decoder must read the deterministic encoding back to
// the same value it reads from the real encoder's output.
func c18selfCheck(bc *ugo.Bytecode, mine []byte) error {
	var buf bytes.Buffer
	if err := encoder.EncodeBytecodeTo(bc, &buf); err != nil {
		return fmt.Errorf("real encoder: %w", err)
	}
	if len(mine) != buf.Len() {
		return fmt.Errorf("length differs: mine %d real %d", len(mine), buf.Len())
	}
	var a, b encoder.Bytecode
	if err := a.UnmarshalBinary(buf.Bytes()); err != nil {
		return fmt.Errorf("real decode of real encoding: %w", err)
	}
	if err := b.UnmarshalBinary(mine); err != nil {
		return fmt.Errorf("real decode of deterministic encoding: %w", err)
	}
	if !reflect.DeepEqual(&a, &b) {
		return fmt.Errorf("decoded values differ")
	}
	return nil
}

// c18bcSeeds builds the seeds of one compiled program: v2 encoding, v1
// relabel (version field set to 1 on the v2 bytes), v1 down-converted.
func c18bcSeeds(name string, bc *ugo.Bytecode, feats []string, probe bool, withV1 bool) ([]c18seed, error) {
	v2 := c18encBytecode(bc, 2)
	if err := c18selfCheck(bc, v2); err != nil {
		return nil, fmt.Errorf("seed %s: %w", name, err)
	}
	out := []c18seed{{id: name, kind: c18kBC, data: v2, feats: feats, probe: probe}}
	if withV1 {
		rel := append([]byte(nil), v2...)
		rel[4], rel[5] = 0, 1
		out = append(out, c18seed{id: name + "/v1relabel", kind: c18kBC, data: rel, feats: []string{"v1"}})
		out = append(out, c18seed{id: name + "/v1", kind: c18kBC, data: c18encBytecode(c18toV1(bc), 1), feats: []string{"v1"}, probe: probe})
	}
	return out, nil
}

// c18builtinSeeds returns the deterministic seed list (identical in every process).
func c18builtinSeeds() ([]c18seed, error) {
	var seeds []c18seed
	var firstFS *parser.SourceFileSet
	for i, p := range c18programs() {
		bc, err := c18compile(p.src)
		if err != nil {
			return nil, fmt.Errorf("program %s does not compile: %w", p.name, err)
		}
		hasJump := false
		for _, f := range p.feats {
			if f == "jumps" || f == "trycatch" {
				hasJump = true
			}
		}
		ss, err := c18bcSeeds("p:"+p.name, bc, p.feats, p.probe, hasJump || i%4 == 1)
		if err != nil {
			return nil, err
		}
		seeds = append(seeds, ss...)
		if p.name == "srcmod" {
			firstFS = bc.FileSet
		}
	}
	// hand-built bytecodes: constants the compiler never emits
	base, err := c18compile(`f := func(a) { return a }; return f(1)`)
	if err != nil {
		return nil, err
	}
	hb := *base
	hb.Constants = append(append([]ugo.Object(nil), base.Constants...), c18extraConstants()...)
	ss, err := c18bcSeeds("h:extraconsts", &hb, []string{"bool", "bytes", "array", "map", "syncmap", "undefined", "gobfallback"}, false, false)
	if err != nil {
		return nil, err
	}
	seeds = append(seeds, ss...)
	// a builtin function constant: encodable, but the pinned decoder rejects it (BuiltinFunction.UnmarshalBinary
	// asserts the wrong type), so this one is not required to decode
	bf := &ugo.Bytecode{Main: base.Main, Constants: []ugo.Object{ugo.BuiltinObjects[ugo.BuiltinLen], ugo.Int(1), ugo.BuiltinObjects[ugo.BuiltinAppend]}}
	seeds = append(seeds, c18seed{id: "x:builtinconst", kind: c18kBC, data: c18encBytecode(bf, 2), feats: []string{"builtinfunc"}})
	minimal := &ugo.Bytecode{Main: &ugo.CompiledFunction{Instructions: []byte{ugo.OpReturn, 0}}}
	seeds = append(seeds, c18seed{id: "h:minimal", kind: c18kBC, data: c18encBytecode(minimal, 2), feats: []string{"compiledfunc"}, probe: true})
	seeds = append(seeds, c18seed{id: "h:headeronly", kind: c18kBC, data: c18header(2), feats: nil})
	nomain := &ugo.Bytecode{Constants: []ugo.Object{ugo.Int(1), ugo.True}, NumModules: 3}
	seeds = append(seeds, c18seed{id: "h:nomain", kind: c18kBC, data: c18encBytecode(nomain, 2), feats: []string{"bool"}, probe: true})
	seeds = append(seeds, c18seed{id: "h:nomain/v1", kind: c18kBC, data: c18encBytecode(nomain, 1), feats: []string{"v1"}})
	// v1 hand-built like encoder/v1_test.go: every jump kind, 2-byte operands
	v1ins := []byte{0, 1, 0, 0, 12, 0, 1, 13, 0, 2, 14, 0, 3, 15, 0, 4, 34, 0, 5, 0, 6, 39, 1}
	v1f := &ugo.CompiledFunction{NumParams: 1, NumLocals: 1, Variadic: true, Instructions: v1ins, SourceMap: map[int]int{0: 0, 1: 1, 7: 2}}
	v1f2 := *v1f
	v1bc := &ugo.Bytecode{Main: v1f, Constants: []ugo.Object{&v1f2, ugo.Int(5)}, NumModules: 1}
	seeds = append(seeds, c18seed{id: "h:v1jumps", kind: c18kBC, data: c18encBytecode(v1bc, 1), feats: []string{"v1"}, probe: true})

	// module-name constants: builtin module, source module, unknown module, non-string name
	for _, mn := range []struct {
		id string
		m  ugo.Map
	}{
		{"h:modconst-builtin", ugo.Map{ugo.AttrModuleName: ugo.String("modA"), "fn": &ugo.Function{Name: "fn"}, "val": ugo.Int(7)}},
		{"h:modconst-missingitem", ugo.Map{ugo.AttrModuleName: ugo.String("modA"), "nosuch": ugo.Int(7)}},
		{"h:modconst-typemismatch", ugo.Map{ugo.AttrModuleName: ugo.String("modA"), "val": ugo.String("7")}},
		{"h:modconst-source", ugo.Map{ugo.AttrModuleName: ugo.String("modB"), "fn": &ugo.Function{Name: "fn"}}},
		{"h:modconst-unknown", ugo.Map{ugo.AttrModuleName: ugo.String("nosuchmod"), "fn": &ugo.Function{Name: "fn"}}},
		{"h:modconst-nonstring", ugo.Map{ugo.AttrModuleName: ugo.Int(1), "fn": &ugo.Function{Name: "fn"}}},
	} {
		b := &ugo.Bytecode{Main: minimal.Main, Constants: []ugo.Object{mn.m}, NumModules: 1}
		seeds = append(seeds, c18seed{id: mn.id, kind: c18kBC, data: c18encBytecode(b, 2), feats: []string{"map", "function", "handmodule"}})
	}

	// single objects
	objs := c18objects()
	for _, o := range objs {
		seeds = append(seeds, c18seed{id: "o:" + o.name, kind: c18kObj, data: c18encObj(o.v), feats: o.feats, probe: len(c18encObj(o.v)) < 80})
	}
	// hand: every object in every top-level field slot (type-tag swaps between fields), v2 and v1
	for _, o := range objs {
		enc := c18encObj(o.v)
		if len(enc) > 120 {
			continue
		}
		for f := byte(0); f <= 4; f++ {
			for _, ver := range []uint16{2, 1} {
				d := append(c18header(ver), f)
				d = append(d, enc...)
				seeds = append(seeds, c18seed{id: fmt.Sprintf("x:field%d-v%d:%s", f, ver, o.name), kind: c18kBC, data: d, feats: []string{"fieldswap"}})
			}
		}
		// compiled function whose Instructions field holds this object
		body := append([]byte{2}, enc...)
		cf := append([]byte{12}, c18vi(int64(len(body)))...)
		cf = append(cf, body...)
		seeds = append(seeds, c18seed{id: "x:cfins:" + o.name, kind: c18kObj, data: cf, feats: []string{"fieldswap"}})
		// source file whose name is this object
		sf := append(append([]byte(nil), enc...), c18vi(1)...)
		sf = append(sf, c18vi(10)...)
		sf = append(sf, c18vi(1)...)
		sf = append(sf, c18vi(0)...)
		seeds = append(seeds, c18seed{id: "x:sfname:" + o.name, kind: c18kSF, data: sf, feats: []string{"fieldswap"}})
	}
	// source file (set) encodings
	if firstFS != nil {
		seeds = append(seeds, c18seed{id: "s:fileset", kind: c18kSFS, data: c18must((*encoder.SourceFileSet)(firstFS).MarshalBinary()), feats: []string{"sourcefileset"}, probe: true})
		for i, f := range firstFS.Files {
			seeds = append(seeds, c18seed{id: fmt.Sprintf("s:file%d", i), kind: c18kSF, data: c18must((*encoder.SourceFile)(f).MarshalBinary()), feats: []string{"sourcefile"}, probe: i == 0})
		}
	}
	seeds = append(seeds, c18seed{id: "s:fileset0", kind: c18kSFS, data: c18must((*encoder.SourceFileSet)(parser.NewFileSet()).MarshalBinary()), feats: []string{"sourcefileset"}})

	// amplification: many small containers each claiming a moderate element count
	{
		inner := append([]byte{9}, c18vi(int64(len(c18vi(4096))))...)
		inner = append(inner, c18vi(4096)...)
		var tmp []byte
		tmp = append(tmp, c18vi(400)...)
		for i := 0; i < 400; i++ {
			tmp = append(tmp, inner...)
		}
		d := append([]byte{9}, c18vi(int64(len(tmp)))...)
		d = append(d, tmp...)
		seeds = append(seeds, c18seed{id: "x:amplify-array", kind: c18kObj, data: d, feats: []string{"amplification"}})
		// compiled functions each claiming a 8192-pair source map
		body := append([]byte{5}, c18vi(16384)...)
		cf := append([]byte{12}, c18vi(int64(len(body)))...)
		cf = append(cf, body...)
		tmp = append([]byte(nil), c18vi(200)...)
		for i := 0; i < 200; i++ {
			tmp = append(tmp, cf...)
		}
		d = append([]byte{9}, c18vi(int64(len(tmp)))...)
		d = append(d, tmp...)
		seeds = append(seeds, c18seed{id: "x:amplify-sourcemap", kind: c18kObj, data: d, feats: []string{"amplification"}})
		// deep nesting (recursion depth), 4 KiB
		var nest []byte = []byte{9, 0}
		for len(nest) < 4000 {
			t := append(c18vi(1), nest...)
			n2 := append([]byte{9}, c18vi(int64(len(t)))...)
			nest = append(n2, t...)
		}
		seeds = append(seeds, c18seed{id: "x:deepnest", kind: c18kObj, data: nest, feats: []string{"deepnest"}})
		// nesting where every level claims as many elements as it has bytes left (the most the decoder accepts) while
		// holding a single nested array: the claimed capacity is reserved at every level
		{
			claim := []byte{9, 0}
			for len(claim) < 3000 {
				t := append(c18vi(int64(len(claim))), claim...)
				n2 := append([]byte{9}, c18vi(int64(len(t)))...)
				claim = append(n2, t...)
			}
			seeds = append(seeds, c18seed{id: "x:deepnest-claim", kind: c18kObj, data: claim, feats: []string{"deepnest"}})
		}
		// the same nesting continued to 32 KiB: every level copies the rest of the buffer, allocation grows with the
		// square of the input (known finding; only the unmutated input is decoded)
		for len(nest) < 32000 {
			t := append(c18vi(1), nest...)
			n2 := append([]byte{9}, c18vi(int64(len(t)))...)
			nest = append(n2, t...)
		}
		seeds = append(seeds, c18seed{id: "x:deepnest-32k", kind: c18kObj, data: nest, feats: []string{"deepnest"}})
	}
	// gob fallback values whose containers hold a nil element (gob accepts a nil interface inside a
	// slice or map): as a single object, as a source-file name, as a constant
	for _, gv := range []struct {
		name string
		v    ugo.Object
	}{
		{"array-nil", ugo.Array{nil}},
		{"array-nil-mid", ugo.Array{ugo.Int(1), nil, ugo.String("x")}},
		{"map-nil", ugo.Map{"a": nil}},
		{"syncmap-nil", &ugo.SyncMap{Value: ugo.Map{"a": nil}}},
		{"objptr-nil", &ugo.ObjectPtr{}},
		{"error-nilcause", &ugo.Error{Name: "e", Message: "m"}},
		{"nested-nil", ugo.Array{ugo.Map{"k": ugo.Array{nil}}}},
	} {
		var gb bytes.Buffer
		gb.WriteByte(0xff)
		v := gv.v
		if err := gob.NewEncoder(&gb).Encode(&v); err != nil {
			continue
		}
		enc := gb.Bytes()
		seeds = append(seeds, c18seed{id: "x:gobnil:" + gv.name, kind: c18kObj, data: append([]byte(nil), enc...), feats: []string{"gobfallback", "gobnil"}})
		sf := append(append([]byte(nil), enc...), c18vi(1)...)
		sf = append(sf, c18vi(10)...)
		sf = append(sf, c18vi(1)...)
		sf = append(sf, c18vi(0)...)
		seeds = append(seeds, c18seed{id: "x:gobnil-sfname:" + gv.name, kind: c18kSF, data: sf, feats: []string{"gobfallback", "gobnil"}})
		// the same object as the only element of the constants field (field 3) and of an array constant
		arr := append(c18vi(1), enc...)
		cs := append([]byte{9}, c18vi(int64(len(arr)))...)
		cs = append(cs, arr...)
		seeds = append(seeds, c18seed{id: "x:gobnil-consts:" + gv.name, kind: c18kBC, data: append(append(c18header(2), 3), cs...), feats: []string{"gobfallback", "gobnil"}})
	}
	// gob fallback: a 5-byte input whose gob message header claims 10 MiB - 1
	seeds = append(seeds, c18seed{id: "x:gob-claim", kind: c18kObj, data: []byte{0xff, 0xfd, 0x9f, 0xff, 0xff}, feats: []string{"gobfallback"}})
	// gob fallback: a stream the gob decoder accepts while leaving the object nil (found by havoc on o:gobtime)
	if gn, err := hex.DecodeString("ff171000000014ff86112e54696d65ff85060102ff880000000454696d6501ff8a00000014ff8611000f010000000edce5e80000000005ffff01010002011401020100"); err == nil {
		seeds = append(seeds, c18seed{id: "x:gob-nil-sfname", kind: c18kSF, data: gn, feats: []string{"gobfallback"}})
		seeds = append(seeds, c18seed{id: "x:gob-nil-field3", kind: c18kBC, data: append(append(c18header(2), 3), gn[:len(gn)-12]...), feats: []string{"gobfallback"}})
	}
	return seeds, nil
}

// ---------------------------------------------------------------------------
// random program generator (thorough tier, batch-local; reproducible from the
// sub-seed in the seed id "r:<subseed>")

type c18gen struct {
	r     *rand.Rand
	vars  []string
	nvar  int
	depth int
	feats map[string]bool
}

func (g *c18gen) lit() string {
	r := g.r
	switch r.Intn(9) {
	case 0:
		switch r.Intn(4) {
		case 0:
			return strconv.Itoa(r.Intn(200))
		case 1:
			return strconv.FormatInt(r.Int63n(1<<40), 10)
		case 2:
			return strconv.FormatInt(r.Int63(), 10)
		}
		return strconv.Itoa(60 + r.Intn(10))
	case 1:
		g.feats["uint"] = true
		return strconv.FormatUint(r.Uint64()>>uint(r.Intn(64)), 10) + "u"
	case 2:
		g.feats["float"] = true
		return strconv.FormatFloat(r.NormFloat64()*math.Pow(10, float64(r.Intn(40)-20)), 'g', -1, 64) + func() string {
			return ""
		}()
	case 3:
		g.feats["char"] = true
		return "'" + string(rune('a'+r.Intn(26))) + "'"
	case 4, 5:
		g.feats["string"] = true
		n := r.Intn(12)
		if r.Intn(8) == 0 {
			n = 60 + r.Intn(200)
		}
		b := make([]byte, n)
		for i := range b {
			b[i] = "abcdefghijklmnopqrstuvwxyz0123456789 _-"[r.Intn(39)]
		}
		return `"` + string(b) + `"`
	case 6:
		return []string{"true", "false", "undefined"}[r.Intn(3)]
	}
	g.feats["int"] = true
	return strconv.Itoa(r.Intn(1000) - 500)
}

func (g *c18gen) expr() string {
	r := g.r
	g.depth++
	defer func() { g.depth-- }()
	if g.depth > 4 {
		return g.lit()
	}
	switch r.Intn(12) {
	case 0:
		if len(g.vars) > 0 {
			return g.vars[r.Intn(len(g.vars))]
		}
	case 1:
		n := r.Intn(4)
		parts := make([]string, n)
		for i := range parts {
			parts[i] = g.expr()
		}
		return "[" + strings.Join(parts, ", ") + "]"
	case 2:
		n := r.Intn(3)
		parts := make([]string, n)
		for i := range parts {
			parts[i] = fmt.Sprintf("k%d: %s", i, g.expr())
		}
		return "{" + strings.Join(parts, ", ") + "}"
	case 3:
		// a variable on the left keeps the optimizer from folding (and rejecting) mixed-type literals
		left := strconv.Itoa(r.Intn(100))
		if len(g.vars) > 0 {
			left = g.vars[r.Intn(len(g.vars))]
		}
		return "(" + left + []string{" + ", " - ", " * ", " == ", " < "}[r.Intn(5)] + strconv.Itoa(r.Intn(1000)) + ")"
	case 4:
		g.feats["jumps"] = true
		return "(" + g.expr() + []string{" && ", " || "}[r.Intn(2)] + g.expr() + ")"
	case 5:
		g.feats["jumps"] = true
		return "(" + g.expr() + " ? " + g.expr() + " : " + g.expr() + ")"
	case 6, 7:
		return g.fn()
	case 8:
		return []string{"len", "string", "typeName", "isError"}[r.Intn(4)] + "(" + g.expr() + ")"
	}
	return g.lit()
}

func (g *c18gen) fn() string {
	r := g.r
	g.feats["compiledfunc"] = true
	saved := g.vars
	np := r.Intn(4)
	var ps []string
	for i := 0; i < np; i++ {
		g.nvar++
		p := fmt.Sprintf("p%d", g.nvar)
		g.vars = append(g.vars[:len(g.vars):len(g.vars)], p)
		if i == np-1 && r.Intn(3) == 0 {
			g.feats["variadic"] = true
			p = "..." + p
		}
		ps = append(ps, p)
	}
	if len(saved) > 0 {
		g.feats["closure"] = true
	}
	body := g.block(1 + r.Intn(3))
	g.vars = saved
	return "func(" + strings.Join(ps, ", ") + ") {\n" + body + "return " + g.lit() + "\n}"
}

func (g *c18gen) block(n int) string {
	r := g.r
	var b strings.Builder
	saved := g.vars
	g.depth++
	for i := 0; i < n; i++ {
		switch k := r.Intn(10); {
		case k < 4 || g.depth > 3:
			g.nvar++
			v := fmt.Sprintf("v%d", g.nvar)
			b.WriteString(v + " := " + g.expr() + "\n")
			g.vars = append(g.vars[:len(g.vars):len(g.vars)], v)
		case k == 4:
			g.feats["jumps"] = true
			b.WriteString("if (" + g.expr() + ") {\n" + g.block(1) + "} else {\n" + g.block(1) + "}\n")
		case k == 5:
			g.feats["jumps"] = true
			g.nvar++
			b.WriteString(fmt.Sprintf("for i%d := 0; i%d < %d; i%d++ {\n%s}\n", g.nvar, g.nvar, r.Intn(5), g.nvar, g.block(1)))
		case k == 6:
			g.feats["jumps"] = true
			g.nvar++
			b.WriteString(fmt.Sprintf("for k%d, e%d in (%s) {\n%s}\n", g.nvar, g.nvar, g.expr(), g.block(1)))
		case k == 7:
			g.feats["trycatch"] = true
			g.nvar++
			s := "try {\n" + g.block(1)
			if r.Intn(2) == 0 {
				s += "throw " + g.lit() + "\n"
			}
			s += fmt.Sprintf("} catch err%d {\n%s}", g.nvar, g.block(1))
			if r.Intn(2) == 0 {
				s += " finally {\n" + g.block(1) + "}"
			}
			b.WriteString(s + "\n")
		case k == 8 && g.depth == 1:
			mods := []string{"modA", "modB", "srcmod", "srcinner", "strings", "json"}
			m := mods[r.Intn(len(mods))]
			if m == "modA" || m == "strings" || m == "json" {
				g.feats["builtinmodule"] = true
			} else {
				g.feats["srcmodule"] = true
			}
			g.nvar++
			v := fmt.Sprintf("m%d", g.nvar)
			b.WriteString(v + ` := import("` + m + `")` + "\n")
			g.vars = append(g.vars[:len(g.vars):len(g.vars)], v)
		default:
			if len(g.vars) > 0 {
				b.WriteString(g.vars[r.Intn(len(g.vars))] + " = " + g.expr() + "\n")
			}
		}
	}
	g.depth--
	g.vars = saved
	return b.String()
}

// c18randomProgram returns source + features for a sub-seed.
func c18randomProgram(sub int64) (string, []string) {
	g := &c18gen{r: rand.New(rand.NewSource(sub)), feats: map[string]bool{}}
	var b strings.Builder
	if g.r.Intn(4) == 0 {
		b.WriteString("param (a0, ...a1)\n")
		g.vars = append(g.vars, "a0", "a1")
		g.feats["variadic"] = true
	}
	n := 2 + g.r.Intn(6)
	// top-level block keeps its variables
	for i := 0; i < n; i++ {
		g.nvar++
		v := fmt.Sprintf("t%d", g.nvar)
		b.WriteString(v + " := " + g.expr() + "\n")
		g.vars = append(g.vars, v)
		if g.r.Intn(2) == 0 {
			b.WriteString(g.block(1))
		}
	}
	b.WriteString("return " + g.expr() + "\n")
	var feats []string
	for f := range g.feats {
		feats = append(feats, f)
	}
	return b.String(), feats
}

// c18randomSeeds builds the seeds of random program `sub` ("r:<sub>").
func c18randomSeeds(sub int64) ([]c18seed, error) {
	src, feats := c18randomProgram(sub)
	bc, err := c18compile(src)
	if err != nil {
		return nil, err
	}
	return c18bcSeeds("r:"+strconv.FormatInt(sub, 10), bc, feats, false, sub%3 == 0)
}
