package props

import (
	"errors"
	"fmt"
	"math"
	"strconv"
	"strings"

	"github.com/ozanh/ugo"
	"github.com/ozanh/ugo/token"

	"verif/internal/canon"
	"verif/internal/core"
)

// C15 — operators obey their algebraic laws and the documented numeric semantics.
type c15 struct{}

func init() { core.Register(c15{}) }

func (c15) ID() string    { return "C15" }
func (c15) Level() string { return "exploration" }
func (c15) Race() bool    { return false }
func (c15) Rule() string {
	return "every ordered pair from a ~75-value boundary pool (all built-in types) x every binary operator and == != (exhaustive), plus unary operators; " +
		"thorough adds seeded random 64-bit operands per numeric kind pair. Each pair is evaluated on two routes (Object.BinaryOp/Equal called directly; " +
		"`param (a,b); return a OP b` on a VM without recovery). Oracles: symmetry of ==, != is negation, trichotomy and <=,> consistency where all eight relational results are defined, " +
		"no Go panic on either route, independent evaluator for arithmetic/bitwise/shift on int/uint/float/char/bool per docs/operators.md, routes agree. " +
		"non-trivial = operands of different kinds or containing a boundary value; distinct by (a,b) rendering"
}
func (c15) Batches(tier string) int {
	if tier == "thorough" {
		return 32
	}
	return 16
}
func (c15) Required(string) []string {
	return []string{"pairs", "law_checks", "numeric_value_checks", "script_route", "literal_route", "zero_division_seen", "type_error_seen"}
}
func (c15) Assumptions() []string {
	return []string{"the 60-line documented-conversion evaluator in c15.go (trusted)", "Go's own integer/float arithmetic", "parser/compiler turn `return a OP b` into the operator instruction (also covered by C02)"}
}

type c15val struct {
	v    ugo.Object
	src  string // label
	edge bool
}

func c15pool() []c15val {
	var p []c15val
	add := func(v ugo.Object, edge bool) {
		p = append(p, c15val{v, v.TypeName() + ":" + canon.Value(v), edge})
	}
	for _, i := range []int64{0, 1, -1, 2, 3, 63, 64, 65, -64, 1 << 31, -(1 << 31), 1 << 32, 1<<53 + 1, -(1<<53 + 1), math.MaxInt64, math.MinInt64, math.MinInt64 + 1} {
		add(ugo.Int(i), i != 2 && i != 3)
	}
	for _, u := range []uint64{0, 1, 2, 63, 64, 1 << 63, math.MaxUint64} {
		add(ugo.Uint(u), u != 2)
	}
	for _, f := range []float64{0, math.Copysign(0, -1), 1, -1, 0.5, 1 << 53, 1 << 63, 18446744073709551616.0, math.MaxFloat64, -math.MaxFloat64, math.SmallestNonzeroFloat64, math.Inf(1), math.Inf(-1), math.NaN()} {
		add(ugo.Float(f), f != 0.5)
	}
	for _, c := range []int32{0, 1, 'a', 0x7f, 0x80, 0xD800, 0x10FFFF, -1, 31, 32, math.MinInt32, math.MaxInt32} {
		add(ugo.Char(c), c != 'a')
	}
	add(ugo.True, true)
	add(ugo.False, true)
	for _, s := range []string{"", "a", "b", "ab", "\xff", "1"} {
		add(ugo.String(s), s == "" || s == "\xff")
	}
	for _, s := range []string{"", "a", "b", "ab", "\xff"} {
		add(ugo.Bytes(s), s == "" || s == "\xff")
	}
	add(ugo.Array{}, true)
	add(ugo.Array{ugo.Int(1)}, false)
	add(ugo.Array{ugo.Uint(1)}, false)
	add(ugo.Array{ugo.Float(1)}, false)
	add(ugo.Array{ugo.True}, false)
	add(ugo.Array{ugo.Char(1)}, false)
	add(ugo.Array{ugo.Array{ugo.Int(1)}, ugo.Map{"a": ugo.Float(1)}}, false)
	add(ugo.Array{ugo.Array{ugo.True}, ugo.Map{"a": ugo.Int(1)}}, false)
	add(ugo.Map{}, true)
	add(ugo.Map{"a": ugo.Int(1)}, false)
	add(ugo.Map{"a": ugo.Float(1)}, false)
	add(ugo.Map{"a": ugo.True}, false)
	add(ugo.Map{"a": ugo.Char(1)}, false)
	add(ugo.Map{"a": ugo.Map{"b": ugo.Uint(1)}}, false)
	// containers of equal length with different key sets / undefined members / different element order
	add(ugo.Map{"x": ugo.Undefined, "y": ugo.Int(1)}, false)
	add(ugo.Map{"y": ugo.Int(1), "z": ugo.Int(2)}, false)
	add(ugo.Map{"x": ugo.Undefined}, false)
	add(ugo.Map{"z": ugo.Undefined}, false)
	add(ugo.Map{"b": ugo.Int(1)}, false)
	add(ugo.Array{ugo.Undefined}, false)
	add(ugo.Array{ugo.Int(1), ugo.Int(2)}, false)
	add(ugo.Array{ugo.Int(2), ugo.Int(1)}, false)
	add(ugo.Array{ugo.Map{"x": ugo.Undefined, "y": ugo.Int(1)}}, false)
	add(ugo.Array{ugo.Map{"y": ugo.Int(1), "z": ugo.Int(2)}}, false)
	add(&ugo.SyncMap{Value: ugo.Map{"x": ugo.Undefined, "y": ugo.Int(1)}}, false)
	add(&ugo.SyncMap{Value: ugo.Map{"y": ugo.Int(1), "z": ugo.Int(2)}}, false)
	add(&ugo.SyncMap{Value: ugo.Map{}}, false)
	add(ugo.Undefined, true)
	add(&ugo.Error{Name: "E", Message: "m"}, false)
	add(&ugo.Error{Name: "E", Message: "other"}, false)
	add(&ugo.Error{Name: "F", Message: "m"}, false)
	add(&ugo.SyncMap{Value: ugo.Map{"a": ugo.Int(1)}}, false)
	add(&ugo.Function{Name: "f", Value: func(...ugo.Object) (ugo.Object, error) { return ugo.Undefined, nil }}, false)
	add(ugo.BuiltinObjects[ugo.BuiltinLen], false)
	return p
}

var c15binops = []token.Token{token.Add, token.Sub, token.Mul, token.Quo, token.Rem, token.And, token.Or, token.Xor,
	token.AndNot, token.Shl, token.Shr, token.Less, token.LessEq, token.Greater, token.GreaterEq}
var c15rel = []token.Token{token.Less, token.LessEq, token.Greater, token.GreaterEq}
var c15unops = []token.Token{token.Add, token.Sub, token.Xor, token.Not}

type c15res struct {
	val      ugo.Object
	errName  string
	errMsg   string
	panicked string
}

func (r c15res) key() string {
	if r.panicked != "" {
		return "panic"
	}
	if r.errName != "" {
		return "err:" + r.errName
	}
	return "v:" + canon.Value(r.val)
}

// c15lit renders a scalar as a source literal (false: no literal form, e.g. NaN, control characters).
func c15lit(o ugo.Object) (string, bool) {
	switch v := o.(type) {
	case ugo.Int:
		if v < 0 {
			if v == math.MinInt64 {
				return "", false
			}
			return "(-" + strconv.FormatInt(-int64(v), 10) + ")", true
		}
		return strconv.FormatInt(int64(v), 10), true
	case ugo.Uint:
		return strconv.FormatUint(uint64(v), 10) + "u", true
	case ugo.Float:
		f := float64(v)
		if math.IsNaN(f) || math.IsInf(f, 0) || (f == 0 && math.Signbit(f)) {
			return "", false
		}
		s := strconv.FormatFloat(math.Abs(f), 'e', -1, 64)
		if f < 0 {
			return "(-" + s + ")", true
		}
		return s, true
	case ugo.Char:
		if v >= 'a' && v <= 'z' || v >= '0' && v <= '9' || v >= 'A' && v <= 'Z' {
			return "'" + string(rune(v)) + "'", true
		}
		return "", false
	case ugo.Bool:
		if v {
			return "true", true
		}
		return "false", true
	}
	return "", false
}

// c15literalScript compiles (default options) and runs src; an optimizer refusal counts as the error it reports.
func c15literalScript(src string) (r c15res) {
	defer func() {
		if p := recover(); p != nil {
			r = c15res{panicked: fmt.Sprint(p)}
		}
	}()
	bc, err := ugo.Compile([]byte(src), ugo.CompilerOptions{})
	if err != nil {
		msg := err.Error()
		for _, n := range []string{"ZeroDivisionError", "TypeError", "InvalidOperatorError"} {
			if strings.Contains(msg, n) {
				return c15res{errName: n}
			}
		}
		return c15res{errName: "compile: " + msg}
	}
	v, err := ugo.NewVM(bc).Run(nil)
	if err != nil {
		if errors.Is(err, ugo.ErrInvalidOperator) {
			return c15res{errName: "InvalidOperatorError"}
		}
		n, m := canon.ErrParts(err)
		return c15res{errName: n, errMsg: m}
	}
	return c15res{val: v}
}

func c15direct(a ugo.Object, tok token.Token, b ugo.Object) (r c15res) {
	defer func() {
		if p := recover(); p != nil {
			r = c15res{panicked: fmt.Sprint(p)}
		}
	}()
	v, err := a.BinaryOp(tok, b)
	if err != nil {
		if err == ugo.ErrInvalidOperator {
			return c15res{errName: "InvalidOperatorError"}
		}
		n, m := canon.ErrParts(err)
		return c15res{errName: n, errMsg: m}
	}
	if v == nil {
		return c15res{panicked: "nil object with nil error"}
	}
	return c15res{val: v}
}

func c15equal(a, b ugo.Object) (eq bool, panicked string) {
	defer func() {
		if p := recover(); p != nil {
			panicked = fmt.Sprint(p)
		}
	}()
	return a.Equal(b), ""
}

type c15scripts struct {
	bin map[token.Token]*ugo.Bytecode
	eq  *ugo.Bytecode
	ne  *ugo.Bytecode
	un  map[token.Token]*ugo.Bytecode
}

func c15compile() (*c15scripts, error) {
	s := &c15scripts{bin: map[token.Token]*ugo.Bytecode{}, un: map[token.Token]*ugo.Bytecode{}}
	mk := func(src string) (*ugo.Bytecode, error) {
		return ugo.Compile([]byte(src), ugo.CompilerOptions{})
	}
	var err error
	for _, t := range c15binops {
		if s.bin[t], err = mk("param (a, b); return a " + t.String() + " b"); err != nil {
			return nil, err
		}
	}
	if s.eq, err = mk("param (a, b); return a == b"); err != nil {
		return nil, err
	}
	if s.ne, err = mk("param (a, b); return a != b"); err != nil {
		return nil, err
	}
	for _, t := range c15unops {
		if s.un[t], err = mk("param a; return " + t.String() + "a"); err != nil {
			return nil, err
		}
	}
	return s, nil
}

func c15script(bc *ugo.Bytecode, args ...ugo.Object) (r c15res) {
	defer func() {
		if p := recover(); p != nil {
			r = c15res{panicked: fmt.Sprint(p)}
		}
	}()
	v, err := ugo.NewVM(bc).Run(nil, args...)
	if err != nil {
		n, m := canon.ErrParts(err)
		return c15res{errName: n, errMsg: m}
	}
	return c15res{val: v}
}

// ---- independent evaluator (docs/operators.md) ----

type nkind int

const (
	kNone nkind = iota
	kInt
	kUint
	kFloat
	kChar
	kBool
)

// c15multiKeyMap: v holds (at any depth) a map with two or more keys, whose textual rendering is order dependent.
func c15multiKeyMap(v ugo.Object) bool {
	switch o := v.(type) {
	case ugo.Map:
		if len(o) >= 2 {
			return true
		}
		for _, e := range o {
			if c15multiKeyMap(e) {
				return true
			}
		}
	case *ugo.SyncMap:
		return c15multiKeyMap(o.Value)
	case ugo.Array:
		for _, e := range o {
			if c15multiKeyMap(e) {
				return true
			}
		}
	}
	return false
}

func c15kind(v ugo.Object) nkind {
	switch v.(type) {
	case ugo.Int:
		return kInt
	case ugo.Uint:
		return kUint
	case ugo.Float:
		return kFloat
	case ugo.Char:
		return kChar
	case ugo.Bool:
		return kBool
	}
	return kNone
}

func toI(v ugo.Object) int64 {
	switch o := v.(type) {
	case ugo.Int:
		return int64(o)
	case ugo.Uint:
		return int64(o)
	case ugo.Char:
		return int64(o)
	case ugo.Bool:
		if o {
			return 1
		}
	}
	return 0
}
func toF(v ugo.Object) float64 {
	switch o := v.(type) {
	case ugo.Int:
		return float64(o)
	case ugo.Uint:
		return float64(o)
	case ugo.Float:
		return float64(o)
	case ugo.Bool:
		if o {
			return 1
		}
	}
	return 0
}

// c15expect returns (expected, errName, strict). expected==nil && errName=="" means "no opinion".
// strict=false: an implementation TypeError is tolerated (document ambiguous for the cell).
func c15expect(a ugo.Object, tok token.Token, b ugo.Object) (ugo.Object, string, bool) {
	ka, kb := c15kind(a), c15kind(b)
	if ka == kNone || kb == kNone {
		return nil, "", false
	}
	switch tok {
	case token.Less, token.LessEq, token.Greater, token.GreaterEq:
		return nil, "", false
	}
	strict := true
	// bool is untyped 1/0: adopts the other operand's kind; bool-bool is int
	if ka == kBool && kb == kBool {
		ka, kb = kInt, kInt
	} else if ka == kBool {
		ka = kb
		if kb == kChar {
			strict = false
		}
	} else if kb == kBool {
		kb = ka
		if ka == kChar {
			strict = false
		}
	}
	var k nkind
	switch {
	case ka == kFloat || kb == kFloat:
		if ka == kChar || kb == kChar {
			return nil, "TypeError", true
		}
		k = kFloat
	case ka == kChar || kb == kChar:
		k = kChar
		if ka != kb { // char with int/uint: only + and -
			if tok != token.Add && tok != token.Sub {
				return nil, "TypeError", true
			}
		} else if tok == token.And {
			return nil, "", false // document omits '&' for char/char
		}
	case ka == kUint || kb == kUint:
		k = kUint
	default:
		k = kInt
	}
	switch k {
	case kFloat:
		x, y := toF(a), toF(b)
		switch tok {
		case token.Add:
			return ugo.Float(x + y), "", strict
		case token.Sub:
			return ugo.Float(x - y), "", strict
		case token.Mul:
			return ugo.Float(x * y), "", strict
		case token.Quo:
			if y == 0 {
				return nil, "ZeroDivisionError", strict
			}
			return ugo.Float(x / y), "", strict
		}
		return nil, "TypeError", true
	case kInt:
		x, y := toI(a), toI(b)
		switch tok {
		case token.Add:
			return ugo.Int(x + y), "", strict
		case token.Sub:
			return ugo.Int(x - y), "", strict
		case token.Mul:
			return ugo.Int(x * y), "", strict
		case token.Quo:
			if y == 0 {
				return nil, "ZeroDivisionError", strict
			}
			return ugo.Int(x / y), "", strict
		case token.Rem:
			if y == 0 {
				return nil, "ZeroDivisionError", strict
			}
			return ugo.Int(x % y), "", strict
		case token.And:
			return ugo.Int(x & y), "", strict
		case token.Or:
			return ugo.Int(x | y), "", strict
		case token.Xor:
			return ugo.Int(x ^ y), "", strict
		case token.AndNot:
			return ugo.Int(x &^ y), "", strict
		case token.Shl:
			if y < 0 {
				return nil, "anyerror", strict
			}
			return ugo.Int(x << uint64(y)), "", strict
		case token.Shr:
			if y < 0 {
				return nil, "anyerror", strict
			}
			return ugo.Int(x >> uint64(y)), "", strict
		}
	case kUint:
		x, y := uint64(toI(a)), uint64(toI(b))
		switch tok {
		case token.Add:
			return ugo.Uint(x + y), "", strict
		case token.Sub:
			return ugo.Uint(x - y), "", strict
		case token.Mul:
			return ugo.Uint(x * y), "", strict
		case token.Quo:
			if y == 0 {
				return nil, "ZeroDivisionError", strict
			}
			return ugo.Uint(x / y), "", strict
		case token.Rem:
			if y == 0 {
				return nil, "ZeroDivisionError", strict
			}
			return ugo.Uint(x % y), "", strict
		case token.And:
			return ugo.Uint(x & y), "", strict
		case token.Or:
			return ugo.Uint(x | y), "", strict
		case token.Xor:
			return ugo.Uint(x ^ y), "", strict
		case token.AndNot:
			return ugo.Uint(x &^ y), "", strict
		case token.Shl:
			return ugo.Uint(x << y), "", strict
		case token.Shr:
			return ugo.Uint(x >> y), "", strict
		}
	case kChar:
		x, y := int32(toI(a)), int32(toI(b))
		switch tok {
		case token.Add:
			return ugo.Char(x + y), "", strict
		case token.Sub:
			return ugo.Char(x - y), "", strict
		case token.Mul:
			return ugo.Char(x * y), "", strict
		case token.Quo:
			if y == 0 {
				return nil, "ZeroDivisionError", strict
			}
			return ugo.Char(x / y), "", strict
		case token.Rem:
			if y == 0 {
				return nil, "ZeroDivisionError", strict
			}
			return ugo.Char(x % y), "", strict
		case token.Or:
			return ugo.Char(x | y), "", strict
		case token.Xor:
			return ugo.Char(x ^ y), "", strict
		case token.AndNot:
			return ugo.Char(x &^ y), "", strict
		case token.Shl:
			if y < 0 {
				return nil, "anyerror", strict
			}
			return ugo.Char(x << uint32(y)), "", strict
		case token.Shr:
			if y < 0 {
				return nil, "anyerror", strict
			}
			return ugo.Char(x >> uint32(y)), "", strict
		}
	}
	return nil, "", false
}

func c15unaryExpect(tok token.Token, a ugo.Object) (ugo.Object, bool) {
	switch o := a.(type) {
	case ugo.Int:
		switch tok {
		case token.Add:
			return o, true
		case token.Sub:
			return -o, true
		case token.Xor:
			return ^o, true
		}
	case ugo.Uint:
		switch tok {
		case token.Add:
			return o, true
		case token.Sub:
			return -o, true
		case token.Xor:
			return ^o, true
		}
	case ugo.Float:
		switch tok {
		case token.Add:
			return o, true
		case token.Sub:
			return -o, true
		}
	// (char: the documents do not fix the result type of a unary char operation (+c is a char, -c and ^c are ints in the
	// implementation); only the numeric value is judged, by the unary-vs-binary definition law in checkUnary)
	case ugo.Bool:
		i := ugo.Int(0)
		if o {
			i = 1
		}
		switch tok {
		case token.Add:
			return i, true
		case token.Sub:
			return -i, true
		case token.Xor:
			return ^i, true
		}
	}
	return nil, false
}

type c15wit struct {
	A, B  string
	Op    string
	Route string
	Got   string
	Want  string
}

func tname(v ugo.Object) string { return v.TypeName() }

func isNaN(v ugo.Object) bool {
	f, ok := v.(ugo.Float)
	return ok && math.IsNaN(float64(f))
}

func c15zeroClass(b ugo.Object) string {
	switch o := b.(type) {
	case ugo.Int:
		if o == 0 {
			return "zero"
		}
		if o < 0 {
			return "neg"
		}
	case ugo.Uint:
		if o == 0 {
			return "zero"
		}
	case ugo.Char:
		if o == 0 {
			return "zero"
		}
		if o < 0 {
			return "neg"
		}
	case ugo.Bool:
		if !o {
			return "zero"
		}
	case ugo.Float:
		if o == 0 {
			return "zero"
		}
	}
	return "other"
}

func (c15) checkPair(c *core.Ctx, sc *c15scripts, a, b c15val) {
	A, B := a.v, b.v
	wit := func(op, route, got, want string) c15wit {
		return c15wit{a.src, b.src, op, route, got, want}
	}
	c.Count("pairs")
	if tname(A) != tname(B) || a.edge || b.edge {
		c.Nontrivial(a.src + "|" + b.src)
	}
	// --- equality laws
	eab, p1 := c15equal(A, B)
	eba, p2 := c15equal(B, A)
	if p1 != "" || p2 != "" {
		c.Violation("C15|panic|Equal|"+tname(A)+"|"+tname(B), "Equal panics", wit("==", "direct", p1+p2, "bool"))
	} else {
		c.Count("law_checks")
		if eab != eba {
			c.Violation("C15|eqsym|"+sortedPair(tname(A), tname(B)), fmt.Sprintf("a==b is %v but b==a is %v", eab, eba), wit("==", "direct", fmt.Sprint(eab), fmt.Sprint(eba)))
		}
		seq := c15script(sc.eq, A, B)
		sne := c15script(sc.ne, A, B)
		c.CountN("script_route", 2)
		if seq.key() != "v:"+canon.Value(ugo.Bool(eab)) {
			c.Violation("C15|route|==|"+tname(A)+"|"+tname(B), "script a==b differs from Equal", wit("==", "script", seq.key(), fmt.Sprint(eab)))
		}
		if sne.key() != "v:"+canon.Value(ugo.Bool(!eab)) {
			c.Violation("C15|neq|"+tname(A)+"|"+tname(B), "a!=b is not the negation of a==b", wit("!=", "script", sne.key(), fmt.Sprint(!eab)))
		}
	}
	// --- binary operators on both routes
	rel := map[token.Token]c15res{}
	for _, tok := range c15binops {
		d := c15direct(A, tok, B)
		s := c15script(sc.bin[tok], A, B)
		c.Eval(2)
		c.Count("script_route")
		if d.panicked != "" {
			c.Violation("C15|panic|"+tname(A)+"|"+tok.String()+"|"+tname(B)+":"+c15zeroClass(B), "BinaryOp panics: "+core.NormMsg(d.panicked), wit(tok.String(), "direct", d.panicked, "value or error"))
		}
		if s.panicked != "" && d.panicked == "" {
			c.Violation("C15|panic-script|"+tname(A)+"|"+tok.String()+"|"+tname(B), "operator panics in VM: "+core.NormMsg(s.panicked), wit(tok.String(), "script", s.panicked, "value or error"))
		}
		if tok == token.Add && (c15multiKeyMap(A) || c15multiKeyMap(B)) {
			// string/bytes + container renders a map in Go's (random) iteration order: two evaluations need not agree
			c.Count("map_rendering_order_not_compared")
		} else if d.panicked == "" && s.panicked == "" && d.key() != s.key() {
			c.Violation("C15|route|"+tok.String()+"|"+tname(A)+"|"+tname(B), "direct BinaryOp and script disagree", wit(tok.String(), "both", s.key(), d.key()))
		}
		// third route: both operands written as literals in a script, default compiler options (the expression is folded
		// at compile time by the optimizer's literal tables or its evaluator; a refusal reports the run-time error)
		if la, oka := c15lit(A); oka && d.panicked == "" {
			if lb, okb := c15lit(B); okb {
				for _, src := range []string{"return " + la + " " + tok.String() + " " + lb, "x := (" + la + ") " + tok.String() + " (" + lb + ")\nreturn x"} {
					l := c15literalScript(src)
					c.Count("literal_route")
					switch {
					case l.panicked != "":
						c.Violation("C15|panic-literal|"+tname(A)+"|"+tok.String()+"|"+tname(B), "operator on literals panics: "+core.NormMsg(l.panicked), wit(tok.String(), "literal script: "+src, l.panicked, "value or error"))
					case l.key() != d.key():
						c.Violation("C15|route-literal|"+tok.String()+"|"+tname(A)+"|"+tname(B), "the operator applied to literals (compile-time folding) disagrees with BinaryOp", wit(tok.String(), "literal script: "+src, l.key(), d.key()))
					}
				}
			}
		}
		switch d.errName {
		case "ZeroDivisionError":
			c.Count("zero_division_seen")
		case "TypeError":
			c.Count("type_error_seen")
		}
		switch tok {
		case token.Less, token.LessEq, token.Greater, token.GreaterEq:
			rel[tok] = d
			continue
		}
		want, wantErr, strict := c15expect(A, tok, B)
		if want == nil && wantErr == "" {
			continue
		}
		c.Count("numeric_value_checks")
		if d.panicked != "" {
			continue // already reported
		}
		fpBase := "C15|numeric|" + tname(A) + "|" + tok.String() + "|" + tname(B)
		switch {
		case want != nil:
			if d.errName != "" {
				if d.errName == "TypeError" && !strict {
					continue
				}
				c.Violation(fpBase+"|err:"+d.errName, "documented conversion defines a value but the operator raises "+d.errName, wit(tok.String(), "direct", d.key(), canon.Value(want)))
			} else if canon.Value(d.val) != canon.Value(want) {
				c.Violation(fpBase+"|value", "result differs from the Go operation after documented conversion", wit(tok.String(), "direct", d.key(), canon.Value(want)))
			}
		case wantErr == "anyerror":
			if d.errName == "" {
				c.Violation(fpBase+"|noerr", "undefined operation returned a value", wit(tok.String(), "direct", d.key(), "error"))
			}
		default:
			if d.errName != wantErr {
				if !strict && (d.errName == "" || d.errName == "TypeError") {
					continue
				}
				if wantErr == "TypeError" && d.errName == "" && (c15kind(A) == kBool || c15kind(B) == kBool) {
					continue
				}
				c.Violation(fpBase+"|wanterr:"+wantErr, "expected "+wantErr+" got "+d.key(), wit(tok.String(), "direct", d.key(), wantErr))
			}
		}
	}
	// --- NaN: every ordering comparison with a NaN operand is false in Go ("returns the result of the corresponding Go
	// operation"), for float and for int / uint / bool operands converted to float
	if (isNaN(A) || isNaN(B)) && c15kind(A) != kNone && c15kind(B) != kNone && c15kind(A) != kChar && c15kind(B) != kChar {
		for _, tok := range c15rel {
			r := rel[tok]
			if r.panicked != "" || r.errName != "" {
				continue
			}
			c.Count("nan_order_checks")
			if x, _ := r.val.(ugo.Bool); bool(x) {
				c.Violation("C15|nan-order|"+tok.String()+"|"+tname(A)+"|"+tname(B), "an ordering comparison with NaN is true", wit(tok.String(), "direct", r.key(), "false"))
			}
			if s := c15script(sc.bin[tok], A, B); s.panicked == "" && s.errName == "" {
				if x, _ := s.val.(ugo.Bool); bool(x) {
					c.Violation("C15|nan-order|"+tok.String()+"|"+tname(A)+"|"+tname(B), "an ordering comparison with NaN is true (script)", wit(tok.String(), "script", s.key(), "false"))
				}
			}
		}
	}
	// --- ordering laws (only when all eight results are defined, NaN aside)
	if isNaN(A) || isNaN(B) || p1 != "" || p2 != "" {
		return
	}
	all := true
	relBA := map[token.Token]c15res{}
	for _, tok := range c15rel {
		r := rel[tok]
		if r.panicked != "" || r.errName != "" {
			all = false
			break
		}
		r2 := c15direct(B, tok, A)
		if r2.panicked != "" || r2.errName != "" {
			all = false
			break
		}
		relBA[tok] = r2
	}
	if !all {
		return
	}
	c.Count("law_checks")
	c.Count("ordering_law_pairs")
	bv := func(r c15res) bool { x, _ := r.val.(ugo.Bool); return bool(x) }
	lt, le, gt, ge := bv(rel[token.Less]), bv(rel[token.LessEq]), bv(rel[token.Greater]), bv(rel[token.GreaterEq])
	n := 0
	for _, x := range []bool{lt, eab, gt} {
		if x {
			n++
		}
	}
	pairfp := tname(A) + "|" + tname(B)
	state := fmt.Sprintf("lt=%v eq=%v gt=%v le=%v ge=%v", lt, eab, gt, le, ge)
	if n != 1 {
		c.Violation("C15|trichotomy|"+pairfp, "not exactly one of a<b, a==b, a>b: "+state, wit("<,==,>", "direct", state, "exactly one"))
	}
	if le != (lt || eab) {
		c.Violation("C15|le|"+pairfp, "a<=b differs from a<b||a==b: "+state, wit("<=", "direct", state, ""))
	}
	if ge != (gt || eab) {
		c.Violation("C15|ge|"+pairfp, "a>=b differs from a>b||a==b: "+state, wit(">=", "direct", state, ""))
	}
	if lt != bv(relBA[token.Greater]) {
		c.Violation("C15|ltgt|"+pairfp, "a<b differs from b>a", wit("<", "direct", state, ""))
	}
	if gt != bv(relBA[token.Less]) {
		c.Violation("C15|ltgt|"+pairfp, "a>b differs from b<a", wit(">", "direct", state, ""))
	}
}

func sortedPair(a, b string) string {
	if a > b {
		a, b = b, a
	}
	return a + "|" + b
}

func (c15) checkUnary(c *core.Ctx, sc *c15scripts, a c15val) {
	for _, tok := range c15unops {
		r := c15script(sc.un[tok], a.v)
		c.Eval(1)
		c.Count("unary")
		if r.panicked != "" {
			c.Violation("C15|panic-unary|"+tok.String()+"|"+tname(a.v), "unary operator panics", c15wit{A: a.src, Op: tok.String(), Route: "script", Got: r.panicked})
			continue
		}
		if tok == token.Not {
			if r.key() != "v:"+canon.Value(ugo.Bool(a.v.IsFalsy())) {
				c.Violation("C15|not|"+tname(a.v), "!a is not IsFalsy", c15wit{A: a.src, Op: "!", Route: "script", Got: r.key()})
			}
			continue
		}
		// documented definition: +x is 0 + x, -x is 0 - x, ^x is m ^ x (m = -1): the unary result has the numeric value
		// of the corresponding binary operation on the same operand (the result TYPE of a unary char operation is int)
		if k := c15kind(a.v); k != kNone && r.errName == "" && r.val != nil {
			var b c15res
			switch tok {
			case token.Add, token.Sub:
				b = c15direct(ugo.Int(0), tok, a.v)
			case token.Xor:
				b = c15direct(ugo.Int(-1), tok, a.v)
			}
			if b.val != nil && b.errName == "" && b.panicked == "" {
				c.Count("unary_vs_binary_definition")
				same := toI(r.val) == toI(b.val)
				if k == kFloat {
					fa, fb := float64(r.val.(ugo.Float)), toF(b.val)
					same = fa == fb || (fa != fa && fb != fb)
				}
				if !same {
					c.Violation("C15|unary-definition|"+tok.String()+"|"+tname(a.v), "unary "+tok.String()+"x differs numerically from its documented binary definition", c15wit{A: a.src, Op: tok.String(), Route: "script", Got: r.key(), Want: b.key()})
					continue
				}
			}
		}
		if want, ok := c15unaryExpect(tok, a.v); ok {
			c.Count("numeric_value_checks")
			if r.key() != "v:"+canon.Value(want) {
				c.Violation("C15|unary|"+tok.String()+"|"+tname(a.v), "unary result differs from Go operation", c15wit{A: a.src, Op: tok.String(), Route: "script", Got: r.key(), Want: canon.Value(want)})
			}
		} else if c15kind(a.v) == kNone && r.errName != "TypeError" {
			c.Violation("C15|unary-type|"+tok.String()+"|"+tname(a.v), "unary on unsupported type did not raise TypeError: "+r.key(), c15wit{A: a.src, Op: tok.String(), Route: "script", Got: r.key(), Want: "TypeError"})
		}
	}
}

func c15random(c *core.Ctx, k nkind) c15val {
	r := c.Rng
	var bits uint64
	switch r.Intn(4) {
	case 0:
		bits = r.Uint64()
	case 1:
		bits = uint64(r.Intn(130)) // small, shift-count sized
	case 2:
		bits = uint64(-int64(r.Intn(130)))
	default:
		bits = uint64(1)<<uint(r.Intn(64)) + uint64(r.Intn(3)) - 1
	}
	var v ugo.Object
	switch k {
	case kInt:
		v = ugo.Int(int64(bits))
	case kUint:
		v = ugo.Uint(bits)
	case kFloat:
		if r.Intn(2) == 0 {
			v = ugo.Float(math.Float64frombits(bits))
		} else {
			v = ugo.Float(float64(int64(bits)) / float64(1+r.Intn(7)))
		}
	case kChar:
		v = ugo.Char(int32(bits))
	default:
		v = ugo.Bool(bits&1 == 1)
	}
	return c15val{v, v.TypeName() + ":" + canon.Value(v), true}
}

func (m c15) Run(c *core.Ctx) {
	sc, err := c15compile()
	if err != nil {
		c.Violation("C15|harness-compile", "operator scripts do not compile: "+err.Error(), nil)
		return
	}
	pool := c15pool()
	if c.Replay != nil {
		// replay: run the whole pool (cheap) — the witness names the pair
		for _, a := range pool {
			for _, b := range pool {
				m.checkPair(c, sc, a, b)
			}
		}
		return
	}
	idx := 0
	for _, a := range pool {
		for _, b := range pool {
			idx++
			if idx%c.NBatch != c.Batch {
				continue
			}
			a, b := a, b
			if !c.Begin(func() string { return a.src + " , " + b.src }) {
				continue
			}
			m.checkPair(c, sc, a, b)
			if idx%97 == 0 {
				c.Sample(map[string]string{"a": a.src, "b": b.src, "ops": "all binary, ==, !="})
			}
		}
	}
	for i, a := range pool {
		if i%c.NBatch != c.Batch {
			continue
		}
		a := a
		if !c.Begin(func() string { return "unary " + a.src }) {
			continue
		}
		m.checkUnary(c, sc, a)
	}
	if c.Thorough() {
		kinds := []nkind{kInt, kUint, kFloat, kChar, kBool}
		n := 60000
		for i := 0; i < n; i++ {
			a := c15random(c, kinds[c.Rng.Intn(5)])
			b := c15random(c, kinds[c.Rng.Intn(5)])
			if !c.Begin(func() string { return "rand " + a.src + " , " + b.src }) {
				continue
			}
			m.checkPair(c, sc, a, b)
			c.Count("random_pairs")
		}
	}
	_ = strings.Join
}
