package props

import (
	"encoding/hex"
	stdjson "encoding/json"
	"errors"
	"fmt"
	"math"
	"sort"
	"strconv"
	"strings"
	"time"
	"unicode/utf8"

	"github.com/ozanh/ugo"
	ufmt "github.com/ozanh/ugo/stdlib/fmt"
	ujson "github.com/ozanh/ugo/stdlib/json"
	utime "github.com/ozanh/ugo/stdlib/time"

	"verif/internal/core"
)

// C17 - the json module produces and accepts exactly standard JSON.
//
// Differential monitor of github.com/ozanh/ugo/stdlib/json against the
// sandbox toolchain's encoding/json.
//
// Oracle rules (numbers as in DESIGN.md -C17):
//  1. Marshal/MarshalIndent return an error or output for which encoding/json.Valid holds.
//  2. plain values: bytes equal encoding/json.Marshal(ugo.ToInterface(v)); same accept/reject.
//  3. Unmarshal(d) errors <=> encoding/json.Unmarshal(d,&any) errors; equal values (floats by bits).
//  4. JSON-representable values round-trip through Marshal/Unmarshal.
//  5. Valid / Compact / Indent / MarshalIndent agree with encoding/json.
//  6. never a Go panic.
//     +  the three routes to every module function (Go API or Function.Value, Function.ValueEx,
//     compiled script importing "json") return the same result.
//
// Deliberately NOT flagged (oracle would demand more than the property says):
//   - "\b" and "\f": encoding/json of Go >= 1.22 writes the short escapes \b \f, uGO's copy (forked
//     earlier) writes \u0008 \u000c. Documented behaviour change of the reference, both spellings are
//     standard JSON for the same string; both sides are normalised to \u0008/\u000c before comparing.
//   - nil containers (ugo.Map(nil), ugo.Array(nil), ugo.Bytes(nil)): uGO does not distinguish nil from
//     empty containers (Equal, len), so "the corresponding Go value" is ambiguous. uGO writes null, null
//     and "" for them; the oracle accepts the reference output for any per-kind choice of nil/empty
//     and excludes such values from the round-trip rule. Not constructible from a script.
//   - *SyncMap, *ObjectPtr, *Time, *RawMessage, EncoderOptions (Quote/NoQuote/NoEscape) are not "plain
//     values" of the property: only rules 1 and 6 (and route agreement) are applied; agreement with
//     json.RawMessage / Encoder.SetEscapeHTML(false) is counted, not judged.
//   - typed nil pointers other than (*SyncMap)(nil) and (*RawMessage)(nil) (which the code handles
//     explicitly) and a Go-nil ugo.Object inside containers are not uGO values and are not generated.
//   - *ObjectPtr is a VM-internal type (free-variable cell): the VM dereferences it when it appears as an
//     argument, so values containing one are marshalled through the Go API, Function.Value and
//     Function.ValueEx only, not through a script.
//   - error *texts* are not compared with encoding/json, only accept/reject.
//   - values nested deeper than 10000 are not marshalled: encoding/json.Valid itself rejects its own
//     Marshal output beyond that depth.
type c17 struct{}

func init() { core.Register(c17{}) }

func (c17) ID() string    { return "C17" }
func (c17) Level() string { return "exploration" }
func (c17) Race() bool    { return false }
func (c17) Rule() string {
	return "seeded generation. VALUES (quick ~100k, thorough ~4M): spec trees over every uGO type (undefined,bool,int,uint,float,char,string,bytes,array,map, nil containers, " +
		"*SyncMap nil/nil-inner/non-nil, *ObjectPtr, host objects implementing encoding.TextMarshaler / json.Marshaler (valid, invalid, failing), function, builtin function, compiled function, error, runtime error, time, location, scanArg, rawMessage valid/invalid/nil, " +
		"EncoderOptions built directly and via Quote/NoQuote/NoEscape), float edges (NaN, +-Inf, -0, subnormal, 1e21, 1e-7 ...), strings with control bytes, <>&, U+2028/9, invalid UTF-8, surrogate halves, " +
		"nesting 999..1500 (3000 thorough) and cyclic array/map/syncMap/objectPtr; four modes: plain, JSON-representable, supported-exotic, everything. " +
		"Each value: Marshal+MarshalIndent via Go API, Function.Value, Function.ValueEx and a compiled script; compared with encoding/json on ugo.ToInterface(v); round trip. " +
		"DOCUMENTS (quick ~200k, thorough ~8M): grammar-generated valid JSON (all escapes, number forms, whitespace, duplicate keys, invalid UTF-8 in strings), byte/structure mutations of those, token soup, arbitrary bytes, " +
		"fixed edge list (float edges, leading zeros, every \\x escape, lone/reversed surrogates, BOM, trailing garbage), nesting 9990..10010 of arrays/objects/mixed balanced and unbalanced. " +
		"Each document: Valid, Unmarshal, Compact(false/true), Indent, Marshal(RawMessage(d)) on all routes vs encoding/json Valid/Unmarshal/Compact/HTMLEscape/Indent. " +
		"non-trivial value = nesting>=2 or a string needing escapes/non-ASCII (distinct by spec hash); non-trivial document = not one of the fixed seeds (distinct by bytes); in the thorough tier only every 4th case is entered into the distinct set (memory bound)"
}
func (c17) Batches(tier string) int {
	if tier == "thorough" {
		return 64
	}
	return 16
}
func (c17) Required(string) []string {
	return []string{
		"values", "values_plain", "values_roundtrippable", "values_exotic", "values_everything",
		"marshal_ref_equal", "marshal_ref_both_error", "marshalindent_ref_equal", "roundtrip_equal",
		"marshal_output_valid", "marshal_error_returned", "values_with_unsupported_type",
		"cyclic_values", "cyclic_error_returned", "deep_values", "opts_values", "raw_values_invalid", "raw_values_valid",
		"route_script_values", "route_valueex_values", "route_script_options",
		"docs", "docs_ref_valid", "docs_ref_invalid", "unmarshal_both_ok_equal", "unmarshal_both_error",
		"unmarshal_ref_ok_number_range_error", "valid_agree", "compact_agree", "compact_escape_agree", "indent_agree",
		"route_script_docs", "route_valueex_docs", "dockind:deep", "dockind:edge", "dockind:mutated", "dockind:generated", "dockind:bytes",
		"deep_doc_over_limit_rejected", "deep_doc_at_limit_accepted", "deep_doc_indent_checked",
	}
}
func (c17) Assumptions() []string {
	return []string{
		"encoding/json of the sandbox toolchain (go1.23) is the reference for standard JSON",
		"ugo.ToInterface maps plain uGO values to the corresponding Go values (nil containers handled separately in c17.go)",
		"the \\b/\\f spelling difference introduced by Go 1.22 is normalised away (documented reference change)",
		"the c17.go structural comparers (floats by bits) and the spec->object builder",
	}
}

// ---------------------------------------------------------------------------
// value specs

// c17spec is a serialisable recipe for a uGO value (witness / crash attribution / replay).
type c17spec struct {
	K    string     `json:"k"`
	S    string     `json:"s,omitempty"` // hex payload: string / bytes / raw message / error message
	U    uint64     `json:"u,omitempty"` // int/uint value, float bits, char, bool, depth, unix seconds
	N    int64      `json:"n,omitempty"` // nanoseconds (time), cycle length
	E    []*c17spec `json:"e,omitempty"`
	Keys []string   `json:"keys,omitempty"` // hex map keys, parallel to E
	Q    bool       `json:"q,omitempty"`    // opts: Quote
	H    bool       `json:"h,omitempty"`    // opts: EscapeHTML
	Via  string     `json:"via,omitempty"`
}

func c17hex(s string) string { return hex.EncodeToString([]byte(s)) }
func c17unhex(s string) string {
	b, _ := hex.DecodeString(s)
	return string(b)
}

var c17builtinPick = []ugo.BuiltinType{ugo.BuiltinLen, ugo.BuiltinAppend, ugo.BuiltinString, ugo.BuiltinError}

type c17env struct {
	fn      map[string]*ugo.Function
	cfunc   ugo.Object
	scanArg ugo.Object
}

func c17newEnv() (*c17env, error) {
	e := &c17env{fn: map[string]*ugo.Function{}}
	for k, v := range ujson.Module {
		f, ok := v.(*ugo.Function)
		if !ok || f.Value == nil || f.ValueEx == nil {
			return nil, fmt.Errorf("json.Module[%q] is not a *ugo.Function with Value and ValueEx", k)
		}
		e.fn[k] = f
	}
	for _, k := range []string{"Marshal", "MarshalIndent", "Indent", "RawMessage", "Compact", "Quote", "NoQuote", "NoEscape", "Unmarshal", "Valid"} {
		if e.fn[k] == nil {
			return nil, fmt.Errorf("json.Module has no %q", k)
		}
	}
	bc, err := ugo.Compile([]byte(`return func(a) { return a }`), ugo.CompilerOptions{})
	if err != nil {
		return nil, err
	}
	cf, err := ugo.NewVM(bc).Run(nil)
	if err != nil {
		return nil, err
	}
	if _, ok := cf.(*ugo.CompiledFunction); !ok {
		return nil, fmt.Errorf("expected *CompiledFunction, got %T", cf)
	}
	e.cfunc = cf
	sf, ok := ufmt.Module["ScanArg"].(*ugo.Function)
	if !ok {
		return nil, fmt.Errorf("fmt.Module has no ScanArg")
	}
	sa, err := sf.Value(ugo.String("int"))
	if err != nil {
		return nil, err
	}
	e.scanArg = sa
	return e, nil
}

// host-defined objects that exercise textMarshalerEncoder / marshalerEncoder (no stdlib type implements
// encoding.TextMarshaler; only *Time and *RawMessage implement json.Marshaler).
type c17textObj struct {
	ugo.ObjectImpl
	s    string
	fail bool
}

func (o *c17textObj) TypeName() string { return "c17text" }
func (o *c17textObj) String() string   { return o.s }
func (o *c17textObj) MarshalText() ([]byte, error) {
	if o.fail {
		return nil, errors.New("text marshal failed")
	}
	return []byte(o.s), nil
}

type c17jsonObj struct {
	ugo.ObjectImpl
	b    []byte
	fail bool
}

func (o *c17jsonObj) TypeName() string { return "c17json" }
func (o *c17jsonObj) String() string   { return string(o.b) }
func (o *c17jsonObj) MarshalJSON() ([]byte, error) {
	if o.fail {
		return nil, errors.New("json marshal failed")
	}
	return o.b, nil
}

func c17dummyFn(...ugo.Object) (ugo.Object, error) { return ugo.Undefined, nil }

// build makes the uGO object described by sp.
func (e *c17env) build(sp *c17spec) ugo.Object {
	switch sp.K {
	case "undef":
		return ugo.Undefined
	case "bool":
		return ugo.Bool(sp.U != 0)
	case "int":
		return ugo.Int(int64(sp.U))
	case "uint":
		return ugo.Uint(sp.U)
	case "float":
		return ugo.Float(math.Float64frombits(sp.U))
	case "char":
		return ugo.Char(int32(uint32(sp.U)))
	case "str":
		return ugo.String(c17unhex(sp.S))
	case "bytes":
		return ugo.Bytes(c17unhex(sp.S))
	case "nilbytes":
		return ugo.Bytes(nil)
	case "arr":
		a := make(ugo.Array, len(sp.E))
		for i, x := range sp.E {
			a[i] = e.build(x)
		}
		return a
	case "nilarr":
		return ugo.Array(nil)
	case "alias":
		// acyclic values whose arrays share storage: an array holding a slice of itself (same data pointer, other
		// length), siblings sharing one array (script slice expressions produce exactly this)
		switch sp.N {
		case 0:
			a := ugo.Array{ugo.Float(1), ugo.Float(2), ugo.Float(0)}
			a[2] = a[:2]
			return a // [1,2,[1,2]]
		case 1:
			a := ugo.Array{ugo.Float(0), ugo.Float(2), ugo.Float(3)}
			a[0] = a[:0]
			return a // [[],2,3]
		case 2:
			a := ugo.Array{ugo.Float(0), ugo.Float(2), ugo.Float(3), ugo.Float(4)}
			a[0] = a[1:3]
			return a // [[2,3],2,3,4]
		}
		a := ugo.Array{ugo.Float(5), ugo.Float(6)}
		return ugo.Map{"a": a, "b": a[:1], "c": ugo.Array{a, a[:0], a}}
	case "map", "sync":
		m := make(ugo.Map, len(sp.E))
		for i, x := range sp.E {
			m[c17unhex(sp.Keys[i])] = e.build(x)
		}
		if sp.K == "sync" {
			return &ugo.SyncMap{Value: m}
		}
		return m
	case "nilmap":
		return ugo.Map(nil)
	case "syncnil":
		return (*ugo.SyncMap)(nil)
	case "syncnilmap":
		return &ugo.SyncMap{}
	case "ptr":
		v := e.build(sp.E[0])
		return &ugo.ObjectPtr{Value: &v}
	case "ptrnil":
		return &ugo.ObjectPtr{}
	case "func":
		return &ugo.Function{Name: "f", Value: c17dummyFn}
	case "builtin":
		return ugo.BuiltinObjects[c17builtinPick[int(sp.U)%len(c17builtinPick)]]
	case "cfunc":
		return e.cfunc
	case "err":
		return &ugo.Error{Name: "E", Message: c17unhex(sp.S)}
	case "rterr":
		return &ugo.RuntimeError{Err: &ugo.Error{Name: "R", Message: c17unhex(sp.S)}}
	case "time":
		loc := time.UTC
		switch sp.Via {
		case "+05:30":
			loc = time.FixedZone("", 5*3600+1800)
		case "-08:00":
			loc = time.FixedZone("PST", -8*3600)
		case "+00:00:01":
			loc = time.FixedZone("odd", 1)
		}
		return &utime.Time{Value: time.Unix(int64(sp.U), sp.N).In(loc)}
	case "loc":
		if sp.Via == "fixed" {
			return &utime.Location{Value: time.FixedZone("X", 3600)}
		}
		return &utime.Location{Value: time.UTC}
	case "scanarg":
		return e.scanArg
	case "textm":
		return &c17textObj{s: c17unhex(sp.S), fail: sp.Q}
	case "jsonm":
		return &c17jsonObj{b: []byte(c17unhex(sp.S)), fail: sp.Q}
	case "raw":
		return &ujson.RawMessage{Value: []byte(c17unhex(sp.S))}
	case "rawnil":
		return (*ujson.RawMessage)(nil)
	case "rawnilval":
		return &ujson.RawMessage{}
	case "opts":
		inner := e.build(sp.E[0])
		if sp.Via == "" || sp.Via == "struct" {
			return &ujson.EncoderOptions{Value: inner, Quote: sp.Q, EscapeHTML: sp.H}
		}
		// chain of module functions, e.g. "Quote+NoEscape"
		cur := inner
		for _, name := range strings.Split(sp.Via, "+") {
			r, err := e.fn[name].Value(cur)
			if err != nil {
				return &ujson.EncoderOptions{Value: inner, Quote: sp.Q, EscapeHTML: sp.H}
			}
			cur = r
		}
		return cur
	case "deep":
		cur := e.build(sp.E[0])
		for i := uint64(0); i < sp.U; i++ {
			kind := sp.Via
			if kind == "mix" {
				kind = []string{"arr", "map", "arr2"}[i%3]
			}
			switch kind {
			case "arr":
				cur = ugo.Array{cur}
			case "arr2":
				cur = ugo.Array{ugo.Float(1), cur}
			case "map":
				cur = ugo.Map{"a": cur}
			case "sync":
				cur = &ugo.SyncMap{Value: ugo.Map{"a": cur}}
			case "ptr":
				v := cur
				cur = &ugo.ObjectPtr{Value: &v}
			}
		}
		return cur
	case "cyc":
		var root ugo.Object
		switch sp.Via {
		case "arr":
			a := ugo.Array{ugo.Int(1), nil, ugo.String("x")}
			a[1] = a
			root = a
		case "map":
			m := ugo.Map{"k": ugo.Int(1)}
			m["self"] = m
			root = m
		case "sync":
			s := &ugo.SyncMap{Value: ugo.Map{}}
			s.Value["self"] = s
			root = s
		case "ptr":
			p := &ugo.ObjectPtr{}
			var o ugo.Object = ugo.Array{p}
			p.Value = &o
			root = p
		default: // "ring": array -> map -> syncMap -> ... -> first array, N links
			n := int(sp.N)
			if n < 2 {
				n = 2
			}
			first := ugo.Array{nil}
			var cur ugo.Object = first
			for i := 0; i < n-1; i++ {
				switch i % 3 {
				case 0:
					cur = ugo.Map{"m": cur}
				case 1:
					cur = &ugo.SyncMap{Value: ugo.Map{"s": cur}}
				default:
					cur = ugo.Array{ugo.True, cur}
				}
			}
			first[0] = cur
			root = first
		}
		for i := uint64(0); i < sp.U; i++ {
			if i%2 == 0 {
				root = ugo.Array{root}
			} else {
				root = ugo.Map{"p": root}
			}
		}
		return root
	}
	panic("c17: unknown spec kind " + sp.K)
}

// c17info summarises a spec.
type c17info struct {
	plain   bool // only plain kinds (rule 2 applies)
	rt      bool // JSON-representable (rule 4 applies)
	hasNil  bool
	cyc     bool
	unsup   bool // contains a type json cannot represent
	exotic  bool
	depth   int
	strFeat bool // some string needs escaping / is non-ASCII
	nanInf  bool
	kinds   map[string]int
	hasOpts bool
	hasPtr  bool // *ObjectPtr inside: VM-internal type, the VM dereferences it when it is an argument/local
	rawBad  bool
	rawGood bool
}

func c17specInfo(sp *c17spec) *c17info {
	in := &c17info{plain: true, rt: true, kinds: map[string]int{}}
	var walk func(s *c17spec, d int)
	strCheck := func(h string) {
		s := c17unhex(h)
		if !utf8.ValidString(s) {
			in.rt = false
			in.strFeat = true
			return
		}
		for i := 0; i < len(s); i++ {
			c := s[i]
			if c < 0x20 || c >= 0x7f || c == '"' || c == '\\' || c == '<' || c == '>' || c == '&' {
				in.strFeat = true
				return
			}
		}
	}
	walk = func(s *c17spec, d int) {
		if d > in.depth {
			in.depth = d
		}
		in.kinds[s.K]++
		switch s.K {
		case "undef", "bool":
		case "int", "uint", "char", "bytes":
			in.rt = false
		case "float":
			f := math.Float64frombits(s.U)
			if math.IsNaN(f) || math.IsInf(f, 0) {
				in.nanInf = true
				in.rt = false
			}
		case "str":
			strCheck(s.S)
		case "arr":
			for _, x := range s.E {
				walk(x, d+1)
			}
		case "map":
			for i, x := range s.E {
				strCheck(s.Keys[i]) // keys colliding after U+FFFD coercion cannot occur in rt values: rt requires valid UTF-8
				walk(x, d+1)
			}
		case "alias":
			if d+3 > in.depth {
				in.depth = d + 3
			}
		case "nilarr", "nilmap", "nilbytes":
			in.hasNil = true
			in.rt = false
		case "deep":
			switch s.Via {
			case "arr", "map", "mix":
			default:
				in.plain, in.rt, in.exotic = false, false, true
				if s.Via == "ptr" {
					in.hasPtr = true
				}
			}
			in.kinds["deep:"+s.Via]++
			walk(s.E[0], d+int(s.U))
		case "cyc":
			in.cyc = true
			in.plain, in.rt = false, false
			in.kinds["cyc:"+s.Via]++
			if s.Via == "ptr" {
				in.hasPtr = true
			}
			in.depth += 2
		case "sync", "syncnil", "syncnilmap", "ptr", "ptrnil", "time", "raw", "rawnil", "rawnilval", "opts", "textm", "jsonm":
			in.plain, in.rt, in.exotic = false, false, true
			if s.K == "ptr" || s.K == "ptrnil" {
				in.hasPtr = true
			}
			if s.K == "opts" {
				in.hasOpts = true
				via := s.Via
				if via == "" {
					via = "struct"
				}
				in.kinds["opts:"+via]++
			}
			if s.K == "raw" || (s.K == "jsonm" && !s.Q) {
				if stdjson.Valid([]byte(c17unhex(s.S))) {
					in.rawGood = true
				} else {
					in.rawBad = true
				}
			}
			if s.K == "sync" {
				for i, x := range s.E {
					strCheck(s.Keys[i])
					walk(x, d+1)
				}
			} else {
				for _, x := range s.E {
					walk(x, d+1)
				}
			}
		default: // func builtin cfunc err rterr loc scanarg
			in.plain, in.rt = false, false
			in.unsup = true
		}
	}
	walk(sp, 0)
	return in
}

// ---------------------------------------------------------------------------
// driver

type c17wit struct {
	Kind       string   `json:"kind"` // value | options | doc
	Spec       *c17spec `json:"spec,omitempty"`
	Doc        []byte   `json:"doc,omitempty"`
	DocText    string   `json:"doc_text,omitempty"`
	OrigLen    int      `json:"orig_len,omitempty"`
	Prefix     string   `json:"prefix"`
	Indent     string   `json:"indent"`
	AsString   bool     `json:"as_string,omitempty"`
	SkipIndent bool     `json:"skip_indent,omitempty"`
	Check      string   `json:"check"`
	Min        string   `json:"minimal,omitempty"`
	Got        string   `json:"got"`
	Want       string   `json:"want"`
}

var c17indents = [][2]string{{"", ""}, {"", " "}, {"", "\t"}, {"", "  "}, {" ", "\t"}, {"\n", "\r"}, {">", "--"}, {"", "#"}, {"p\u2028", "<&>"}, {"", "   "}}

func c17specJSON(sp *c17spec) string {
	b, err := stdjson.Marshal(sp)
	if err != nil {
		return "spec-unmarshalable:" + err.Error()
	}
	return string(b)
}

type c17runner struct {
	c    *core.Ctx
	k    *c17check
	seen map[string]bool
	ntN  int
}

func (r *c17runner) reportValue(kind string, sp *c17spec, p, i string, fs []c17finding) {
	for _, f := range fs {
		r.c.Violation(f.fp, f.what, c17wit{Kind: kind, Spec: sp, Prefix: p, Indent: i, Check: f.check, Min: f.min, Got: f.got, Want: f.want})
	}
}

func (r *c17runner) reportDoc(d []byte, p, i string, asString, skipIndent bool, fs []c17finding) {
	for _, f := range fs {
		w := c17wit{Kind: "doc", Doc: d, DocText: c17quoteDoc(d), Prefix: p, Indent: i, AsString: asString, SkipIndent: skipIndent, Check: f.check, Min: f.min, Got: f.got, Want: f.want}
		if !r.seen[f.fp] && len(d) > 1 && !skipIndent {
			r.seen[f.fp] = true
			small := r.k.shrinkDoc(d, p, i, asString, f.fp)
			if len(small) < len(d) {
				// re-evaluate on the shrunk document so that got/want describe it
				saved := r.k.cnt
				r.k.cnt = map[string]int64{}
				for _, g := range r.k.evalDoc(small, p, i, asString, false) {
					if g.fp == f.fp {
						w = c17wit{Kind: "doc", Doc: small, DocText: c17quoteDoc(small), OrigLen: len(d), Prefix: p, Indent: i, AsString: asString, Check: g.check, Min: g.min, Got: g.got, Want: g.want}
						break
					}
				}
				r.k.cnt = saved
			}
		}
		r.c.Violation(f.fp, f.what, w)
	}
}

// ntTick bounds the parent's distinct-case set in the thorough tier (every 4th case is recorded).
func (r *c17runner) ntTick() bool {
	r.ntN++
	return !r.c.Thorough() || r.ntN%4 == 0
}

func (r *c17runner) flush() {
	keys := make([]string, 0, len(r.k.cnt))
	for k := range r.k.cnt {
		keys = append(keys, k)
	}
	sort.Strings(keys)
	for _, k := range keys {
		r.c.CountN(k, r.k.cnt[k])
	}
	r.k.cnt = map[string]int64{}
}

func (r *c17runner) valueCase(sp *c17spec, p, i string, withOptions bool) {
	c := r.c
	if !c.Begin(func() string {
		return "value prefix=" + strconv.Quote(p) + " indent=" + strconv.Quote(i) + " spec=" + c17specJSON(sp)
	}) {
		return
	}
	in := c17specInfo(sp)
	fs := r.k.evalValue(sp, p, i, true)
	r.reportValue("value", sp, p, i, fs)
	if withOptions && !in.cyc && !in.hasPtr {
		r.reportValue("options", sp, p, i, r.k.evalOptions(sp))
	}
	if (in.depth >= 2 || in.strFeat) && r.ntTick() {
		c.Nontrivial("v|" + c17specJSON(sp))
	}
	if len(fs) == 0 {
		c.Sample(map[string]any{"kind": "value", "spec": sp})
	}
}

func (r *c17runner) docCase(kind string, desc func() string, d []byte, p, i string, asString bool, seed bool, skipIndent bool) {
	c := r.c
	if !c.Begin(func() string {
		return "doc kind=" + kind + " prefix=" + strconv.Quote(p) + " indent=" + strconv.Quote(i) + " string=" + strconv.FormatBool(asString) + " " + desc()
	}) {
		return
	}
	r.k.count("dockind:" + kind)
	fs := r.k.evalDoc(d, p, i, asString, skipIndent)
	r.reportDoc(d, p, i, asString, skipIndent, fs)
	if !seed && r.ntTick() {
		c.Nontrivial("d|" + string(d))
	}
	if len(fs) == 0 && len(d) > 8 && len(d) < 200 && kind != "edge" {
		c.Sample(map[string]any{"kind": "doc:" + kind, "doc": string(d)})
	}
}

// fixed value seeds (always run, partitioned over batches)
func c17seedSpecs(thorough bool) []*c17spec {
	var l []*c17spec
	f := func(x float64) *c17spec { return &c17spec{K: "float", U: math.Float64bits(x)} }
	s := func(x string) *c17spec { return &c17spec{K: "str", S: c17hex(x)} }
	for _, x := range c17floatEdges {
		l = append(l, f(x), &c17spec{K: "arr", E: []*c17spec{f(x)}}, &c17spec{K: "map", Keys: []string{c17hex("k")}, E: []*c17spec{f(x)}})
	}
	for _, lst := range [][]string{c17asciiWords, c17ctrl, c17html, c17quote, c17linesep, c17multi, c17badUTF8} {
		for _, x := range lst {
			l = append(l, s(x), &c17spec{K: "map", Keys: []string{c17hex(x)}, E: []*c17spec{s(x)}}, s("a"+x+"b"))
		}
	}
	for b := 0; b < 256; b++ {
		l = append(l, s(string([]byte{byte(b)})))
	}
	for _, x := range c17intEdges {
		l = append(l, &c17spec{K: "int", U: uint64(x)})
	}
	for _, x := range c17uintEdges {
		l = append(l, &c17spec{K: "uint", U: x})
	}
	for _, x := range c17charEdges {
		l = append(l, &c17spec{K: "char", U: uint64(uint32(x))})
	}
	for _, n := range c17bytesLens {
		l = append(l, &c17spec{K: "bytes", S: c17hex(strings.Repeat("\xfb\xff\x00a", n/4+1)[:n])})
	}
	for _, k := range []string{"undef", "nilarr", "nilmap", "nilbytes", "arr", "map", "syncnil", "syncnilmap", "sync", "ptrnil", "func", "builtin", "cfunc", "scanarg", "rawnil", "rawnilval"} {
		sp := &c17spec{K: k}
		l = append(l, sp, &c17spec{K: "map", Keys: []string{c17hex("a"), c17hex("b")}, E: []*c17spec{sp, {K: "int", U: 1}}}, &c17spec{K: "arr", E: []*c17spec{{K: "int", U: 1}, sp, {K: "int", U: 2}}})
	}
	for _, sp := range []*c17spec{{K: "bool", U: 1}, {K: "bool"}, {K: "err", S: c17hex("x")}, {K: "rterr", S: c17hex("x")}, {K: "loc", Via: "utc"}, {K: "loc", Via: "fixed"},
		{K: "time", U: 0, Via: "utc"}, {K: "time", U: 253402300800, Via: "utc"}, {K: "time", U: 1700000000, N: 123456789, Via: "+05:30"},
		{K: "raw", S: c17hex(" [1, 2 ] ")}, {K: "raw", S: c17hex("{")}, {K: "raw", S: c17hex("")}, {K: "raw", S: c17hex(`"<\u2028"`)}, {K: "raw", S: c17hex("1 2")},
		{K: "ptr", E: []*c17spec{{K: "str", S: c17hex("<p>")}}},
		{K: "textm", S: c17hex("t<\"\x01\xff>")}, {K: "textm", Q: true}, {K: "jsonm", S: c17hex(" {\"a\" : [1, \"<\"]} ")}, {K: "jsonm", S: c17hex("[1,")}, {K: "jsonm", S: c17hex("")}, {K: "jsonm", Q: true}} {
		l = append(l, sp, &c17spec{K: "map", Keys: []string{c17hex("a"), c17hex("b")}, E: []*c17spec{sp, {K: "int", U: 1}}})
		for _, via := range []string{"Quote", "NoQuote", "NoEscape", "Quote+NoEscape", "struct"} {
			l = append(l, &c17spec{K: "opts", Via: via, Q: strings.HasPrefix(via, "Quote"), H: !strings.Contains(via, "NoEscape"), E: []*c17spec{sp}})
		}
	}
	for n := int64(0); n < 4; n++ {
		l = append(l, &c17spec{K: "alias", N: n}, &c17spec{K: "arr", E: []*c17spec{{K: "alias", N: n}, {K: "alias", N: n}}})
	}
	// nesting around the cycle-detection threshold and cycles
	depths := []uint64{998, 999, 1000, 1001, 1002, 1100, 1500}
	if thorough {
		depths = append(depths, 2000, 3000, 5000)
	}
	for _, d := range depths {
		for _, via := range []string{"arr", "map", "mix", "sync", "ptr"} {
			for _, leaf := range []*c17spec{{K: "float", U: math.Float64bits(1.5)}, {K: "str", S: c17hex("x<\u2028")}, {K: "arr"}, {K: "func"}, {K: "undef"}, {K: "alias", N: 0}, {K: "alias", N: 1}, {K: "alias", N: 2}, {K: "alias", N: 3}} {
				l = append(l, &c17spec{K: "deep", Via: via, U: d, E: []*c17spec{leaf}})
			}
		}
	}
	for _, via := range []string{"arr", "map", "sync", "ptr", "ring"} {
		for _, pre := range []uint64{0, 1, 2, 3, 998, 999, 1000, 1001, 1200} {
			for _, n := range []int64{2, 3, 7} {
				if via != "ring" && n != 2 {
					continue
				}
				sp := &c17spec{K: "cyc", Via: via, U: pre, N: n}
				l = append(l, sp, &c17spec{K: "opts", Via: "struct", Q: true, H: true, E: []*c17spec{sp}})
			}
		}
	}
	return l
}

func (m c17) Run(c *core.Ctx) {
	k, err := newC17check()
	if err != nil {
		c.Violation("C17|harness-setup", "monitor setup failed: "+err.Error(), nil)
		return
	}
	r := &c17runner{c: c, k: k, seen: map[string]bool{}}
	defer r.flush()

	if c.Replay != nil {
		var w c17wit
		if err := stdjson.Unmarshal(c.Replay, &w); err != nil {
			c.Inconclusive("replay witness not understood: " + err.Error())
			return
		}
		switch w.Kind {
		case "value":
			if w.Spec != nil {
				r.reportValue("value", w.Spec, w.Prefix, w.Indent, k.evalValue(w.Spec, w.Prefix, w.Indent, true))
			}
		case "options":
			if w.Spec != nil {
				r.reportValue("options", w.Spec, w.Prefix, w.Indent, k.evalOptions(w.Spec))
			}
		case "doc":
			r.seen = nil // no shrinking on replay
			for _, f := range k.evalDoc(w.Doc, w.Prefix, w.Indent, w.AsString, w.SkipIndent) {
				c.Violation(f.fp, f.what, c17wit{Kind: "doc", Doc: w.Doc, DocText: c17quoteDoc(w.Doc), Prefix: w.Prefix, Indent: w.Indent, AsString: w.AsString, Check: f.check, Got: f.got, Want: f.want})
			}
		default:
			c.Inconclusive("replay: crash witnesses carry only the case description; re-run the tier to reproduce")
		}
		return
	}

	rng := c.Rng
	pickIndent := func() (string, string) {
		x := c17indents[rng.Intn(len(c17indents))]
		return x[0], x[1]
	}

	// ---- fixed value seeds
	for idx, sp := range c17seedSpecs(c.Thorough()) {
		if idx%c.NBatch != c.Batch {
			continue
		}
		p, i := "", " "
		if sp.K == "deep" && sp.U > 1500 {
			i = ""
		}
		r.valueCase(sp, p, i, idx%3 == 0)
	}
	// ---- random values
	nv := c.Pick(100000, 4000000) / c.NBatch
	vg := &c17gen{r: rng}
	for n := 0; n < nv; n++ {
		sp, _ := vg.top()
		p, i := pickIndent()
		r.valueCase(sp, p, i, n%4 == 0)
		if n%4096 == 0 {
			r.flush()
		}
	}

	// ---- fixed documents
	for idx, d := range c17edgeDocs() {
		if idx%c.NBatch != c.Batch {
			continue
		}
		d := d
		p, i := c17indents[idx%len(c17indents)][0], c17indents[idx%len(c17indents)][1]
		r.docCase("edge", func() string { return c17quoteDoc(d) }, d, p, i, idx%5 == 0, true, false)
	}
	for idx, rc := range c17deepRecipes(c.Thorough()) {
		if idx%c.NBatch != c.Batch {
			continue
		}
		rc := rc
		d := rc.build()
		before := k.cnt["unmarshal_both_ok_equal"]
		// Indent is quadratic in the nesting depth (both implementations): only a few deep documents get it
		skipIndent := rc.Depth > 1001 && !(rc.Shape == "arr" && rc.Leaf == "1" && rc.Depth >= 9999 && rc.Depth <= 10001)
		r.docCase("deep", rc.String, d, "", "", idx%7 == 0, false, skipIndent)
		if !skipIndent {
			k.count("deep_doc_indent_checked")
		}
		if rc.Depth >= 9990 && rc.Closes == rc.Depth && rc.Tail == "" {
			if k.cnt["unmarshal_both_ok_equal"] > before {
				if rc.Depth >= 9999 {
					k.count("deep_doc_at_limit_accepted")
				}
			} else if rc.Depth >= 10000 {
				k.count("deep_doc_over_limit_rejected")
			}
		}
	}
	// ---- random documents
	nd := c.Pick(200000, 8000000) / c.NBatch
	dg := &c17docgen{r: rng}
	for n := 0; n < nd; n++ {
		d, kind := dg.randomDoc()
		if kind == "soup" {
			kind = "bytes"
		}
		p, i := pickIndent()
		asString := rng.Intn(5) == 0
		r.docCase(kind, func() string { return c17quoteDoc(d) }, d, p, i, asString, false, false)
		if n%8192 == 0 {
			r.flush()
		}
	}
}
