package props

import (
	"context"
	"encoding/json"
	"fmt"
	"sort"
	"strings"
	"sync/atomic"

	"github.com/ozanh/ugo"

	"verif/internal/canon"
	"verif/internal/core"
	"verif/internal/gen"
	"verif/internal/ref"
)

// C13 — a disabled builtin cannot be reached by any script.
type c13 struct{}

func init() { core.Register(c13{}) }

func (c13) ID() string    { return "C13" }
func (c13) Level() string { return "exploration" }
func (c13) Race() bool    { return false }
func (c13) Rule() string {
	return "scripts rich in builtin references (main script, nested functions, source modules two levels deep, const initialisers, constant expressions the optimizer evaluates, later fragments of an Eval session, with script-level shadowing of some names) " +
		"are compiled with a symbol table in which a set D of builtin names is disabled (each single name referenced by the script, all names, seeded random subsets; disabling before the session and between fragments). " +
		"Expectation from an independent lexical resolver over the AST: a live free reference to a member of D => Compile fails with an unresolved-reference error naming a member of D; no reference => Compile succeeds. " +
		"Every Bytecode produced is scanned (Main and all function constants) for GETBUILTIN operands naming a member of D, and run with ugo.BuiltinObjects replaced by counting wrappers: " +
		"after compile + run the call counters of all members of D must be zero (this also observes calls made by the optimizer's compile-time VM). " +
		"non-trivial = D intersects the names mentioned anywhere in the script; distinct by (source hash, D)"
}
func (c13) Batches(string) int { return 32 }
func (c13) Required(string) []string {
	return []string{"compiles", "expected_rejections_seen", "accepted_and_scanned", "runs_with_counters", "shadowed_name_disabled_accepted", "module_reference_rejected", "eval_sessions", "eval_fragment_rejected_after_disable", "optimizer_on", "optimizer_off", "getbuiltin_instructions_scanned"}
}
func (c13) Assumptions() []string {
	return []string{"the lexical resolver internal/ref/resolve.go (declaration-before-use, block scopes as documented)", "a reference inside a branch removed at compile time (literal bool condition) need not be an error but must still leave no trace in the Bytecode",
		":makeArray is exempt as the statement says"}
}

var c13counters [256]atomic.Int64
var c13wrapped bool

// c13wrapBuiltins replaces every builtin function by a counting wrapper (once per child process).
func c13wrapBuiltins() {
	if c13wrapped {
		return
	}
	c13wrapped = true
	for i := range ugo.BuiltinObjects {
		bf, ok := ugo.BuiltinObjects[i].(*ugo.BuiltinFunction)
		if !ok || bf == nil {
			continue
		}
		idx := i
		orig := *bf
		w := &ugo.BuiltinFunction{Name: orig.Name}
		if orig.Value != nil {
			w.Value = func(args ...ugo.Object) (ugo.Object, error) {
				c13counters[idx].Add(1)
				return orig.Value(args...)
			}
		}
		if orig.ValueEx != nil {
			w.ValueEx = func(c ugo.Call) (ugo.Object, error) {
				c13counters[idx].Add(1)
				return orig.ValueEx(c)
			}
		}
		ugo.BuiltinObjects[i] = w
	}
}

func c13resetCounters() {
	for i := range c13counters {
		c13counters[i].Store(0)
	}
}

type c13wit struct {
	Program  *Program `json:"program"`
	Disabled []string `json:"disabled"`
	Opt      bool     `json:"optimizer"`
	Why      string   `json:"why"`
	Detail   string   `json:"detail,omitempty"`
	Frags    []string `json:"fragments,omitempty"`
}

// scanGetBuiltin returns the names of builtins referenced by GETBUILTIN in bc.
func scanGetBuiltin(bc *ugo.Bytecode) (map[string]int, int) {
	names := map[string]int{}
	total := 0
	rev := map[int]string{}
	for n, t := range ugo.BuiltinsMap {
		rev[int(t)] = n
	}
	scan := func(insts []byte) {
		ugo.IterateInstructions(insts, func(_ int, op ugo.Opcode, operands []int, _ int) bool {
			if op == ugo.OpGetBuiltin {
				total++
				if n, ok := rev[operands[0]]; ok {
					names[n]++
				} else {
					names[fmt.Sprintf("#%d", operands[0])]++
				}
			}
			return true
		})
	}
	scan(bc.Main.Instructions)
	for _, k := range bc.Constants {
		if cf, ok := k.(*ugo.CompiledFunction); ok {
			scan(cf.Instructions)
		}
	}
	return names, total
}

type c13analysis struct {
	live      map[string]bool // builtin names with a live free reference (main + transitively imported modules)
	any       map[string]bool // incl. references in statically dead branches
	mentioned map[string]bool // any identifier spelled like a builtin, shadowed or not
	inModule  map[string]bool // names whose only live reference is in a module
}

func c13analyse(p *Program) (*c13analysis, bool) {
	a := &c13analysis{live: map[string]bool{}, any: map[string]bool{}, mentioned: map[string]bool{}, inModule: map[string]bool{}}
	seen := map[string]bool{}
	var visit func(name, src string, isMain bool) bool
	visit = func(name, src string, isMain bool) bool {
		f, err := ref.Parse(name, []byte(src))
		if err != nil {
			return false
		}
		refs, imps := ref.BuiltinRefs(f)
		for _, r := range refs {
			a.any[r.Name] = true
			if r.Live {
				if !a.live[r.Name] && !isMain {
					a.inModule[r.Name] = true
				}
				if isMain {
					delete(a.inModule, r.Name)
				}
				a.live[r.Name] = true
			}
		}
		for w := range ugo.BuiltinsMap {
			if strings.Contains(src, w) {
				a.mentioned[w] = true
			}
		}
		for _, im := range imps {
			if !im.Live || seen[im.Module] {
				continue
			}
			if msrc, ok := p.Modules[im.Module]; ok {
				seen[im.Module] = true
				if !visit(im.Module, msrc, false) {
					return false
				}
			}
		}
		return true
	}
	return a, visit("(main)", p.Src, true)
}

func c13symtab(disabled []string) *ugo.SymbolTable {
	st := ugo.NewSymbolTable()
	st.DisableBuiltin(disabled...)
	return st
}

func (m c13) checkCompile(c *core.Ctx, p *Program, a *c13analysis, disabled []string, optimize bool, args []ugo.Object) {
	D := map[string]bool{}
	for _, d := range disabled {
		D[d] = true
	}
	wit := func(why, detail string) c13wit {
		return c13wit{Program: p, Disabled: disabled, Opt: optimize, Why: why, Detail: trunc(detail, 600)}
	}
	expectReject := false
	var hit []string
	for n := range a.live {
		if D[n] {
			expectReject = true
			hit = append(hit, n)
		}
	}
	sort.Strings(hit)
	anyRef := false
	for n := range a.any {
		if D[n] {
			anyRef = true
		}
	}
	c13resetCounters()
	opts := ugo.CompilerOptions{ModuleMap: moduleMapFor(p), SymbolTable: c13symtab(disabled), NoOptimize: !optimize}
	cr := safeCompile([]byte(p.Src), opts)
	c.Count("compiles")
	if optimize {
		c.Count("optimizer_on")
	} else {
		c.Count("optimizer_off")
	}
	fpD := "one"
	if len(disabled) > 1 {
		fpD = "many"
	}
	if cr.panicv != "" {
		c.Violation("C13|compile-panic|"+cr.ptop, "Compile panics: "+cr.panicv, wit("panic", cr.panicv))
		return
	}
	if cr.err != nil {
		msg := cr.err.Error()
		isUnres := strings.Contains(msg, "unresolved reference")
		if isUnres {
			named := ""
			for d := range D {
				if strings.Contains(msg, "unresolved reference \""+d+"\"") {
					named = d
				}
			}
			if named == "" {
				c.Count("discarded_other_unresolved")
				return
			}
			if !anyRef {
				c.Violation("C13|over-rejection|"+fpD, "Compile rejects a script that has no free reference to the disabled builtin \""+named+"\" (the script declares that name itself)", wit("over-rejection", msg))
				return
			}
			c.Count("expected_rejections_seen")
			for _, h := range hit {
				if a.inModule[h] {
					c.Count("module_reference_rejected")
					break
				}
			}
			return
		}
		// other compile errors (optimizer refusals etc.) — not this property's business
		c.Count("discarded_other_compile_error")
		if expectReject && !optimize {
			// the unresolved reference may have been masked by an earlier error; not judged
			c.Count("expected_rejection_masked_by_other_error")
		}
		return
	}
	// compiled
	if expectReject && !optimize {
		c.Violation("C13|disabled-reference-accepted|"+fpD+"|"+strings.Join(hit, ","), "a script with a live free reference to disabled builtin(s) "+strings.Join(hit, ",")+" compiles", wit("accepted", ""))
		return
	}
	if expectReject && optimize {
		// allowed only if the optimizer removed the referencing code: the bytecode checks below decide
		c.Count("accepted_with_optimizer_reference_possibly_folded_away")
	}
	names, total := scanGetBuiltin(cr.bc)
	c.CountN("getbuiltin_instructions_scanned", int64(total))
	c.Count("accepted_and_scanned")
	for n := range names {
		if D[n] {
			c.Violation("C13|getbuiltin-of-disabled|"+fpD+"|"+n, "Bytecode contains GETBUILTIN of the disabled builtin "+n, wit("bytecode references disabled builtin", fmt.Sprint(names)))
			return
		}
	}
	for n := range a.mentioned {
		if D[n] && !a.any[n] {
			c.Count("shadowed_name_disabled_accepted")
			break
		}
	}
	// run with counters
	rec := &canon.Recorder{}
	g := ugo.Map{"L": rec.Func(), "G": ugo.Int(3)}
	canon.RunBytecode(cr.bc, canon.RunOpts{Recover: true, Globals: g, Args: args, NoOutput: true})
	c.Count("runs_with_counters")
	for d := range D {
		if d == ":makeArray" {
			continue
		}
		idx := int(ugo.BuiltinsMap[d])
		if n := c13counters[idx].Load(); n > 0 {
			c.Violation("C13|disabled-builtin-called|"+fpD+"|"+d, fmt.Sprintf("disabled builtin %s was called %d time(s) during compile+run", d, n), wit("disabled builtin called", ""))
			return
		}
	}
}

func c13allNames() []string {
	var ns []string
	for n := range ugo.BuiltinsMap {
		if n != ":makeArray" {
			ns = append(ns, n)
		}
	}
	sort.Strings(ns)
	return ns
}

func (m c13) evalSession(c *core.Ctx, frags []string, disableAt int, name string) {
	st := ugo.NewSymbolTable()
	rec := &canon.Recorder{}
	ev := ugo.NewEval(ugo.CompilerOptions{SymbolTable: st}, ugo.Map{"L": rec.Func(), "G": ugo.Int(3)})
	c.Count("eval_sessions")
	prevConsts := 0
	for i, fr := range frags {
		if i == disableAt {
			st.DisableBuiltin(name)
		}
		c13resetCounters()
		f, perr := ref.Parse("f", []byte(fr))
		refs := []ref.BRef{}
		if perr == nil {
			refs, _ = ref.BuiltinRefs(f)
		}
		mentions := false
		for _, r := range refs {
			if r.Name == name && r.Live {
				mentions = true
			}
		}
		var pan string
		var err error
		var bc *ugo.Bytecode
		func() {
			defer func() {
				if r := recover(); r != nil {
					pan = fmt.Sprint(r)
				}
			}()
			_, bc, err = ev.Run(context.Background(), []byte(fr))
		}()
		wit := c13wit{Disabled: []string{name}, Frags: frags, Why: fmt.Sprintf("fragment %d", i), Opt: true}
		if pan != "" {
			c.Violation("C13|eval-panic", "Eval panics: "+pan, wit)
			return
		}
		if i >= disableAt && mentions {
			// NOTE: an earlier fragment may have declared the name itself; the caller only passes names never declared
			if err != nil && bc == nil && !strings.Contains(err.Error(), "unresolved reference \""+name+"\"") {
				// statically rejected for another reason first (e.g. a variable whose declaring fragment was itself rejected)
				c.Count("eval_fragment_rejected_other_reason")
				continue
			}
			if err == nil || bc != nil || !strings.Contains(err.Error(), "unresolved reference \""+name+"\"") {
				c.Violation("C13|eval-disabled-reference-accepted|"+name, "a fragment compiled after DisableBuiltin still resolves the builtin: "+fr, wit)
				return
			}
			c.Count("eval_fragment_rejected_after_disable")
			continue // the session goes on: a rejected fragment must not re-enable anything for the following ones
		}
		if err != nil && bc == nil {
			c.Count("eval_fragment_other_compile_error")
			continue // unrelated compile error (also a failed fragment the session has to survive)
		}
		if i >= disableAt && bc != nil {
			// only code compiled for this fragment: Main and the constants added by it
			// (the session's constants also hold functions compiled before the name was disabled)
			fresh := &ugo.Bytecode{Main: bc.Main}
			if prevConsts <= len(bc.Constants) {
				fresh.Constants = bc.Constants[prevConsts:]
			}
			names, _ := scanGetBuiltin(fresh)
			if names[name] > 0 {
				c.Violation("C13|eval-getbuiltin-of-disabled|"+name, "a fragment compiled after DisableBuiltin contains GETBUILTIN "+name, wit)
				return
			}
		}
		if bc != nil {
			prevConsts = len(bc.Constants)
		}
	}
}

// declaredSession: the script itself declares a variable named like a builtin; the host disables that builtin (for the
// first time, or again) after the declaring fragment ran. Every fragment must behave exactly as in the same session
// without any DisableBuiltin call: the property exempts names the script declared.
func (m c13) declaredSession(c *core.Ctx, frags []string, name string, disableAt int, pre bool) {
	type res struct{ val, err string }
	runSession := func(disable bool) (out []res, pan string) {
		st := ugo.NewSymbolTable()
		if disable && pre {
			st.DisableBuiltin(name)
		}
		rec := &canon.Recorder{}
		g := ugo.Map{"L": rec.Func(), "G": ugo.Int(3), name: &ugo.Function{Name: "host-" + name, Value: func(...ugo.Object) (ugo.Object, error) { return ugo.Int(47), nil }}}
		ev := ugo.NewEval(ugo.CompilerOptions{SymbolTable: st}, g)
		for i, fr := range frags {
			if disable && i == disableAt {
				st.DisableBuiltin(name)
			}
			var r res
			func() {
				defer func() {
					if x := recover(); x != nil {
						pan = fmt.Sprint(x)
					}
				}()
				v, _, err := ev.Run(context.Background(), []byte(fr))
				if err != nil {
					r.err = err.Error()
				} else {
					r.val = canon.Value(v)
				}
			}()
			if pan != "" {
				return
			}
			out = append(out, r)
		}
		return
	}
	c.Count("declared_sessions")
	want, p1 := runSession(false)
	got, p2 := runSession(true)
	wit := c13wit{Disabled: []string{name}, Frags: frags, Why: fmt.Sprintf("declared-session disableAt=%d pre=%v", disableAt, pre), Opt: true}
	if p1 != "" || p2 != "" {
		c.Violation("C13|eval-panic", "Eval panics: "+p1+p2, wit)
		return
	}
	for i := range want {
		if want[i].err != "" {
			c.Count("declared_session_fragment_error_in_baseline")
		}
		if got[i] != want[i] {
			wit.Why += fmt.Sprintf(" fragment %d: without DisableBuiltin {%s %s}, with {%s %s}", i, want[i].val, want[i].err, got[i].val, got[i].err)
			c.Violation("C13|declared-name-affected|"+name, "a variable the script declared stops working after DisableBuiltin of the same name: fragment "+frags[i]+" gives "+got[i].val+got[i].err+" instead of "+want[i].val+want[i].err, wit)
			return
		}
		c.Count("declared_session_fragments_equal")
	}
}

func c13declForms(name string) []string {
	return []string{
		name + " := func(...s) { return 42 }",
		"var " + name + " = func(...s) { return 43 }",
		"const " + name + " = func(...s) { return 44 }",
		name + ", q := [func(...s) { return 45 }, 1]",
		"global " + name,
		"var (\n  q = 1\n  " + name + " = func(...s) { return 46 }\n)",
	}
}

func (m c13) Run(c *core.Ctx) {
	c13wrapBuiltins()
	all := c13allNames()
	if c.Replay != nil {
		var w c13wit
		if json.Unmarshal(c.Replay, &w) == nil && w.Program != nil {
			if a, ok := c13analyse(w.Program); ok {
				m.checkCompile(c, w.Program, a, w.Disabled, w.Opt, parseIntArgs(w.Program.Args))
			}
		}
		return
	}
	// Eval sessions: disable before the session and between fragments
	evalFrags := [][]string{
		{"global L\nx := len(\"ab\")", "y := len(\"abc\") + x", "f := func() { return len(\"q\") }\nf()", "[x, y]"},
		{"global L\nf := func(a) { return string(a) }", "f(1)", "g := func() { return func() { return string(2) } }\ng()()", "const k = string(5)\nk"},
		{"global L\na := int(\"5\")", "b := int(\"6\") + a", "if a > 0 {\n  c := int(\"7\")\n  L(c)\n}\nb"},
	}
	evalNames := []string{"len", "string", "int"}
	// the same sessions with failing fragments in between (parse error, unresolved name, a reference to the disabled
	// builtin repeated as a "retry", a run-time error): the disabled builtin stays unreachable afterwards
	for si := 0; si < 3; si++ {
		name := evalNames[si]
		for _, bad := range []string{"x := := 1", "undefinedName1 + 1", "zz := " + name + "(\"r\")", "[1][5]", "throw \"t\""} {
			var fr []string
			for _, f := range evalFrags[si] {
				fr = append(fr, f, bad, "yy := "+name+"(\"retry\")")
			}
			evalFrags = append(evalFrags, fr)
			evalNames = append(evalNames, name)
		}
	}
	idx := 0
	for si, frags := range evalFrags {
		for at := 0; at <= len(frags); at++ {
			idx++
			if idx%c.NBatch != c.Batch {
				continue
			}
			if !c.Begin(func() string { return fmt.Sprintf("eval session %d disable %s at %d", si, evalNames[si], at) }) {
				continue
			}
			m.evalSession(c, frags, at, evalNames[si])
			c.Nontrivial(fmt.Sprintf("eval%d@%d", si, at))
		}
	}
	for _, name := range []string{"len", "string", "int", "typeName", "append", "error"} {
		for di, d := range c13declForms(name) {
			frags := []string{"global L\na := [1, 2, 3]", d, "r1 := " + name + "(a)", "f := func() { return " + name + "(\"zz\") }\nf()", "g := func() { return func() { return " + name + "(1) } }\n[r1, " + name + "(1), g()()]"}
			for at := 2; at <= len(frags); at++ {
				for _, pre := range []bool{false, true} {
					idx++
					if idx%c.NBatch != c.Batch {
						continue
					}
					if !c.Begin(func() string {
						return fmt.Sprintf("declared session %s form %d disable at %d pre=%v", name, di, at, pre)
					}) {
						continue
					}
					m.declaredSession(c, frags, name, at, pre)
					c.Nontrivial(fmt.Sprintf("decl-%s-%d-%d-%v", name, di, at, pre))
				}
			}
		}
	}
	// every builtin name, disabled alone and together with all others: a bare reference in the main script, in a nested
	// function and in a source module is rejected
	for _, name := range all {
		idx++
		if idx%c.NBatch != c.Batch {
			continue
		}
		name := name
		if !c.Begin(func() string { return "each-name " + name }) {
			continue
		}
		for _, disabled := range [][]string{{name}, all} {
			for _, src := range []string{"return " + name, "f := func() {\n  return func() { return " + name + " }\n}\nreturn f()()", "return import(\"m\")"} {
				for _, noopt := range []bool{true, false} {
					mm := ugo.NewModuleMap()
					mm.AddSourceModule("m", []byte("x := "+name+"\nreturn x\n"))
					cr := safeCompile([]byte(src), ugo.CompilerOptions{SymbolTable: c13symtab(disabled), ModuleMap: mm, NoOptimize: noopt})
					c.Count("each_name_compiles")
					if cr.panicv != "" {
						c.Violation("C13|compile-panic|"+cr.ptop, "Compile panics: "+cr.panicv, c13wit{Disabled: []string{name}, Why: "each-name " + src})
						continue
					}
					if cr.err == nil {
						names, _ := scanGetBuiltin(cr.bc)
						c.Violation("C13|disabled-reference-accepted|each|"+name, fmt.Sprintf("a reference to the disabled builtin %q compiles (GETBUILTIN operands: %v)", name, names), c13wit{Disabled: disabled, Why: "each-name: " + src, Opt: !noopt})
					}
				}
			}
		}
		c.Nontrivial("each-name " + name)
	}
	// references inside statically removed branches. The statement of the property ("every reference to the name is a
	// compile error") is read literally here; the compiler does not compile a branch whose condition is a literal, so
	// such a reference is accepted - recorded as a known finding (known_findings.json). What must hold in any case: the
	// Bytecode holds no reference to the builtin.
	for di, src := range []string{
		"if false {\n  return len(\"x\")\n}\nreturn 1",
		"return true ? 1 : len(\"x\")",
		"if true {\n  return 1\n} else {\n  return len(\"x\")\n}",
		"f := func() {\n  if false {\n    return len\n  }\n  return 2\n}\nreturn f()",
	} {
		idx++
		if idx%c.NBatch != c.Batch {
			continue
		}
		src := src
		if !c.Begin(func() string { return "dead-branch reference\n" + src }) {
			continue
		}
		for _, noopt := range []bool{true, false} {
			cr := safeCompile([]byte(src), ugo.CompilerOptions{SymbolTable: c13symtab([]string{"len"}), NoOptimize: noopt})
			c.Count("dead_branch_reference_compiles")
			w := c13wit{Disabled: []string{"len"}, Why: "dead-branch reference: " + src, Opt: !noopt}
			switch {
			case cr.panicv != "":
				c.Violation("C13|compile-panic|"+cr.ptop, "Compile panics: "+cr.panicv, w)
			case cr.err != nil:
				if strings.Contains(cr.err.Error(), "unresolved reference \"len\"") {
					c.Count("dead_branch_reference_rejected")
				} else {
					c.Violation("C13|dead-branch-other-error", "a script whose only reference to the disabled builtin is in a removed branch fails with another error: "+cr.err.Error(), w)
				}
			default:
				if names, _ := scanGetBuiltin(cr.bc); names["len"] > 0 {
					c.Violation("C13|getbuiltin-in-bytecode|dead-branch|len", "the Bytecode references the disabled builtin len", w)
				} else {
					c.Violation("C13|known-shape|reference-in-removed-branch-accepted", "a reference to the disabled builtin \"len\" inside a statically removed branch is not a compile error (the Bytecode holds no reference to it)", w)
				}
			}
		}
		c.Nontrivial(fmt.Sprintf("dead-branch %d", di))
	}
	// fixed probes: shadowing and module cases
	probes := []*Program{
		{Src: "global L\nlen := func(x) { return 99 }\nreturn len(\"abc\")"},
		{Src: "global L\nf := func(len) { return len(1) }\nreturn f(func(x) { return x })"},
		{Src: "global L\nfor len in [1, 2] {\n  L(len)\n}\nreturn 1"},
		{Src: "global L\ntry {\n  throw \"x\"\n} catch len {\n  L(len.Message)\n}\nreturn 1"},
		{Src: "global L\nreturn import(\"m1\")()", Modules: map[string]string{"m1": "return func() { return import(\"m2\") }\n", "m2": "return len(\"abcd\")\n"}},
		{Src: "global L\nconst n = len(\"abc\")\nreturn n"},
		{Src: "global L\nx, y := [len(\"a\"), 2]\nreturn x + y"},
		{Src: "global L\nreturn [1, 2, 3][len(\"a\")]"},
		{Src: "global L\nf := func() {\n  g := func() {\n    return len(\"abc\")\n  }\n  return g()\n}\nreturn f()"},
		{Src: "global L\nreturn (false ? len(\"x\") : 5)"},
		{Src: "global L\nif false {\n  L(len(\"x\"))\n}\nreturn 5"},
	}
	for pi, p := range probes {
		idx++
		if idx%c.NBatch != c.Batch {
			continue
		}
		p := p
		if !c.Begin(func() string { return p.Src }) {
			continue
		}
		a, ok := c13analyse(p)
		if !ok {
			continue
		}
		for _, d := range [][]string{{"len"}, all, {"string"}} {
			for _, opt := range []bool{false, true} {
				m.checkCompile(c, p, a, d, opt, nil)
			}
		}
		c.Nontrivial(fmt.Sprintf("probe%d", pi))
	}
	// generated programs
	n := c.Pick(250, 12000)
	o := gen.Opts{MaxStmts: 22, MaxDepth: 4, ExprDepth: 3, Try: 0.3, Throw: 0.08, Funcs: 0.7, Shadow: 0.15, BuiltinShadow: 0.12, LogProb: 0.1,
		Consts: 0.6, Globals: true, DeepRecursion: 10, Faults: 0.002}
	for i := 0; i < n; i++ {
		o.Modules = 0
		if c.Rng.Intn(3) == 0 {
			o.Modules = 1 + c.Rng.Intn(3)
		}
		o.Params = c.Rng.Intn(2)
		gp := gen.Generate(c.Rng, o)
		p := fromGen(gp)
		args := make([]ugo.Object, o.Params)
		for j := range args {
			args[j] = ugo.Int(c.Rng.Intn(5) - 1)
		}
		p.Args = renderArgs(args)
		// choose the D sets deterministically before Begin (keeps the PRNG stream identical when skipping)
		var dsets [][]string
		a, ok := c13analyse(p)
		var mentioned []string
		if ok {
			for w := range a.mentioned {
				mentioned = append(mentioned, w)
			}
			sort.Strings(mentioned)
		}
		for k := 0; k < 4 && len(mentioned) > 0; k++ {
			dsets = append(dsets, []string{mentioned[c.Rng.Intn(len(mentioned))]})
		}
		dsets = append(dsets, all)
		for k := 0; k < 2; k++ {
			var sub []string
			for _, w := range all {
				if c.Rng.Intn(3) == 0 {
					sub = append(sub, w)
				}
			}
			dsets = append(dsets, sub)
		}
		if !c.Begin(func() string { return p.Src + fmt.Sprintf("\n// modules %v", p.Modules) }) {
			continue
		}
		if !ok {
			c.Count("discarded_unparsable")
			continue
		}
		for _, d := range dsets {
			for _, opt := range []bool{false, true} {
				m.checkCompile(c, p, a, d, opt, args)
			}
			inter := false
			for _, x := range d {
				if a.mentioned[x] {
					inter = true
				}
			}
			if inter {
				c.Nontrivial(progHash(p) + strings.Join(d, ","))
			}
		}
		if i%97 == 0 {
			c.Sample(map[string]any{"src": p.Src, "disabled_sets": len(dsets), "live_builtin_refs": fmt.Sprint(a.live)})
		}
	}
}
