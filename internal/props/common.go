package props

import (
	"errors"
	"fmt"
	"path/filepath"
	"runtime/debug"
	"sort"
	"strings"
	"time"

	"github.com/ozanh/ugo"
	"github.com/ozanh/ugo/importers"
	ugofmt "github.com/ozanh/ugo/stdlib/fmt"
	ugojson "github.com/ozanh/ugo/stdlib/json"
	ugostrings "github.com/ozanh/ugo/stdlib/strings"
	ugotime "github.com/ozanh/ugo/stdlib/time"

	"verif/internal/canon"
	"verif/internal/core"
	"verif/internal/ref"
)

// Program is one generated test program.
type Program struct {
	Src     string            `json:"src"`
	Modules map[string]string `json:"modules,omitempty"` // source modules
	Builtin []string          `json:"builtin_modules,omitempty"`
	Args    []string          `json:"args,omitempty"` // rendered args (for witnesses)
	Tags    []string          `json:"tags,omitempty"`
	args    []ugo.Object
}

// stackTopRepo returns the first /repo function in a debug.Stack() dump.
func stackTopRepo(stack string) string {
	for _, ln := range strings.Split(stack, "\n") {
		if strings.Contains(ln, "(*Compiler).Compile.func") {
			continue // the deferred bail-out recover re-panics foreign panics: not the origin
		}
		if strings.HasPrefix(ln, "github.com/ozanh/ugo") {
			if i := strings.LastIndex(ln, "("); i > 0 {
				ln = ln[:i]
			}
			return strings.TrimPrefix(ln, "github.com/ozanh/ugo")
		}
	}
	return "?"
}

// compileResult is the outcome of ugo.Compile under a panic monitor.
type compileResult struct {
	bc     *ugo.Bytecode
	err    error
	panicv string
	ptop   string
}

func safeCompile(src []byte, opts ugo.CompilerOptions) (r compileResult) {
	defer func() {
		if p := recover(); p != nil {
			r.panicv = fmt.Sprint(p)
			r.ptop = stackTopRepo(string(debug.Stack()))
		}
	}()
	r.bc, r.err = ugo.Compile(src, opts)
	return
}

func moduleMapFor(p *Program) *ugo.ModuleMap {
	mm := ugo.NewModuleMap()
	for name, src := range p.Modules {
		mm.AddSourceModule(name, []byte(src))
	}
	for _, b := range p.Builtin {
		if imp := stdlibModule(b); imp != nil {
			mm.Add(b, imp)
		}
	}
	return mm
}

func stdlibModule(name string) ugo.Importable {
	switch name {
	case "fmt":
		return &ugo.BuiltinModule{Attrs: ugofmt.Module}
	case "json":
		return &ugo.BuiltinModule{Attrs: ugojson.Module}
	case "strings":
		return &ugo.BuiltinModule{Attrs: ugostrings.Module}
	case "time":
		return &ugo.BuiltinModule{Attrs: ugotime.Module}
	case "plugins":
		// synthetic builtin module with nested mutable attributes, empty and non-empty (fresh per module map)
		return &ugo.BuiltinModule{Attrs: map[string]ugo.Object{
			"registry": ugo.Map{}, "list": ugo.Array{}, "state": ugo.Map{"n": ugo.Int(0)}, "log": ugo.Array{ugo.Int(0)},
			"nested": ugo.Map{"inner": ugo.Map{}, "arr": ugo.Array{ugo.Map{}}}, "buf": ugo.Bytes{0, 0},
			"sync": &ugo.SyncMap{Value: ugo.Map{}}, "version": ugo.Int(1),
		}}
	}
	return nil
}

// memFileImporter is the repository's importers.FileImporter over an in-memory flat directory: files are found by their
// base name, whatever (relative or absolute) directory the importer derives for them.
func memFileImporter(files map[string]string, workDir string, reads *int) *importers.FileImporter {
	return &importers.FileImporter{WorkDir: workDir, FileReader: func(path string) ([]byte, error) {
		if reads != nil {
			*reads++
			if *reads > 10000 {
				return nil, fmt.Errorf("runaway import chain: more than 10000 file reads")
			}
		}
		src, ok := files[filepath.Base(path)]
		if !ok {
			return nil, fmt.Errorf("no such file %s", filepath.Base(path))
		}
		return []byte(src), nil
	}}
}

// compileProgram compiles p with the given optimizer setting (limit<0: NoOptimize).
func compileProgram(p *Program, optLimit int) compileResult {
	opts := ugo.CompilerOptions{ModuleMap: moduleMapFor(p)}
	if optLimit < 0 {
		opts.NoOptimize = true
	} else {
		opts.OptimizerLimit = optLimit
	}
	return safeCompile([]byte(p.Src), opts)
}

// runVM runs bc with a fresh Recorder installed as global L and returns the canonical outcome.
func runVM(bc *ugo.Bytecode, args []ugo.Object, extraGlobals ugo.Map, recoverOn bool) canon.Outcome {
	rec := &canon.Recorder{}
	g := ugo.Map{"L": rec.Func()}
	for k, v := range extraGlobals {
		g[k] = v
	}
	o := canon.RunBytecode(bc, canon.RunOpts{Recover: recoverOn, Globals: g, Args: args, LogOf: rec.String, Timeout: 20 * time.Second})
	return o
}

// refOutcome is the reference outcome plus run statistics.
type refOutcome struct {
	canon.Outcome
	UserThrown bool
	Discard    string // non-empty: the reference could not give a verdict (budget/unsupported)
	In         *ref.Interp
}

// runRef runs the reference interpreter on the program.
func runRef(p *Program, args []ugo.Object, extraGlobals ugo.Map, stepLimit int) refOutcome {
	var ro refOutcome
	file, err := ref.Parse("(main)", []byte(p.Src))
	if err != nil {
		ro.Discard = "parse: " + err.Error()
		return ro
	}
	rec := &canon.Recorder{}
	g := ugo.Map{"L": rec.Func()}
	for k, v := range extraGlobals {
		g[k] = v
	}
	in := &ref.Interp{Globals: g, Modules: map[string]*ref.Module{}, StepLimit: stepLimit}
	for name, src := range p.Modules {
		in.Modules[name] = &ref.Module{Source: []byte(src)}
	}
	for _, b := range p.Builtin {
		if imp := stdlibModule(b); imp != nil {
			if v, err := imp.Import(b); err == nil {
				if o, ok := v.(ugo.Object); ok {
					in.Modules[b] = &ref.Module{Builtin: o}
				}
			}
		}
	}
	ro.In = in
	var val ugo.Object
	func() {
		defer func() {
			if r := recover(); r != nil {
				ro.Discard = fmt.Sprintf("ref panic: %v", r)
			}
		}()
		val, err = in.Run(file, args)
	}()
	if ro.Discard != "" {
		return ro
	}
	ro.Log = rec.String()
	ro.Globals = canon.Value(g)
	if err != nil {
		var th *ref.Thrown
		if errors.As(err, &th) {
			ro.Kind = "error"
			ro.ErrName, ro.ErrMsg = canon.ErrParts(th.Err)
			ro.UserThrown = th.UserThrown
			return ro
		}
		ro.Discard = err.Error()
		return ro
	}
	ro.Kind = "value"
	ro.Value = canon.Value(val)
	return ro
}

// sameOutcome compares a VM outcome with the reference outcome. Messages of
// runtime (non user-thrown) errors are not compared (the documents do not fix them).
func sameOutcome(vm canon.Outcome, r refOutcome) (bool, string) {
	if vm.Kind != r.Kind {
		return false, "kind: vm=" + vm.Kind + "(" + vm.ErrName + ":" + trunc(vm.ErrMsg, 80) + ") ref=" + r.Kind + "(" + r.ErrName + ")"
	}
	if vm.Log != r.Log {
		return false, "event log differs"
	}
	switch vm.Kind {
	case "value":
		if vm.Value != r.Value {
			return false, "returned value differs"
		}
	case "error":
		if normName(vm.ErrName) != normName(r.ErrName) {
			return false, "error name differs: vm=" + vm.ErrName + " ref=" + r.ErrName
		}
		if r.UserThrown && vm.ErrMsg != r.ErrMsg {
			return false, "thrown message differs"
		}
	}
	if vm.Globals != r.Globals {
		return false, "globals differ"
	}
	return true, ""
}

func normName(n string) string {
	if n == "" {
		return "error"
	}
	return n
}

func trunc(s string, n int) string {
	if len(s) > n {
		return s[:n] + "…"
	}
	return s
}

func renderArgs(args []ugo.Object) []string {
	out := make([]string, len(args))
	for i, a := range args {
		out[i] = canon.Value(a)
	}
	return out
}

func sortedKeys(m map[string]int) []string {
	ks := make([]string, 0, len(m))
	for k := range m {
		ks = append(ks, k)
	}
	sort.Strings(ks)
	return ks
}

// countFeatures copies interpreter feature counters into the evidence counters.
func countFeatures(c *core.Ctx, in *ref.Interp, prefix string) {
	if in == nil {
		return
	}
	for k, v := range in.Features {
		c.CountN(prefix+k, int64(v))
	}
}

// parseIntArgs turns rendered "i:N" arguments of a witness back into values.
func parseIntArgs(rendered []string) []ugo.Object {
	var out []ugo.Object
	for _, r := range rendered {
		var n int64
		fmt.Sscanf(strings.TrimPrefix(r, "i:"), "%d", &n)
		out = append(out, ugo.Int(n))
	}
	return out
}

// stopExploring reports whether the batch should stop generating new cases because several runs
// already needed the watchdog (each further non-terminating run costs the full watchdog time; the
// violations found so far are kept).
func stopExploring(c *core.Ctx) bool {
	if canon.TooManyTimeouts() {
		c.Count("stopped_early_after_3_watchdog_timeouts")
		return true
	}
	return false
}
