// Package json: see package verif/internal/collide/time.
package json

type RawMessage []byte
type Number string
