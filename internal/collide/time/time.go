// Package time declares types whose printed names ("time.Time", "time.Duration", ...) equal those of supported types
// from other packages. They are NOT supported by the conversion functions.
package time

type Time struct{ X int }
type Duration int64
type Location struct{ Name string }
type Month int
