// Package core is the shared driver of all property monitors: process model
// (parent orchestrator / child workers), case logging for crash attribution,
// result aggregation, known-finding matching and evidence writing.
package core

import (
	"bufio"
	"bytes"
	"crypto/sha256"
	"encoding/binary"
	"encoding/hex"
	"encoding/json"
	"fmt"
	"hash/fnv"
	"math/rand"
	"os"
	"os/exec"
	"path/filepath"
	"regexp"
	"runtime"
	"sort"
	"strconv"
	"strings"
	"sync"
	"syscall"
	"time"
)

// Monitor is implemented once per property.
type Monitor interface {
	ID() string
	// Level is the MANIFEST category: exploration | fault_enumeration.
	Level() string
	// Rule describes generation and the non-triviality rule (evidence.coverage.rule).
	Rule() string
	// Batches returns how many independent batches the tier is cut into.
	Batches(tier string) int
	// Run executes one batch in a child process.
	Run(c *Ctx)
	// Race reports whether the batch must run in the -race binary.
	Race() bool
	// Required lists counters that must be non-zero for the run to count
	// (a run that observed nothing is broken, exit 2).
	Required(tier string) []string
	// Assumptions is the trusted base written into evidence.
	Assumptions() []string
}

// Violation is one refutation witness.
type Violation struct {
	Fingerprint string          `json:"fingerprint"`
	What        string          `json:"what"`
	Witness     json.RawMessage `json:"witness"`
}

// BatchResult is what a child writes at the end of a batch.
type BatchResult struct {
	Batch        int                 `json:"batch"`
	Evaluations  int64               `json:"evaluations"`
	Counters     map[string]int64    `json:"counters"`
	Samples      []any               `json:"samples"`
	Violations   []Violation         `json:"violations"`
	Inconclusive []string            `json:"inconclusive"`
	Sets         map[string][]string `json:"sets"`
	Done         bool                `json:"done"`
}

// Ctx is handed to Monitor.Run in the child.
type Ctx struct {
	Prop       string
	Tier       string
	Seed       int64
	Batch      int
	NBatch     int
	Rng        *rand.Rand
	Replay     json.RawMessage // non-nil: replay mode, monitor should run only this witness
	skip       int64
	caseNo     int64
	caseLog    *os.File
	violLog    *os.File // violations are journaled at once so that a later crash of the child does not lose them
	res        BatchResult
	nt         map[uint64]struct{}
	ntFile     string
	vseen      map[string]int
	mu         sync.Mutex
	maxSamples int
}

// Thorough reports whether the tier is "thorough".
func (c *Ctx) Thorough() bool { return c.Tier == "thorough" }

// Pick returns q for quick tier and t for thorough.
func (c *Ctx) Pick(q, t int) int {
	if c.Thorough() {
		return t
	}
	return q
}

// Begin logs the case (so a crash is attributable) and reports whether it
// has to be executed (false while skipping to a restart point).
func (c *Ctx) Begin(desc func() string) bool {
	c.mu.Lock()
	defer c.mu.Unlock()
	c.caseNo++
	if c.caseNo <= c.skip {
		return false
	}
	if c.caseLog != nil {
		d := desc()
		if len(d) > 1<<16 {
			d = d[:1<<16]
		}
		line := strconv.FormatInt(c.caseNo, 10) + "\t" + strconv.Quote(d) + "\n"
		_, _ = c.caseLog.WriteString(line)
	}
	c.res.Evaluations++
	return true
}

// Eval counts an evaluation without logging a case (cheap inner evaluations).
func (c *Ctx) Eval(n int) {
	c.mu.Lock()
	c.res.Evaluations += int64(n)
	c.mu.Unlock()
}

// Count bumps a named counter.
func (c *Ctx) Count(key string) { c.CountN(key, 1) }

// CountN bumps a named counter by n.
func (c *Ctx) CountN(key string, n int64) {
	c.mu.Lock()
	c.res.Counters[key] += n
	c.mu.Unlock()
}

// Nontrivial records a distinct non-trivial case by its identity string.
func (c *Ctx) Nontrivial(identity string) {
	h := fnv.New64a()
	_, _ = h.Write([]byte(identity))
	c.mu.Lock()
	c.nt[h.Sum64()] = struct{}{}
	c.mu.Unlock()
}

// SetAdd adds a member to a named small set (e.g. interleaving signatures).
func (c *Ctx) SetAdd(set, member string) {
	c.mu.Lock()
	defer c.mu.Unlock()
	for _, m := range c.res.Sets[set] {
		if m == member {
			return
		}
	}
	if len(c.res.Sets[set]) < 4096 {
		c.res.Sets[set] = append(c.res.Sets[set], member)
	}
}

// Sample stores up to a few actual cases for the evidence file.
func (c *Ctx) Sample(x any) {
	c.mu.Lock()
	if len(c.res.Samples) < c.maxSamples {
		c.res.Samples = append(c.res.Samples, x)
	}
	c.mu.Unlock()
}

// Violation records a witness. Only the first 3 witnesses per fingerprint are kept.
func (c *Ctx) Violation(fingerprint, what string, witness any) {
	c.mu.Lock()
	defer c.mu.Unlock()
	c.vseen[fingerprint]++
	if c.vseen[fingerprint] > 3 {
		c.res.Counters["violations_suppressed_same_fingerprint"]++
		return
	}
	w, err := json.Marshal(witness)
	if err != nil {
		w, _ = json.Marshal(fmt.Sprintf("%#v", witness))
	}
	v := Violation{fingerprint, what, w}
	c.res.Violations = append(c.res.Violations, v)
	if c.violLog != nil {
		if line, err := json.Marshal(v); err == nil {
			_, _ = c.violLog.Write(append(line, '\n'))
		}
	}
}

// Inconclusive records a case on which no verdict could be made.
func (c *Ctx) Inconclusive(why string) {
	c.mu.Lock()
	if len(c.res.Inconclusive) < 50 {
		c.res.Inconclusive = append(c.res.Inconclusive, why)
	}
	c.res.Counters["inconclusive"]++
	c.mu.Unlock()
}

// ---------------------------------------------------------------------------

var monitors = map[string]Monitor{}

// Register adds a monitor.
func Register(m Monitor) { monitors[m.ID()] = m }

// Get returns a monitor.
func Get(id string) Monitor { return monitors[id] }

// IDs lists registered monitors.
func IDs() []string {
	var ids []string
	for k := range monitors {
		ids = append(ids, k)
	}
	sort.Strings(ids)
	return ids
}

// VerifDir is /verif (overridable for vp run snapshots).
func VerifDir() string {
	if d := os.Getenv("VERIF_DIR"); d != "" {
		return d
	}
	return "/verif"
}

func seedFromEnv() int64 {
	s := os.Getenv("VERIF_SEED")
	if s == "" {
		return 1
	}
	v, err := strconv.ParseInt(s, 10, 64)
	if err != nil {
		return 1
	}
	return v
}

// WorkerMain is the child entry point.
func WorkerMain(args []string) int {
	// args: prop tier seed batch nbatch outdir skip
	if len(args) < 7 {
		fmt.Fprintln(os.Stderr, "worker: bad args")
		return 3
	}
	m := Get(args[0])
	if m == nil {
		fmt.Fprintln(os.Stderr, "worker: unknown property", args[0])
		return 3
	}
	seed, _ := strconv.ParseInt(args[2], 10, 64)
	batch, _ := strconv.Atoi(args[3])
	nbatch, _ := strconv.Atoi(args[4])
	outdir := args[5]
	skip, _ := strconv.ParseInt(args[6], 10, 64)

	if !m.Race() {
		// make absurd allocations fail at once and attributably
		lim := uint64(12 << 30)
		_ = syscall.Setrlimit(syscall.RLIMIT_AS, &syscall.Rlimit{Cur: lim, Max: lim})
	}

	cl, err := os.OpenFile(filepath.Join(outdir, fmt.Sprintf("cases.%d.log", batch)),
		os.O_CREATE|os.O_WRONLY|os.O_APPEND, 0o644)
	if err != nil {
		fmt.Fprintln(os.Stderr, "worker:", err)
		return 3
	}
	c := newCtx(m.ID(), args[1], seed, batch, nbatch)
	c.skip = skip
	c.caseLog = cl
	c.violLog, _ = os.OpenFile(filepath.Join(outdir, fmt.Sprintf("viol.%d.%d.jsonl", batch, skip)),
		os.O_CREATE|os.O_WRONLY|os.O_APPEND, 0o644)
	m.Run(c)
	c.res.Done = true
	return writeResult(c, outdir, batch, skip)
}

func newCtx(prop, tier string, seed int64, batch, nbatch int) *Ctx {
	c := &Ctx{Prop: prop, Tier: tier, Seed: seed, Batch: batch, NBatch: nbatch}
	c.Rng = rand.New(rand.NewSource(seed*1000003 + int64(batch)*7919 + 17))
	c.res.Counters = map[string]int64{}
	c.res.Sets = map[string][]string{}
	c.res.Batch = batch
	c.nt = map[uint64]struct{}{}
	c.vseen = map[string]int{}
	c.maxSamples = 4
	return c
}

func writeResult(c *Ctx, outdir string, batch int, skip int64) int {
	b, err := json.Marshal(&c.res)
	if err != nil {
		fmt.Fprintln(os.Stderr, "worker: marshal:", err)
		return 3
	}
	name := filepath.Join(outdir, fmt.Sprintf("result.%d.%d.json", batch, skip))
	if err := os.WriteFile(name, b, 0o644); err != nil {
		fmt.Fprintln(os.Stderr, "worker:", err)
		return 3
	}
	nb := make([]byte, 0, 8*len(c.nt))
	for h := range c.nt {
		nb = binary.LittleEndian.AppendUint64(nb, h)
	}
	if err := os.WriteFile(filepath.Join(outdir, fmt.Sprintf("nt.%d.%d.bin", batch, skip)), nb, 0o644); err != nil {
		return 3
	}
	return 0
}

// ---------------------------------------------------------------------------

// KnownFinding is an entry of known_findings.json.
type KnownFinding struct {
	Property    string          `json:"property"`
	Fingerprint string          `json:"fingerprint"`
	What        string          `json:"what"`
	Witness     json.RawMessage `json:"witness,omitempty"`
}

// FixedFinding is a repaired defect (suppresses nothing).
type FixedFinding struct {
	Property string `json:"property"`
	Commit   string `json:"commit"`
	What     string `json:"what"`
	Line     string `json:"line"`
}

// KnownFile is known_findings.json.
type KnownFile struct {
	Findings []KnownFinding `json:"findings"`
	Fixed    []FixedFinding `json:"fixed"`
}

func loadKnown() KnownFile {
	var kf KnownFile
	b, err := os.ReadFile(filepath.Join(VerifDir(), "known_findings.json"))
	if err == nil {
		_ = json.Unmarshal(b, &kf)
	}
	return kf
}

type aggregate struct {
	evals    int64
	counters map[string]int64
	samples  []any
	viol     []Violation
	incon    []string
	sets     map[string]map[string]struct{}
	nt       map[uint64]struct{}
	crashes  int
	infra    []string
}

// ParentMain runs a whole check: spawn children, aggregate, decide, write evidence.
func ParentMain(prop, tier string, replayPath string) int {
	m := Get(prop)
	if m == nil {
		fmt.Fprintln(os.Stderr, "unknown property", prop)
		return 3
	}
	if replayPath != "" {
		return replayMain(m, tier, replayPath)
	}
	start := time.Now()
	seed := seedFromEnv()
	self, _ := os.Executable()
	exe := self
	if m.Race() {
		exe = filepath.Join(filepath.Dir(self), "vcheck.race")
	}
	outdir, err := os.MkdirTemp(workRoot(), prop+"-"+tier+"-")
	if err != nil {
		fmt.Fprintln(os.Stderr, err)
		return 3
	}
	defer os.RemoveAll(outdir)

	nb := m.Batches(tier)
	par := runtime.NumCPU()
	if v, err := strconv.Atoi(os.Getenv("VERIF_PAR")); err == nil && v > 0 {
		par = v
	}
	ag := &aggregate{counters: map[string]int64{}, sets: map[string]map[string]struct{}{}, nt: map[uint64]struct{}{}}
	var mu sync.Mutex
	sem := make(chan struct{}, par)
	var wg sync.WaitGroup
	for b := 0; b < nb; b++ {
		wg.Add(1)
		sem <- struct{}{}
		go func(b int) {
			defer wg.Done()
			defer func() { <-sem }()
			runBatch(m, exe, tier, seed, b, nb, outdir, ag, &mu)
		}(b)
	}
	wg.Wait()
	return decide(m, tier, seed, ag, time.Since(start).Seconds())
}

func workRoot() string {
	d := filepath.Join(VerifDir(), "work")
	_ = os.MkdirAll(d, 0o755)
	return d
}

var crashLineRe = regexp.MustCompile(`(?m)^(fatal error: .*|panic: .*|SIG[A-Z]+: .*|runtime: out of memory.*|WARNING: DATA RACE)$`)

func batchTimeout(tier string) time.Duration {
	if v, err := strconv.Atoi(os.Getenv("VERIF_BATCH_TIMEOUT_S")); err == nil && v > 0 {
		return time.Duration(v) * time.Second
	}
	if tier == "thorough" {
		return 60 * time.Minute
	}
	return 15 * time.Minute
}

func runBatch(m Monitor, exe, tier string, seed int64, b, nb int, outdir string, ag *aggregate, mu *sync.Mutex) {
	var skip int64
	restarts := 0
	for {
		errFile := filepath.Join(outdir, fmt.Sprintf("stderr.%d.%d.txt", b, skip))
		ef, _ := os.Create(errFile)
		cmd := exec.Command(exe, "worker", m.ID(), tier, strconv.FormatInt(seed, 10),
			strconv.Itoa(b), strconv.Itoa(nb), outdir, strconv.FormatInt(skip, 10))
		cmd.Stdout = ef
		cmd.Stderr = ef
		cmd.Env = append(os.Environ(), "GOTRACEBACK=all")
		if m.Race() {
			cmd.Env = append(cmd.Env, "GORACE=halt_on_error=0 log_path="+filepath.Join(outdir, fmt.Sprintf("race.%d.%d", b, skip)))
		}
		if err := cmd.Start(); err != nil {
			ef.Close()
			mu.Lock()
			ag.infra = append(ag.infra, "cannot start child: "+err.Error())
			mu.Unlock()
			return
		}
		timedOut := false
		timer := time.AfterFunc(batchTimeout(tier), func() {
			timedOut = true
			_ = cmd.Process.Signal(syscall.SIGQUIT)
			time.Sleep(3 * time.Second)
			_ = cmd.Process.Kill()
		})
		werr := cmd.Wait()
		timer.Stop()
		ef.Close()

		resFile := filepath.Join(outdir, fmt.Sprintf("result.%d.%d.json", b, skip))
		rb, rerr := os.ReadFile(resFile)
		var res BatchResult
		if rerr == nil {
			rerr = json.Unmarshal(rb, &res)
		}
		mu.Lock()
		// race reports
		if m.Race() {
			collectRaces(m, outdir, b, skip, ag)
		}
		if rerr == nil && res.Done {
			mergeResult(ag, &res)
			ntb, _ := os.ReadFile(filepath.Join(outdir, fmt.Sprintf("nt.%d.%d.bin", b, skip)))
			for i := 0; i+8 <= len(ntb); i += 8 {
				ag.nt[binary.LittleEndian.Uint64(ntb[i:])] = struct{}{}
			}
			if werr != nil && !(m.Race() && strings.Contains(werr.Error(), "exit status 66")) {
				// (exit status 66 is the race detector's exit code: its reports were collected above)
				ag.infra = append(ag.infra, fmt.Sprintf("batch %d: child wrote result but exited with %v", b, werr))
			}
			mu.Unlock()
			return
		}
		// the child died: keep the violations it had journaled, then attribute the death to the last logged case
		if vb, err := os.ReadFile(filepath.Join(outdir, fmt.Sprintf("viol.%d.%d.jsonl", b, skip))); err == nil {
			for _, ln := range bytes.Split(vb, []byte("\n")) {
				var v Violation
				if len(ln) > 0 && json.Unmarshal(ln, &v) == nil {
					ag.viol = append(ag.viol, v)
				}
			}
		}
		lastNo, lastDesc := lastCase(filepath.Join(outdir, fmt.Sprintf("cases.%d.log", b)))
		stderrText, _ := os.ReadFile(errFile)
		if timedOut {
			ag.incon = append(ag.incon, fmt.Sprintf("batch %d: watchdog fired at case %d: %s", b, lastNo, trunc(lastDesc, 300)))
			ag.counters["inconclusive"]++
			ag.counters["watchdog_fired"]++
			saveLog(m.ID(), "watchdog", stderrText)
			mu.Unlock()
			skip = lastNo
			restarts++
			if restarts > 5 {
				mu.Lock()
				ag.infra = append(ag.infra, fmt.Sprintf("batch %d: too many watchdog restarts", b))
				mu.Unlock()
				return
			}
			continue
		}
		if lastNo <= skip {
			ag.infra = append(ag.infra, fmt.Sprintf("batch %d: child died before any case (%v): %s", b, werr, trunc(string(stderrText), 600)))
			mu.Unlock()
			return
		}
		ag.crashes++
		line := "exit: " + fmt.Sprint(werr)
		if mm := crashLineRe.FindString(string(stderrText)); mm != "" {
			line = mm
		}
		fp := "crash|" + CrashClass(line, string(stderrText))
		w, _ := json.Marshal(map[string]any{"case": lastDesc, "stderr_head": trunc(string(stderrText), 3000)})
		ag.viol = append(ag.viol, Violation{fp, "process crash (" + trunc(line, 160) + ") on case " + trunc(lastDesc, 300), w})
		mu.Unlock()
		skip = lastNo
		restarts++
		if restarts > 200 {
			mu.Lock()
			ag.infra = append(ag.infra, fmt.Sprintf("batch %d: more than 200 crashes, giving up", b))
			mu.Unlock()
			return
		}
	}
}

// CrashClass normalises a fatal line and finds the first /repo frame.
func CrashClass(line, stderr string) string {
	cls := NormMsg(line)
	fn := ""
	sc := bufio.NewScanner(strings.NewReader(stderr))
	sc.Buffer(make([]byte, 1<<20), 1<<20)
	for sc.Scan() {
		t := sc.Text()
		if strings.HasPrefix(t, "github.com/ozanh/ugo") {
			if i := strings.LastIndex(t, "("); i > 0 {
				t = t[:i]
			}
			fn = strings.TrimPrefix(t, "github.com/ozanh/ugo")
			break
		}
	}
	return cls + "|" + fn
}

var (
	numRe  = regexp.MustCompile(`-?\b\d+\b`)
	hexRe  = regexp.MustCompile(`0x[0-9a-fA-F]+`)
	quotRe = regexp.MustCompile(`"[^"]*"`)
)

// NormMsg strips numbers, addresses and quoted payloads from a message.
func NormMsg(s string) string {
	if i := strings.Index(s, "\n"); i >= 0 {
		s = s[:i]
	}
	s = hexRe.ReplaceAllString(s, "H")
	s = quotRe.ReplaceAllString(s, "Q")
	s = numRe.ReplaceAllString(s, "N")
	if len(s) > 160 {
		s = s[:160]
	}
	return s
}

func saveLog(prop, kind string, b []byte) {
	d := filepath.Join(VerifDir(), "replay")
	_ = os.MkdirAll(d, 0o755)
	_ = os.WriteFile(filepath.Join(d, prop+"-"+kind+"-last.txt"), b, 0o644)
}

func trunc(s string, n int) string {
	if len(s) > n {
		return s[:n] + "…"
	}
	return s
}

func lastCase(path string) (int64, string) {
	b, err := os.ReadFile(path)
	if err != nil {
		return 0, ""
	}
	b = bytes.TrimRight(b, "\n")
	i := bytes.LastIndexByte(b, '\n')
	line := string(b[i+1:])
	parts := strings.SplitN(line, "\t", 2)
	if len(parts) != 2 {
		return 0, ""
	}
	n, _ := strconv.ParseInt(parts[0], 10, 64)
	d, err := strconv.Unquote(parts[1])
	if err != nil {
		d = parts[1]
	}
	return n, d
}

func mergeResult(ag *aggregate, r *BatchResult) {
	ag.evals += r.Evaluations
	for k, v := range r.Counters {
		ag.counters[k] += v
	}
	for _, s := range r.Samples {
		if len(ag.samples) < 5 {
			ag.samples = append(ag.samples, s)
		}
	}
	ag.viol = append(ag.viol, r.Violations...)
	ag.incon = append(ag.incon, r.Inconclusive...)
	for k, ms := range r.Sets {
		if ag.sets[k] == nil {
			ag.sets[k] = map[string]struct{}{}
		}
		for _, x := range ms {
			ag.sets[k][x] = struct{}{}
		}
	}
}

var raceFrameRe = regexp.MustCompile(`(?m)^  (\S+)\(\)\n\s+(\S+?):\d+`)

func collectRaces(m Monitor, outdir string, b int, skip int64, ag *aggregate) {
	files, _ := filepath.Glob(filepath.Join(outdir, fmt.Sprintf("race.%d.%d.*", b, skip)))
	for _, f := range files {
		txt, err := os.ReadFile(f)
		if err != nil {
			continue
		}
		blocks := strings.Split(string(txt), "WARNING: DATA RACE")
		for _, blk := range blocks[1:] {
			ag.counters["race_reports"]++
			// first /repo frame of each of the two access stacks
			secs := regexp.MustCompile(`(?m)^(Previous |)(Read|Write|read|write|atomic [a-z]+) (at|by) `).Split(blk, 3)
			var tops []string
			for _, sec := range secs[1:] {
				top := "?"
				for _, fr := range raceFrameRe.FindAllStringSubmatch(sec, -1) {
					if strings.Contains(fr[1], "ozanh/ugo") {
						top = strings.TrimPrefix(fr[1], "github.com/ozanh/ugo")
						break
					}
				}
				// stop at goroutine section
				tops = append(tops, top)
				if len(tops) == 2 {
					break
				}
			}
			sort.Strings(tops)
			fp := "race|" + strings.Join(tops, "|")
			dup := false
			for _, v := range ag.viol {
				if v.Fingerprint == fp {
					dup = true
					break
				}
			}
			if !dup {
				w, _ := json.Marshal(map[string]any{"report": trunc(blk, 6000)})
				ag.viol = append(ag.viol, Violation{fp, "data race between " + strings.Join(tops, " and "), w})
			}
		}
	}
}

func matchKnown(kf KnownFile, prop string, v Violation) *KnownFinding {
	for i := range kf.Findings {
		k := &kf.Findings[i]
		if k.Property != prop {
			continue
		}
		if k.Fingerprint == v.Fingerprint {
			return k
		}
	}
	return nil
}

func decide(m Monitor, tier string, seed int64, ag *aggregate, wall float64) int {
	kf := loadKnown()
	prop := m.ID()
	knownSeen := map[string]int{}
	var unknown []Violation
	for _, v := range ag.viol {
		if k := matchKnown(kf, prop, v); k != nil {
			knownSeen[k.Fingerprint+"\x00"+k.What]++
		} else {
			unknown = append(unknown, v)
		}
	}
	var knownList []string
	for k := range knownSeen {
		knownList = append(knownList, k)
	}
	sort.Strings(knownList)
	for _, k := range knownList {
		parts := strings.SplitN(k, "\x00", 2)
		fmt.Printf("KNOWN-FINDING: property=%s %s [%s] (seen %d×)\n", prop, parts[1], parts[0], knownSeen[k])
	}
	exit := 0
	// group unknown by fingerprint; one replay file per fingerprint
	seenFp := map[string]bool{}
	for _, v := range unknown {
		if seenFp[v.Fingerprint] {
			continue
		}
		seenFp[v.Fingerprint] = true
		sum := sha256.Sum256([]byte(v.Fingerprint))
		path := filepath.Join(VerifDir(), "replay", prop+"-"+hex.EncodeToString(sum[:6])+".json")
		_ = os.MkdirAll(filepath.Dir(path), 0o755)
		doc, _ := json.MarshalIndent(map[string]any{
			"property": prop, "fingerprint": v.Fingerprint, "what": v.What, "witness": v.Witness,
			"seed": seed, "tier": tier,
		}, "", " ")
		_ = os.WriteFile(path, doc, 0o644)
		fmt.Printf("VIOLATION property=%s replay=%s\n", prop, path)
		fmt.Printf("  what: %s\n  fingerprint: %s\n", trunc(v.What, 600), v.Fingerprint)
		exit = 1
	}
	for _, s := range ag.incon {
		fmt.Printf("INCONCLUSIVE property=%s %s\n", prop, trunc(s, 400))
	}
	for _, s := range ag.infra {
		fmt.Printf("INFRA property=%s %s\n", prop, trunc(s, 800))
	}

	cov := map[string]any{
		"evaluations":         ag.evals,
		"distinct_nontrivial": len(ag.nt),
		"rule":                m.Rule(),
		"samples":             ag.samples,
		"inconclusive":        ag.counters["inconclusive"],
		"crashes":             ag.crashes,
		"known_findings_seen": len(knownSeen),
		"counters":            ag.counters,
	}
	sets := map[string]any{}
	for k, ms := range ag.sets {
		var l []string
		for x := range ms {
			l = append(l, x)
		}
		sort.Strings(l)
		n := len(l)
		if len(l) > 60 {
			l = l[:60]
		}
		sets[k] = map[string]any{"distinct": n, "members": l}
	}
	cov["observed_sets"] = sets
	if ag.samples == nil {
		cov["samples"] = []any{}
	}
	ev := map[string]any{
		"property_id": prop,
		"tier":        tier,
		"seed":        seed,
		"level":       m.Level(),
		"coverage":    cov,
		"assumptions": m.Assumptions(),
		"wall_s":      wall,
		"violations":  len(seenFp),
	}
	eb, _ := json.MarshalIndent(ev, "", " ")
	_ = os.MkdirAll(filepath.Join(VerifDir(), "evidence"), 0o755)
	if err := os.WriteFile(filepath.Join(VerifDir(), "evidence", prop+".json"), eb, 0o644); err != nil {
		fmt.Fprintln(os.Stderr, "evidence:", err)
		return 3
	}
	if exit == 1 {
		return 1
	}
	// broken-run rules
	if len(ag.infra) > 0 {
		fmt.Printf("BROKEN property=%s infrastructure failure\n", prop)
		return 2
	}
	for _, r := range m.Required(tier) {
		if ag.counters[r] == 0 && len(ag.sets[r]) == 0 {
			fmt.Printf("BROKEN property=%s required observation %q is zero: the workload ran but observed nothing\n", prop, r)
			return 2
		}
	}
	if ag.evals > 0 && float64(ag.counters["inconclusive"]) > 0.02*float64(ag.evals)+1 {
		fmt.Printf("BROKEN property=%s too many inconclusive cases (%d of %d)\n", prop, ag.counters["inconclusive"], ag.evals)
		return 2
	}
	if len(ag.nt) < 2 {
		fmt.Printf("BROKEN property=%s fewer than 2 distinct non-trivial cases\n", prop)
		return 2
	}
	fmt.Printf("OK property=%s tier=%s seed=%d evaluations=%d distinct_nontrivial=%d known_findings_seen=%d wall=%.1fs\n",
		prop, tier, seed, ag.evals, len(ag.nt), len(knownSeen), wall)
	return 0
}

func replayMain(m Monitor, tier, path string) int {
	b, err := os.ReadFile(path)
	if err != nil {
		fmt.Fprintln(os.Stderr, err)
		return 3
	}
	var doc struct {
		Witness json.RawMessage `json:"witness"`
		Seed    int64           `json:"seed"`
	}
	if err := json.Unmarshal(b, &doc); err != nil {
		fmt.Fprintln(os.Stderr, err)
		return 3
	}
	c := newCtx(m.ID(), tier, doc.Seed, 0, 1)
	c.Replay = doc.Witness
	m.Run(c)
	for _, v := range c.res.Violations {
		fmt.Printf("VIOLATION property=%s replay=%s\n  what: %s\n  fingerprint: %s\n", m.ID(), path, v.What, v.Fingerprint)
	}
	if len(c.res.Violations) > 0 {
		return 1
	}
	fmt.Println("replay: no violation reproduced")
	return 0
}

// NewScratchCtx returns a throw-away context (for minimizers) sharing the parent's identity.
func NewScratchCtx(c *Ctx) *Ctx {
	return newCtx(c.Prop, c.Tier, c.Seed, c.Batch, c.NBatch)
}

// NumViolations reports how many violations were recorded in this context.
func (c *Ctx) NumViolations() int {
	c.mu.Lock()
	defer c.mu.Unlock()
	return len(c.res.Violations)
}
