// Package ref is an independent tree-walking definition of uGO's documented
// source-level semantics (docs/tutorial.md, error-handling.md,
// destructuring.md). It shares with the code under test only the parser and
// the value library (operators, indexing, builtin function bodies); it shares
// nothing with the compiler, symbol table, optimizer or VM.
package ref

import (
	"errors"
	"fmt"

	"github.com/ozanh/ugo"
	"github.com/ozanh/ugo/parser"
	"github.com/ozanh/ugo/token"
)

// ErrBudget is returned when the step or depth budget is exhausted (case is discarded).
var ErrBudget = errors.New("ref: budget exhausted")

// Unsupported is returned for constructs whose documented meaning is not fixed (case is discarded).
type Unsupported struct{ Why string }

func (u *Unsupported) Error() string { return "ref: unsupported: " + u.Why }

// Thrown is a script-level error propagating through the interpreter.
type Thrown struct {
	Err        *ugo.RuntimeError
	UserThrown bool // raised by a throw statement (message is script-defined)
}

func (t *Thrown) Error() string { return t.Err.Error() }

// Closure is a script function value of the reference interpreter.
type Closure struct {
	ugo.ObjectImpl
	Fn  *parser.FuncLit
	env *env
	in  *Interp
}

// TypeName implements ugo.Object.
func (*Closure) TypeName() string { return "compiledFunction" }

// String implements ugo.Object.
func (*Closure) String() string { return "<compiledFunction>" }

// IsFalsy implements ugo.Object.
func (*Closure) IsFalsy() bool { return false }

// CanCall implements ugo.Object.
func (*Closure) CanCall() bool { return true }

// Equal implements ugo.Object.
func (c *Closure) Equal(o ugo.Object) bool { x, ok := o.(*Closure); return ok && x == c }

// BinaryOp implements ugo.Object.
func (*Closure) BinaryOp(token.Token, ugo.Object) (ugo.Object, error) {
	return nil, ugo.ErrInvalidOperator
}

// IndexGet implements ugo.Object.
func (*Closure) IndexGet(ugo.Object) (ugo.Object, error) { return nil, ugo.ErrNotIndexable }

// IndexSet implements ugo.Object.
func (*Closure) IndexSet(ugo.Object, ugo.Object) error { return ugo.ErrNotIndexAssignable }

// Call lets Go callbacks (the Invoker-equivalent of the harness) call a script function.
func (c *Closure) Call(args ...ugo.Object) (ugo.Object, error) {
	v, err := c.in.callClosure(c, args)
	if err != nil {
		var th *Thrown
		if errors.As(err, &th) {
			return nil, th.Err
		}
		return nil, err
	}
	return v, nil
}

type bindKind int

const (
	bLocal bindKind = iota
	bGlobal
	// bBoundary marks the start of a lexical scope (block, function body, if/for header); it binds no name
	bBoundary
)

type cell struct {
	v ugo.Object
	// uninit marks a catch identifier whose try body was left by return/break/continue:
	// the documents say it is undefined; reads are counted (Flags) because the
	// implementation is known to read a stale slot there.
	uninit bool
}

type env struct {
	name   string
	kind   bindKind
	cell   *cell
	parent *env
}

func (e *env) lookup(name string) *env {
	for x := e; x != nil; x = x.parent {
		if x.name == name {
			return x
		}
	}
	return nil
}

// globalInScope reports whether name is declared by a global statement in the innermost scope of e.
// (A := over several names re-uses names already declared in the same scope; for a global that is a
// store to the global.)
func (e *env) globalInScope(name string) bool {
	for x := e; x != nil && x.kind != bBoundary; x = x.parent {
		if x.name == name {
			return x.kind == bGlobal
		}
	}
	return false
}

func (e *env) bind(name string, v ugo.Object) *env {
	return &env{name: name, kind: bLocal, cell: &cell{v: v}, parent: e}
}

// Module describes one importable module for the reference run.
type Module struct {
	Source  []byte     // source module
	Builtin ugo.Object // builtin (Go) module value, copied on first import
}

// Interp is one reference run.
type Interp struct {
	Globals   ugo.Object
	Modules   map[string]*Module
	StepLimit int
	DepthMax  int
	// Disabled builtin names (treated as unresolved).
	Disabled map[string]bool

	steps    int
	depth    int
	iota     int
	modCache map[string]ugo.Object
	modFiles map[string]*parser.File
	// Stats observed during the run
	Calls         int
	FinallyAbrupt int // finally blocks entered by a non-normal completion
	ImportsExec   map[string]int
	ImportSites   map[string]int
	Features      map[string]int
	Flags         map[string]int
}

type ctlKind int

const (
	cNormal ctlKind = iota
	cBreak
	cContinue
	cReturn
)

type completion struct {
	kind ctlKind
	val  ugo.Object
}

// Parse parses a script with the repository's parser.
func Parse(name string, src []byte) (*parser.File, error) {
	fs := parser.NewFileSet()
	sf := fs.AddFile(name, -1, len(src))
	p := parser.NewParser(sf, src, nil)
	return p.ParseFile()
}

// Run executes the main script. Returns value, or *Thrown / ErrBudget / *Unsupported.
func (in *Interp) Run(file *parser.File, args []ugo.Object) (ret ugo.Object, err error) {
	if in.Globals == nil {
		in.Globals = ugo.Map{}
	}
	if in.StepLimit == 0 {
		in.StepLimit = 200000
	}
	if in.DepthMax == 0 {
		in.DepthMax = 6000
	}
	in.iota = -1
	in.modCache = map[string]ugo.Object{}
	in.modFiles = map[string]*parser.File{}
	in.ImportsExec = map[string]int{}
	in.ImportSites = map[string]int{}
	if in.Features == nil {
		in.Features = map[string]int{}
	}
	in.Flags = map[string]int{}
	return in.runTop(file.Stmts, args, true)
}

func (in *Interp) runTop(stmts []parser.Stmt, args []ugo.Object, isMain bool) (ugo.Object, error) {
	var e *env
	// param handling: bound where the param statement executes
	c, _, err := in.execStmts(stmts, e, &topCtx{args: args, isMain: isMain})
	if err != nil {
		return nil, err
	}
	if c.kind == cReturn {
		return c.val, nil
	}
	return ugo.Undefined, nil
}

type topCtx struct {
	args   []ugo.Object
	isMain bool
}

func (in *Interp) step() error {
	in.steps++
	if in.steps > in.StepLimit {
		return ErrBudget
	}
	return nil
}

func (in *Interp) feat(s string) { in.Features[s]++ }

// execStmts runs a statement list, threading the environment; returns the env reached.
func (in *Interp) execStmts(stmts []parser.Stmt, e *env, top *topCtx) (completion, *env, error) {
	if top == nil {
		e = &env{kind: bBoundary, parent: e}
	}
	for _, s := range stmts {
		c, ne, err := in.exec(s, e, top)
		e = ne
		if err != nil {
			return completion{}, e, err
		}
		if c.kind != cNormal {
			return c, e, nil
		}
	}
	return completion{}, e, nil
}

func (in *Interp) throwErr(e *ugo.Error) error {
	return &Thrown{Err: &ugo.RuntimeError{Err: e}}
}

// genErr converts an error returned by the value library the way a runtime converts it.
func (in *Interp) genErr(err error) error {
	switch v := err.(type) {
	case *Thrown:
		return v
	case *ugo.RuntimeError:
		return &Thrown{Err: v}
	case *ugo.Error:
		return &Thrown{Err: &ugo.RuntimeError{Err: v}}
	case *Unsupported:
		return v
	}
	if err == ErrBudget {
		return err
	}
	return &Thrown{Err: &ugo.RuntimeError{Err: &ugo.Error{Message: err.Error(), Cause: err}}}
}

func (in *Interp) exec(s parser.Stmt, e *env, top *topCtx) (completion, *env, error) {
	if err := in.step(); err != nil {
		return completion{}, e, err
	}
	switch n := s.(type) {
	case *parser.EmptyStmt:
		return completion{}, e, nil
	case *parser.ExprStmt:
		_, err := in.eval(n.Expr, e)
		return completion{}, e, err
	case *parser.BlockStmt:
		in.feat("block")
		c, _, err := in.execStmts(n.Stmts, e, nil)
		return c, e, err
	case *parser.DeclStmt:
		return in.execDecl(n, e, top)
	case *parser.AssignStmt:
		ne, err := in.execAssign(n, e)
		return completion{}, ne, err
	case *parser.IncDecStmt:
		in.feat("incdec")
		op := token.AddAssign
		if n.Token == token.Dec {
			op = token.SubAssign
		}
		as := &parser.AssignStmt{LHS: []parser.Expr{n.Expr}, RHS: []parser.Expr{&parser.IntLit{Value: 1}}, Token: op}
		ne, err := in.execAssign(as, e)
		return completion{}, ne, err
	case *parser.IfStmt:
		in.feat("if")
		ie := e
		if n.Init != nil {
			ie = &env{kind: bBoundary, parent: e}
			_, ne, err := in.exec(n.Init, ie, nil)
			if err != nil {
				return completion{}, e, err
			}
			ie = ne
		}
		cv, err := in.eval(n.Cond, ie)
		if err != nil {
			return completion{}, e, err
		}
		if !cv.IsFalsy() {
			c, _, err := in.exec(n.Body, ie, nil)
			return c, e, err
		}
		if n.Else != nil {
			c, _, err := in.exec(n.Else, ie, nil)
			return c, e, err
		}
		return completion{}, e, nil
	case *parser.ForStmt:
		in.feat("for")
		fe := e
		if n.Init != nil {
			fe = &env{kind: bBoundary, parent: e}
			_, ne, err := in.exec(n.Init, fe, nil)
			if err != nil {
				return completion{}, e, err
			}
			fe = ne
		}
		for {
			if err := in.step(); err != nil {
				return completion{}, e, err
			}
			if n.Cond != nil {
				cv, err := in.eval(n.Cond, fe)
				if err != nil {
					return completion{}, e, err
				}
				if cv.IsFalsy() {
					break
				}
			}
			c, _, err := in.exec(n.Body, fe, nil)
			if err != nil {
				return completion{}, e, err
			}
			if c.kind == cBreak {
				in.feat("break")
				break
			}
			if c.kind == cReturn {
				return c, e, nil
			}
			if c.kind == cContinue {
				in.feat("continue")
			}
			if n.Post != nil {
				if _, _, err := in.exec(n.Post, fe, nil); err != nil {
					return completion{}, e, err
				}
			}
		}
		return completion{}, e, nil
	case *parser.ForInStmt:
		in.feat("forin")
		itv, err := in.eval(n.Iterable, e)
		if err != nil {
			return completion{}, e, err
		}
		if !itv.CanIterate() {
			return completion{}, e, in.throwErr(ugo.ErrNotIterable.NewError(itv.TypeName()))
		}
		it := itv.Iterate()
		for it.Next() {
			if err := in.step(); err != nil {
				return completion{}, e, err
			}
			be := e
			if n.Key != nil && n.Key.Name != "_" {
				be = be.bind(n.Key.Name, it.Key())
			}
			if n.Value != nil && n.Value.Name != "_" {
				be = be.bind(n.Value.Name, it.Value())
			}
			c, _, err := in.exec(n.Body, be, nil)
			if err != nil {
				return completion{}, e, err
			}
			if c.kind == cBreak {
				in.feat("break")
				break
			}
			if c.kind == cReturn {
				return c, e, nil
			}
			if c.kind == cContinue {
				in.feat("continue")
			}
		}
		return completion{}, e, nil
	case *parser.BranchStmt:
		if n.Token == token.Break {
			return completion{kind: cBreak}, e, nil
		}
		return completion{kind: cContinue}, e, nil
	case *parser.ReturnStmt:
		var v ugo.Object = ugo.Undefined
		if n.Result != nil {
			var err error
			if v, err = in.eval(n.Result, e); err != nil {
				return completion{}, e, err
			}
		}
		return completion{kind: cReturn, val: v}, e, nil
	case *parser.ThrowStmt:
		in.feat("throw")
		v, err := in.eval(n.Expr, e)
		if err != nil {
			return completion{}, e, err
		}
		switch x := v.(type) {
		case *ugo.RuntimeError:
			return completion{}, e, &Thrown{Err: x, UserThrown: true}
		case *ugo.Error:
			return completion{}, e, &Thrown{Err: &ugo.RuntimeError{Err: x}, UserThrown: true}
		}
		return completion{}, e, &Thrown{Err: &ugo.RuntimeError{Err: &ugo.Error{Message: v.String()}}, UserThrown: true}
	case *parser.TryStmt:
		c, err := in.execTry(n, e)
		return c, e, err
	}
	return completion{}, e, &Unsupported{fmt.Sprintf("statement %T", s)}
}

// execTry implements ECMAScript try/catch/finally completion semantics.
func (in *Interp) execTry(n *parser.TryStmt, e *env) (completion, error) {
	in.feat("try")
	var c completion
	var err error
	te := e
	if n.Body != nil {
		c, te, err = in.execStmts(n.Body.Stmts, e, nil)
	}
	if err != nil {
		if _, ok := err.(*Thrown); !ok {
			return completion{}, err // budget / unsupported: not catchable
		}
	}
	ce := te
	if n.Catch != nil {
		if n.Catch.Ident != nil {
			ce = ce.bind(n.Catch.Ident.Name, ugo.Undefined)
			if err == nil && c.kind != cNormal {
				ce.cell.uninit = true
			}
		}
		if th, ok := err.(*Thrown); ok {
			in.feat("catch-entered")
			if n.Catch.Ident != nil {
				ce.cell.v = th.Err
			}
			err = nil
			c = completion{}
			if n.Catch.Body != nil {
				c, ce, err = in.execStmts(n.Catch.Body.Stmts, ce, nil)
				if err != nil {
					if _, ok := err.(*Thrown); !ok {
						return completion{}, err
					}
				}
			}
		}
	}
	if n.Finally != nil && n.Finally.Body != nil {
		if err != nil || c.kind != cNormal {
			in.FinallyAbrupt++
			if err != nil {
				in.feat("finally-on-throw")
			} else {
				in.feat(fmt.Sprintf("finally-on-%d", c.kind))
			}
		} else {
			in.feat("finally-normal")
		}
		fc, _, ferr := in.execStmts(n.Finally.Body.Stmts, ce, nil)
		if ferr != nil {
			return completion{}, ferr // finally's own throw replaces the pending completion
		}
		if fc.kind != cNormal {
			in.feat("finally-overrides")
			return fc, nil // return/break/continue inside finally replaces it
		}
	}
	return c, err
}

func (in *Interp) execDecl(n *parser.DeclStmt, e *env, top *topCtx) (completion, *env, error) {
	decl, ok := n.Decl.(*parser.GenDecl)
	if !ok {
		return completion{}, e, &Unsupported{"bad decl"}
	}
	switch decl.Tok {
	case token.Param:
		in.feat("param")
		if top == nil {
			return completion{}, e, &Unsupported{"param outside top level"}
		}
		np := len(decl.Specs)
		for i, sp := range decl.Specs {
			ps := sp.(*parser.ParamSpec)
			var v ugo.Object = ugo.Undefined
			if ps.Variadic {
				arr := ugo.Array{}
				if top.isMain && len(top.args) > np-1 {
					arr = append(arr, top.args[np-1:]...)
				}
				v = arr
			} else if top.isMain && i < len(top.args) {
				v = top.args[i]
			}
			e = e.bind(ps.Ident.Name, v)
		}
		return completion{}, e, nil
	case token.Global:
		in.feat("global")
		for _, sp := range decl.Specs {
			ps := sp.(*parser.ParamSpec)
			e = &env{name: ps.Ident.Name, kind: bGlobal, parent: e}
		}
		return completion{}, e, nil
	case token.Var, token.Const:
		isConst := decl.Tok == token.Const
		if isConst {
			in.feat("const")
			defer func() { in.iota = -1 }()
		} else {
			in.feat("var")
		}
		var lastExpr parser.Expr
		for _, sp := range decl.Specs {
			spec := sp.(*parser.ValueSpec)
			if isConst {
				if v, ok := spec.Data.(int); ok {
					in.iota = v
				} else {
					return completion{}, e, &Unsupported{"iota data"}
				}
			}
			for i, id := range spec.Idents {
				var vx parser.Expr
				if i < len(spec.Values) {
					vx = spec.Values[i]
				}
				if vx == nil {
					if isConst && lastExpr != nil {
						vx = lastExpr
						in.feat("const-implicit-repeat")
					}
				} else {
					lastExpr = vx
				}
				var v ugo.Object = ugo.Undefined
				if vx != nil {
					var err error
					if v, err = in.eval(vx, e); err != nil {
						return completion{}, e, err
					}
				}
				e = e.bind(id.Name, v)
			}
		}
		return completion{}, e, nil
	}
	return completion{}, e, &Unsupported{"decl token"}
}

func flattenLHS(x parser.Expr) (root *parser.Ident, sels []parser.Expr) {
	switch t := x.(type) {
	case *parser.SelectorExpr:
		root, sels = flattenLHS(t.Expr)
		sels = append(sels, t.Sel)
	case *parser.IndexExpr:
		root, sels = flattenLHS(t.Expr)
		sels = append(sels, t.Index)
	case *parser.Ident:
		root = t
	case *parser.ParenExpr:
		return flattenLHS(t.Expr)
	}
	return
}

func (in *Interp) execAssign(n *parser.AssignStmt, e *env) (*env, error) {
	if len(n.RHS) != 1 {
		return e, &Unsupported{"multiple rhs"}
	}
	if len(n.LHS) > 1 {
		in.feat("destructuring")
		if n.Token != token.Assign && n.Token != token.Define {
			return e, &Unsupported{"compound destructuring"}
		}
		rv, err := in.eval(n.RHS[0], e)
		if err != nil {
			return e, err
		}
		vals := make([]ugo.Object, len(n.LHS))
		for i := range vals {
			vals[i] = ugo.Undefined
		}
		if arr, ok := rv.(ugo.Array); ok {
			copy(vals, arr)
		} else {
			vals[0] = rv
		}
		for i, lx := range n.LHS {
			ne, err := in.assignTo(lx, vals[i], n.Token == token.Define, e)
			if err != nil {
				return e, err
			}
			e = ne
		}
		return e, nil
	}
	lhs := n.LHS[0]
	switch n.Token {
	case token.Define:
		in.feat("define")
		rv, err := in.eval(n.RHS[0], e)
		if err != nil {
			return e, err
		}
		return in.assignTo(lhs, rv, true, e)
	case token.Assign:
		rv, err := in.eval(n.RHS[0], e)
		if err != nil {
			return e, err
		}
		return in.assignTo(lhs, rv, false, e)
	}
	// compound: lhs = lhs OP rhs  (lhs read first, then rhs, then the target)
	in.feat("compound-assign")
	var op token.Token
	switch n.Token {
	case token.AddAssign:
		op = token.Add
	case token.SubAssign:
		op = token.Sub
	case token.MulAssign:
		op = token.Mul
	case token.QuoAssign:
		op = token.Quo
	case token.RemAssign:
		op = token.Rem
	case token.AndAssign:
		op = token.And
	case token.OrAssign:
		op = token.Or
	case token.XorAssign:
		op = token.Xor
	case token.ShlAssign:
		op = token.Shl
	case token.ShrAssign:
		op = token.Shr
	case token.AndNotAssign:
		op = token.AndNot
	default:
		return e, &Unsupported{"assign token " + n.Token.String()}
	}
	lv, err := in.eval(lhs, e)
	if err != nil {
		return e, err
	}
	rv, err := in.eval(n.RHS[0], e)
	if err != nil {
		return e, err
	}
	res, err := in.binop(lv, op, rv)
	if err != nil {
		return e, err
	}
	return in.assignTo(lhs, res, false, e)
}

func (in *Interp) assignTo(lhs parser.Expr, v ugo.Object, define bool, e *env) (*env, error) {
	root, sels := flattenLHS(lhs)
	if root == nil {
		return e, &Unsupported{"assignment target without identifier root"}
	}
	if len(sels) == 0 {
		if define && e.globalInScope(root.Name) {
			in.feat("define-over-global")
			define = false
		}
		if define {
			return e.bind(root.Name, v), nil
		}
		b := e.lookup(root.Name)
		if b == nil {
			return e, &Unsupported{"assignment to unresolved " + root.Name}
		}
		if b.kind == bGlobal {
			if err := in.Globals.IndexSet(ugo.String(root.Name), v); err != nil {
				return e, in.genErr(err)
			}
			return e, nil
		}
		b.cell.v = v
		return e, nil
	}
	if define {
		return e, &Unsupported{":= with selector"}
	}
	in.feat("index-assign")
	target, err := in.evalIdent(root, e)
	if err != nil {
		return e, err
	}
	idx := make([]ugo.Object, len(sels))
	for i := 0; i < len(sels)-1; i++ {
		if idx[i], err = in.evalSel(sels[i], e); err != nil {
			return e, err
		}
	}
	for i := 0; i < len(sels)-1; i++ {
		if target, err = in.indexGet(target, idx[i]); err != nil {
			return e, err
		}
	}
	last, err := in.evalSel(sels[len(sels)-1], e)
	if err != nil {
		return e, err
	}
	if err := target.IndexSet(last, v); err != nil {
		switch err {
		case ugo.ErrNotIndexAssignable:
			err = ugo.ErrNotIndexAssignable.NewError(target.TypeName())
		case ugo.ErrIndexOutOfBounds:
			err = ugo.ErrIndexOutOfBounds.NewError(last.String())
		}
		return e, in.genErr(err)
	}
	return e, nil
}

// evalSel evaluates a selector operand: `.name` is the string "name".
func (in *Interp) evalSel(x parser.Expr, e *env) (ugo.Object, error) {
	return in.eval(x, e)
}

func (in *Interp) indexGet(target, index ugo.Object) (ugo.Object, error) {
	v, err := target.IndexGet(index)
	if err != nil {
		switch err {
		case ugo.ErrNotIndexable:
			err = ugo.ErrNotIndexable.NewError(target.TypeName())
		case ugo.ErrIndexOutOfBounds:
			err = ugo.ErrIndexOutOfBounds.NewError(index.String())
		}
		return nil, in.genErr(err)
	}
	if v == nil {
		v = ugo.Undefined
	}
	return v, nil
}

func (in *Interp) binop(l ugo.Object, op token.Token, r ugo.Object) (ugo.Object, error) {
	v, err := l.BinaryOp(op, r)
	if err != nil {
		if err == ugo.ErrInvalidOperator {
			err = ugo.ErrInvalidOperator.NewError(op.String())
		}
		return nil, in.genErr(err)
	}
	return v, nil
}

func (in *Interp) evalIdent(n *parser.Ident, e *env) (ugo.Object, error) {
	if b := e.lookup(n.Name); b != nil {
		if b.kind == bGlobal {
			v, err := in.Globals.IndexGet(ugo.String(n.Name))
			if err != nil {
				return nil, in.genErr(err)
			}
			if v == nil {
				v = ugo.Undefined
			}
			return v, nil
		}
		if b.cell.uninit {
			in.Flags["catch-var-read-after-jump-out-of-try"]++
		}
		return b.cell.v, nil
	}
	if n.Name == "iota" && in.iota >= 0 {
		return ugo.Int(in.iota), nil
	}
	if bt, ok := ugo.BuiltinsMap[n.Name]; ok && !in.Disabled[n.Name] {
		in.feat("builtin-ref")
		return ugo.BuiltinObjects[bt], nil
	}
	return nil, &Unsupported{"unresolved identifier " + n.Name}
}

func (in *Interp) eval(x parser.Expr, e *env) (ugo.Object, error) {
	switch n := x.(type) {
	case *parser.IntLit:
		return ugo.Int(n.Value), nil
	case *parser.UintLit:
		return ugo.Uint(n.Value), nil
	case *parser.FloatLit:
		return ugo.Float(n.Value), nil
	case *parser.CharLit:
		return ugo.Char(n.Value), nil
	case *parser.StringLit:
		return ugo.String(n.Value), nil
	case *parser.BoolLit:
		return ugo.Bool(n.Value), nil
	case *parser.UndefinedLit:
		return ugo.Undefined, nil
	case *parser.ParenExpr:
		return in.eval(n.Expr, e)
	case *parser.Ident:
		return in.evalIdent(n, e)
	case *parser.ArrayLit:
		arr := make(ugo.Array, 0, len(n.Elements))
		for _, el := range n.Elements {
			v, err := in.eval(el, e)
			if err != nil {
				return nil, err
			}
			arr = append(arr, v)
		}
		return arr, nil
	case *parser.MapLit:
		m := make(ugo.Map, len(n.Elements))
		for _, el := range n.Elements {
			v, err := in.eval(el.Value, e)
			if err != nil {
				return nil, err
			}
			m[el.Key] = v
		}
		return m, nil
	case *parser.FuncLit:
		in.feat("funclit")
		return &Closure{Fn: n, env: e, in: in}, nil
	case *parser.UnaryExpr:
		v, err := in.eval(n.Expr, e)
		if err != nil {
			return nil, err
		}
		return in.unary(n.Token, v)
	case *parser.BinaryExpr:
		l, err := in.eval(n.LHS, e)
		if err != nil {
			return nil, err
		}
		switch n.Token {
		case token.LAnd:
			in.feat("land")
			if l.IsFalsy() {
				return l, nil
			}
			return in.eval(n.RHS, e)
		case token.LOr:
			in.feat("lor")
			if !l.IsFalsy() {
				return l, nil
			}
			return in.eval(n.RHS, e)
		}
		r, err := in.eval(n.RHS, e)
		if err != nil {
			return nil, err
		}
		switch n.Token {
		case token.Equal:
			return ugo.Bool(l.Equal(r)), nil
		case token.NotEqual:
			return ugo.Bool(!l.Equal(r)), nil
		}
		return in.binop(l, n.Token, r)
	case *parser.CondExpr:
		in.feat("ternary")
		c, err := in.eval(n.Cond, e)
		if err != nil {
			return nil, err
		}
		if !c.IsFalsy() {
			return in.eval(n.True, e)
		}
		return in.eval(n.False, e)
	case *parser.SelectorExpr, *parser.IndexExpr:
		// a.b[c].d : base, then all index operands left to right, then the lookups
		base, sels := flattenRead(x)
		in.feat("index-read")
		t, err := in.eval(base, e)
		if err != nil {
			return nil, err
		}
		idx := make([]ugo.Object, len(sels))
		for i, s := range sels {
			if idx[i], err = in.eval(s, e); err != nil {
				return nil, err
			}
		}
		for _, ix := range idx {
			if t, err = in.indexGet(t, ix); err != nil {
				return nil, err
			}
		}
		return t, nil
	case *parser.SliceExpr:
		in.feat("slice")
		t, err := in.eval(n.Expr, e)
		if err != nil {
			return nil, err
		}
		var lo, hi ugo.Object = ugo.Undefined, ugo.Undefined
		if n.Low != nil {
			if lo, err = in.eval(n.Low, e); err != nil {
				return nil, err
			}
		}
		if n.High != nil {
			if hi, err = in.eval(n.High, e); err != nil {
				return nil, err
			}
		}
		return in.slice(t, lo, hi)
	case *parser.CallExpr:
		return in.evalCall(n, e)
	case *parser.ImportExpr:
		return in.evalImport(n)
	}
	return nil, &Unsupported{fmt.Sprintf("expression %T", x)}
}

// flattenRead mirrors how a chain of selectors/indexes on one base is read:
// selectors group with the indexes directly below them.
func flattenRead(x parser.Expr) (base parser.Expr, sels []parser.Expr) {
	switch t := x.(type) {
	case *parser.SelectorExpr:
		b, s := flattenIndexOnly(t.Expr)
		return b, append(s, t.Sel)
	case *parser.IndexExpr:
		return flattenIndexOnly(x)
	}
	return x, nil
}

func flattenIndexOnly(x parser.Expr) (parser.Expr, []parser.Expr) {
	if t, ok := x.(*parser.IndexExpr); ok {
		b, s := flattenIndexOnly(t.Expr)
		return b, append(s, t.Index)
	}
	return x, nil
}

func (in *Interp) unary(tok token.Token, v ugo.Object) (ugo.Object, error) {
	typeErr := func() error {
		return in.throwErr(ugo.ErrType.NewError(fmt.Sprintf("invalid type for unary '%s': '%s'", tok.String(), v.TypeName())))
	}
	b2i := func(b ugo.Bool) ugo.Int {
		if b {
			return 1
		}
		return 0
	}
	switch tok {
	case token.Not:
		return ugo.Bool(v.IsFalsy()), nil
	case token.Sub:
		switch o := v.(type) {
		case ugo.Int:
			return -o, nil
		case ugo.Uint:
			return -o, nil
		case ugo.Float:
			return -o, nil
		case ugo.Char:
			return ugo.Int(-o), nil
		case ugo.Bool:
			return -b2i(o), nil
		}
		return nil, typeErr()
	case token.Add:
		switch o := v.(type) {
		case ugo.Int, ugo.Uint, ugo.Float, ugo.Char:
			return v, nil
		case ugo.Bool:
			return b2i(o), nil
		}
		return nil, typeErr()
	case token.Xor:
		switch o := v.(type) {
		case ugo.Int:
			return ^o, nil
		case ugo.Uint:
			return ^o, nil
		case ugo.Char:
			return ^ugo.Int(o), nil
		case ugo.Bool:
			return ^b2i(o), nil
		}
		return nil, typeErr()
	}
	return nil, &Unsupported{"unary " + tok.String()}
}

func (in *Interp) slice(t, lo, hi ugo.Object) (ugo.Object, error) {
	var n int
	switch o := t.(type) {
	case ugo.Array:
		n = len(o)
	case ugo.String:
		n = len(o)
	case ugo.Bytes:
		n = len(o)
	default:
		return nil, in.throwErr(ugo.ErrType.NewError(t.TypeName(), "cannot be sliced"))
	}
	toInt := func(v ugo.Object, def int, which string) (int, error) {
		switch o := v.(type) {
		case *ugo.UndefinedType:
			return def, nil
		case ugo.Int:
			return int(o), nil
		case ugo.Uint:
			return int(o), nil
		case ugo.Char:
			return int(o), nil
		}
		return 0, in.throwErr(ugo.ErrType.NewError("invalid "+which+" index type", v.TypeName()))
	}
	l, err := toInt(lo, 0, "first")
	if err != nil {
		return nil, err
	}
	h, err := toInt(hi, n, "second")
	if err != nil {
		return nil, err
	}
	if l < 0 || h < 0 {
		return nil, &Unsupported{"negative slice index (document and implementation name different errors)"}
	}
	if l > h {
		return nil, in.throwErr(ugo.ErrInvalidIndex.NewError(fmt.Sprintf("[%d:%d]", l, h)))
	}
	if b, ok := t.(ugo.Bytes); ok && h > n && h <= cap(b) {
		return nil, &Unsupported{"bytes slice beyond len within cap"}
	}
	if h > n {
		return nil, in.throwErr(ugo.ErrIndexOutOfBounds.NewError(fmt.Sprintf("[%d:%d]", l, h)))
	}
	switch o := t.(type) {
	case ugo.Array:
		return o[l:h], nil
	case ugo.String:
		return o[l:h], nil
	case ugo.Bytes:
		return o[l:h], nil
	}
	return nil, &Unsupported{"slice"}
}

func (in *Interp) evalCall(n *parser.CallExpr, e *env) (ugo.Object, error) {
	in.feat("call")
	var callee ugo.Object
	var recv ugo.Object
	var selName string
	isSel := false
	var err error
	if se, ok := n.Func.(*parser.SelectorExpr); ok {
		isSel = true
		in.feat("call-selector")
		if recv, err = in.eval(se.Expr, e); err != nil {
			return nil, err
		}
		sl, ok := se.Sel.(*parser.StringLit)
		if !ok {
			return nil, &Unsupported{"selector is not a name"}
		}
		selName = sl.Value
	} else {
		if callee, err = in.eval(n.Func, e); err != nil {
			return nil, err
		}
	}
	args := make([]ugo.Object, 0, len(n.Args))
	for _, a := range n.Args {
		v, err := in.eval(a, e)
		if err != nil {
			return nil, err
		}
		args = append(args, v)
	}
	if n.Ellipsis.IsValid() {
		in.feat("call-spread")
		if len(args) == 0 {
			return nil, &Unsupported{"spread without args"}
		}
		last, ok := args[len(args)-1].(ugo.Array)
		if !ok {
			return nil, in.throwErr(ugo.NewArgumentTypeError("last", "array", args[len(args)-1].TypeName()))
		}
		args = append(args[:len(args)-1:len(args)-1], last...)
	}
	if isSel {
		if nc, ok := recv.(ugo.NameCallerObject); ok {
			v, err := in.safeCall(func() (ugo.Object, error) { return nc.CallName(selName, ugo.NewCall(nil, args)) })
			if err != nil {
				return nil, in.genErr(err)
			}
			return v, nil
		}
		if callee, err = in.indexGetRaw(recv, ugo.String(selName)); err != nil {
			return nil, err
		}
	}
	return in.call(callee, args)
}

// indexGetRaw is the lookup a method-style call performs (errors are not re-labelled).
func (in *Interp) indexGetRaw(t, idx ugo.Object) (ugo.Object, error) {
	v, err := t.IndexGet(idx)
	if err != nil {
		return nil, in.genErr(err)
	}
	if v == nil {
		v = ugo.Undefined
	}
	return v, nil
}

func (in *Interp) safeCall(f func() (ugo.Object, error)) (v ugo.Object, err error) {
	defer func() {
		if r := recover(); r != nil {
			if r == ErrBudget {
				err = ErrBudget
				return
			}
			err = &Unsupported{fmt.Sprintf("Go panic in callee: %v", r)}
		}
	}()
	return f()
}

func (in *Interp) call(callee ugo.Object, args []ugo.Object) (ugo.Object, error) {
	if cl, ok := callee.(*Closure); ok {
		return in.callClosure(cl, args)
	}
	if !callee.CanCall() {
		return nil, in.throwErr(ugo.ErrNotCallable.NewError(callee.TypeName()))
	}
	if callee == ugo.BuiltinObjects[ugo.BuiltinGlobals] {
		if len(args) != 0 {
			return nil, in.throwErr(ugo.ErrWrongNumArguments.NewError("want=0 got=" + fmt.Sprint(len(args))))
		}
		return in.Globals, nil
	}
	in.feat("call-go")
	var v ugo.Object
	var err error
	if ex, ok := callee.(ugo.ExCallerObject); ok {
		v, err = in.safeCall(func() (ugo.Object, error) { return ex.CallEx(ugo.NewCall(nil, args)) })
	} else {
		v, err = in.safeCall(func() (ugo.Object, error) { return callee.Call(args...) })
	}
	if err != nil {
		return nil, in.genErr(err)
	}
	if v == nil {
		return nil, &Unsupported{"callee returned nil object"}
	}
	return v, nil
}

func (in *Interp) callClosure(cl *Closure, args []ugo.Object) (ugo.Object, error) {
	if err := in.step(); err != nil {
		return nil, err
	}
	in.Calls++
	params := cl.Fn.Type.Params
	np := len(params.List)
	if params.VarArgs {
		in.feat("call-variadic")
		if len(args) < np-1 {
			return nil, in.throwErr(ugo.ErrWrongNumArguments.NewError(fmt.Sprintf("want>=%d got=%d", np-1, len(args))))
		}
	} else if len(args) != np {
		in.feat("arity-error")
		return nil, in.throwErr(ugo.ErrWrongNumArguments.NewError(fmt.Sprintf("want=%d got=%d", np, len(args))))
	}
	e := cl.env
	for i, id := range params.List {
		if params.VarArgs && i == np-1 {
			e = e.bind(id.Name, append(ugo.Array{}, args[np-1:]...))
		} else {
			e = e.bind(id.Name, args[i])
		}
	}
	in.depth++
	defer func() { in.depth-- }()
	if in.depth > in.DepthMax {
		return nil, ErrBudget
	}
	savedIota := in.iota
	in.iota = -1
	defer func() { in.iota = savedIota }()
	c, _, err := in.execStmts(cl.Fn.Body.Stmts, e, nil)
	if err != nil {
		return nil, err
	}
	if c.kind == cReturn {
		return c.val, nil
	}
	if c.kind != cNormal {
		return nil, &Unsupported{"break/continue escaping function"}
	}
	return ugo.Undefined, nil
}

func (in *Interp) evalImport(n *parser.ImportExpr) (ugo.Object, error) {
	in.feat("import")
	name := n.ModuleName
	in.ImportSites[name]++
	if v, ok := in.modCache[name]; ok {
		return v, nil
	}
	m := in.Modules[name]
	if m == nil {
		return nil, &Unsupported{"unknown module " + name}
	}
	var v ugo.Object
	if m.Source != nil {
		f := in.modFiles[name]
		if f == nil {
			var err error
			if f, err = Parse(name, m.Source); err != nil {
				return nil, &Unsupported{"module parse error"}
			}
			in.modFiles[name] = f
		}
		in.ImportsExec[name]++
		if in.ImportsExec[name] > 50 {
			return nil, &Unsupported{"import cycle"}
		}
		in.depth++
		savedIota := in.iota
		in.iota = -1
		r, err := in.runTop(f.Stmts, nil, false)
		in.iota = savedIota
		in.depth--
		if err != nil {
			return nil, err
		}
		v = r
	} else {
		v = m.Builtin
	}
	if cp, ok := v.(ugo.Copier); ok {
		v = cp.Copy()
	}
	in.modCache[name] = v
	return v, nil
}
