package ref

import "github.com/ozanh/ugo/parser"

// Walk visits every node of the AST in source order (pre-order). fn returning false prunes the subtree.
func Walk(n parser.Node, fn func(parser.Node) bool) {
	if n == nil || isNilNode(n) {
		return
	}
	if !fn(n) {
		return
	}
	switch x := n.(type) {
	case *parser.File:
		for _, s := range x.Stmts {
			Walk(s, fn)
		}
	case *parser.ExprStmt:
		Walk(x.Expr, fn)
	case *parser.BlockStmt:
		for _, s := range x.Stmts {
			Walk(s, fn)
		}
	case *parser.AssignStmt:
		for _, e := range x.LHS {
			Walk(e, fn)
		}
		for _, e := range x.RHS {
			Walk(e, fn)
		}
	case *parser.IncDecStmt:
		Walk(x.Expr, fn)
	case *parser.IfStmt:
		if x.Init != nil {
			Walk(x.Init, fn)
		}
		Walk(x.Cond, fn)
		if x.Body != nil {
			Walk(x.Body, fn)
		}
		if x.Else != nil {
			Walk(x.Else, fn)
		}
	case *parser.ForStmt:
		if x.Init != nil {
			Walk(x.Init, fn)
		}
		if x.Cond != nil {
			Walk(x.Cond, fn)
		}
		if x.Post != nil {
			Walk(x.Post, fn)
		}
		if x.Body != nil {
			Walk(x.Body, fn)
		}
	case *parser.ForInStmt:
		if x.Key != nil {
			Walk(x.Key, fn)
		}
		if x.Value != nil {
			Walk(x.Value, fn)
		}
		Walk(x.Iterable, fn)
		if x.Body != nil {
			Walk(x.Body, fn)
		}
	case *parser.ReturnStmt:
		if x.Result != nil {
			Walk(x.Result, fn)
		}
	case *parser.ThrowStmt:
		if x.Expr != nil {
			Walk(x.Expr, fn)
		}
	case *parser.TryStmt:
		if x.Body != nil {
			Walk(x.Body, fn)
		}
		if x.Catch != nil {
			Walk(x.Catch, fn)
		}
		if x.Finally != nil {
			Walk(x.Finally, fn)
		}
	case *parser.CatchStmt:
		if x.Ident != nil {
			Walk(x.Ident, fn)
		}
		if x.Body != nil {
			Walk(x.Body, fn)
		}
	case *parser.FinallyStmt:
		if x.Body != nil {
			Walk(x.Body, fn)
		}
	case *parser.DeclStmt:
		if gd, ok := x.Decl.(*parser.GenDecl); ok {
			for _, sp := range gd.Specs {
				switch s := sp.(type) {
				case *parser.ValueSpec:
					for i, id := range s.Idents {
						Walk(id, fn)
						if i < len(s.Values) && s.Values[i] != nil {
							Walk(s.Values[i], fn)
						}
					}
				case *parser.ParamSpec:
					Walk(s.Ident, fn)
				}
			}
		}
	case *parser.ArrayLit:
		for _, e := range x.Elements {
			Walk(e, fn)
		}
	case *parser.MapLit:
		for _, e := range x.Elements {
			Walk(e.Value, fn)
		}
	case *parser.BinaryExpr:
		Walk(x.LHS, fn)
		Walk(x.RHS, fn)
	case *parser.UnaryExpr:
		Walk(x.Expr, fn)
	case *parser.ParenExpr:
		Walk(x.Expr, fn)
	case *parser.CallExpr:
		Walk(x.Func, fn)
		for _, a := range x.Args {
			Walk(a, fn)
		}
	case *parser.CondExpr:
		Walk(x.Cond, fn)
		Walk(x.True, fn)
		Walk(x.False, fn)
	case *parser.FuncLit:
		if x.Type != nil && x.Type.Params != nil {
			for _, id := range x.Type.Params.List {
				Walk(id, fn)
			}
		}
		if x.Body != nil {
			Walk(x.Body, fn)
		}
	case *parser.IndexExpr:
		Walk(x.Expr, fn)
		Walk(x.Index, fn)
	case *parser.SelectorExpr:
		Walk(x.Expr, fn)
		Walk(x.Sel, fn)
	case *parser.SliceExpr:
		Walk(x.Expr, fn)
		if x.Low != nil {
			Walk(x.Low, fn)
		}
		if x.High != nil {
			Walk(x.High, fn)
		}
	}
}

func isNilNode(n parser.Node) bool {
	switch x := n.(type) {
	case *parser.Ident:
		return x == nil
	case *parser.BlockStmt:
		return x == nil
	case *parser.CatchStmt:
		return x == nil
	case *parser.FinallyStmt:
		return x == nil
	}
	return false
}
