package ref

import (
	"github.com/ozanh/ugo"
	"github.com/ozanh/ugo/parser"
	"github.com/ozanh/ugo/token"
)

// BRef is one reference to a builtin name that resolves to the builtin
// (no script declaration of that name is in lexical scope at that point).
type BRef struct {
	Name string
	// Live is false when the reference sits in a branch that is removed at
	// compile time even without the optimizer (if/ternary on a literal bool).
	Live bool
	Pos  parser.Pos
}

// ImportRef is one import expression.
type ImportRef struct {
	Module string
	Live   bool
}

type rscope struct {
	names  map[string]bool
	parent *rscope
}

func (s *rscope) has(n string) bool {
	for x := s; x != nil; x = x.parent {
		if x.names[n] {
			return true
		}
	}
	return false
}

type resolver struct {
	scope   *rscope
	dead    int
	inConst int
	refs    []BRef
	imports []ImportRef
}

func (r *resolver) push()         { r.scope = &rscope{names: map[string]bool{}, parent: r.scope} }
func (r *resolver) pop()          { r.scope = r.scope.parent }
func (r *resolver) decl(n string) { r.scope.names[n] = true }
func (r *resolver) use(id *parser.Ident) {
	if r.scope.has(id.Name) {
		return
	}
	if id.Name == "iota" && r.inConst > 0 {
		return
	}
	if _, ok := ugo.BuiltinsMap[id.Name]; ok {
		r.refs = append(r.refs, BRef{Name: id.Name, Live: r.dead == 0, Pos: id.NamePos})
	}
}

// BuiltinRefs lists the free references to builtin names and the import expressions of a file,
// resolved lexically (declaration before use, closures see what is declared at their creation point).
func BuiltinRefs(f *parser.File) ([]BRef, []ImportRef) {
	r := &resolver{}
	r.push()
	for _, s := range f.Stmts {
		r.stmt(s)
	}
	return r.refs, r.imports
}

func (r *resolver) block(b *parser.BlockStmt, newScope bool) {
	if b == nil {
		return
	}
	if newScope {
		r.push()
		defer r.pop()
	}
	for _, s := range b.Stmts {
		r.stmt(s)
	}
}

func (r *resolver) stmt(s parser.Stmt) {
	switch n := s.(type) {
	case *parser.ExprStmt:
		r.expr(n.Expr)
	case *parser.BlockStmt:
		r.block(n, true)
	case *parser.AssignStmt:
		if n.Token != token.Assign && n.Token != token.Define {
			for _, l := range n.LHS {
				r.expr(l)
			}
		}
		for _, x := range n.RHS {
			r.expr(x)
		}
		for _, l := range n.LHS {
			if id, ok := l.(*parser.Ident); ok {
				if n.Token == token.Define {
					r.decl(id.Name)
				} else if n.Token == token.Assign {
					r.use(id)
				}
			} else if n.Token == token.Assign || n.Token == token.Define {
				r.expr(l)
			}
		}
	case *parser.IncDecStmt:
		r.expr(n.Expr)
	case *parser.DeclStmt:
		gd, ok := n.Decl.(*parser.GenDecl)
		if !ok {
			return
		}
		if gd.Tok == token.Const {
			r.inConst++
			defer func() { r.inConst-- }()
		}
		var last parser.Expr
		for _, sp := range gd.Specs {
			switch v := sp.(type) {
			case *parser.ParamSpec:
				r.decl(v.Ident.Name)
			case *parser.ValueSpec:
				for i, id := range v.Idents {
					var x parser.Expr
					if i < len(v.Values) && v.Values[i] != nil {
						x = v.Values[i]
						last = x
					} else if gd.Tok == token.Const {
						x = last
					}
					if x != nil {
						r.expr(x)
					}
					r.decl(id.Name)
				}
			}
		}
	case *parser.IfStmt:
		r.push()
		defer r.pop()
		if n.Init != nil {
			r.stmt(n.Init)
		}
		lit, isLit := n.Cond.(*parser.BoolLit)
		r.expr(n.Cond)
		if isLit && !lit.Value {
			r.dead++
		}
		r.block(n.Body, true)
		if isLit && !lit.Value {
			r.dead--
		}
		if n.Else != nil {
			if isLit && lit.Value {
				r.dead++
			}
			r.stmt(n.Else)
			if isLit && lit.Value {
				r.dead--
			}
		}
	case *parser.ForStmt:
		r.push()
		defer r.pop()
		if n.Init != nil {
			r.stmt(n.Init)
		}
		if n.Cond != nil {
			r.expr(n.Cond)
		}
		r.block(n.Body, true)
		if n.Post != nil {
			r.stmt(n.Post)
		}
	case *parser.ForInStmt:
		r.push()
		defer r.pop()
		r.expr(n.Iterable)
		if n.Key != nil && n.Key.Name != "_" {
			r.decl(n.Key.Name)
		}
		if n.Value != nil && n.Value.Name != "_" {
			r.decl(n.Value.Name)
		}
		r.block(n.Body, true)
	case *parser.ReturnStmt:
		if n.Result != nil {
			r.expr(n.Result)
		}
	case *parser.ThrowStmt:
		if n.Expr != nil {
			r.expr(n.Expr)
		}
	case *parser.TryStmt:
		r.push()
		defer r.pop()
		r.block(n.Body, false)
		if n.Catch != nil {
			if n.Catch.Ident != nil {
				r.decl(n.Catch.Ident.Name)
			}
			r.block(n.Catch.Body, false)
		}
		if n.Finally != nil {
			r.block(n.Finally.Body, false)
		}
	}
}

func (r *resolver) expr(x parser.Expr) {
	switch n := x.(type) {
	case nil:
	case *parser.Ident:
		r.use(n)
	case *parser.ParenExpr:
		r.expr(n.Expr)
	case *parser.UnaryExpr:
		r.expr(n.Expr)
	case *parser.BinaryExpr:
		r.expr(n.LHS)
		r.expr(n.RHS)
	case *parser.CondExpr:
		lit, isLit := n.Cond.(*parser.BoolLit)
		r.expr(n.Cond)
		if isLit && !lit.Value {
			r.dead++
		}
		r.expr(n.True)
		if isLit && !lit.Value {
			r.dead--
		}
		if isLit && lit.Value {
			r.dead++
		}
		r.expr(n.False)
		if isLit && lit.Value {
			r.dead--
		}
	case *parser.ArrayLit:
		for _, e := range n.Elements {
			r.expr(e)
		}
	case *parser.MapLit:
		for _, e := range n.Elements {
			r.expr(e.Value)
		}
	case *parser.CallExpr:
		r.expr(n.Func)
		for _, a := range n.Args {
			r.expr(a)
		}
	case *parser.IndexExpr:
		r.expr(n.Expr)
		r.expr(n.Index)
	case *parser.SelectorExpr:
		r.expr(n.Expr)
	case *parser.SliceExpr:
		r.expr(n.Expr)
		r.expr(n.Low)
		r.expr(n.High)
	case *parser.FuncLit:
		r.push()
		saveConst := r.inConst
		r.inConst = 0
		if n.Type != nil && n.Type.Params != nil {
			for _, id := range n.Type.Params.List {
				r.decl(id.Name)
			}
		}
		r.block(n.Body, true)
		r.inConst = saveConst
		r.pop()
	case *parser.ImportExpr:
		r.imports = append(r.imports, ImportRef{Module: n.ModuleName, Live: r.dead == 0})
	}
}
