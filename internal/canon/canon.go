// Package canon renders uGO values and run outcomes canonically so that two
// executions can be compared for observational equality.
package canon

import (
	"bytes"
	"errors"
	"fmt"
	"math"
	"sort"
	"strconv"
	"strings"
	"sync"
	"sync/atomic"
	"time"

	"github.com/ozanh/ugo"
)

// Value renders v deterministically (maps sorted, floats by bits, cycles cut).
func Value(v ugo.Object) string {
	var b strings.Builder
	write(&b, v, 0)
	return b.String()
}

func write(b *strings.Builder, v ugo.Object, depth int) {
	if depth > 64 {
		b.WriteString("<deep>")
		return
	}
	switch o := v.(type) {
	case nil:
		b.WriteString("<nil>")
	case *ugo.UndefinedType:
		b.WriteString("undefined")
	case ugo.Bool:
		if o {
			b.WriteString("true")
		} else {
			b.WriteString("false")
		}
	case ugo.Int:
		b.WriteString("i:")
		b.WriteString(strconv.FormatInt(int64(o), 10))
	case ugo.Uint:
		b.WriteString("u:")
		b.WriteString(strconv.FormatUint(uint64(o), 10))
	case ugo.Float:
		b.WriteString("f:")
		f := float64(o)
		if math.IsNaN(f) {
			b.WriteString("NaN")
		} else {
			b.WriteString(strconv.FormatUint(math.Float64bits(f), 16))
			b.WriteString("(" + strconv.FormatFloat(f, 'g', -1, 64) + ")")
		}
	case ugo.Char:
		b.WriteString("c:")
		b.WriteString(strconv.FormatInt(int64(o), 10))
	case ugo.String:
		b.WriteString("s:")
		b.WriteString(strconv.Quote(string(o)))
	case ugo.Bytes:
		b.WriteString("b:")
		b.WriteString(fmt.Sprintf("%x", []byte(o)))
	case ugo.Array:
		b.WriteString("[")
		for i, e := range o {
			if i > 0 {
				b.WriteString(",")
			}
			write(b, e, depth+1)
		}
		b.WriteString("]")
	case ugo.Map:
		writeMap(b, o, depth)
	case *ugo.SyncMap:
		b.WriteString("sync")
		if o == nil {
			b.WriteString("<nil>")
			return
		}
		o.RLock()
		m := o.Value
		cp := make(ugo.Map, len(m))
		for k, v := range m {
			cp[k] = v
		}
		o.RUnlock()
		writeMap(b, cp, depth)
	case *ugo.ObjectPtr:
		b.WriteString("ptr(")
		if o != nil && o.Value != nil {
			write(b, *o.Value, depth+1)
		}
		b.WriteString(")")
	case *ugo.Error:
		b.WriteString("error(" + o.Name + ":" + CutGoStack(o.Message) + ")")
	case *ugo.RuntimeError:
		if o.Err == nil {
			b.WriteString("error(<nil>)")
		} else {
			b.WriteString("error(" + o.Err.Name + ":" + CutGoStack(o.Err.Message) + ")")
		}
	case *ugo.CompiledFunction, *ugo.Function, *ugo.BuiltinFunction:
		b.WriteString("<fn>")
	default:
		if v.CanCall() {
			b.WriteString("<fn>")
			return
		}
		b.WriteString("<" + v.TypeName() + ":" + v.String() + ">")
	}
}

func writeMap(b *strings.Builder, o ugo.Map, depth int) {
	keys := make([]string, 0, len(o))
	for k := range o {
		keys = append(keys, k)
	}
	sort.Strings(keys)
	b.WriteString("{")
	for i, k := range keys {
		if i > 0 {
			b.WriteString(",")
		}
		b.WriteString(strconv.Quote(k))
		b.WriteString(":")
		write(b, o[k], depth+1)
	}
	b.WriteString("}")
}

// CutGoStack removes the goroutine dump that handlePanic embeds.
func CutGoStack(s string) string {
	if i := strings.Index(s, "\nGo Stack:"); i >= 0 {
		s = s[:i]
	}
	return s
}

// Outcome is the canonical observable result of one run.
type Outcome struct {
	Kind    string `json:"kind"` // value | error | panic | timeout
	Value   string `json:"value,omitempty"`
	ErrName string `json:"err_name,omitempty"`
	ErrMsg  string `json:"err_msg,omitempty"`
	Out     string `json:"out,omitempty"`
	Globals string `json:"globals,omitempty"`
	Log     string `json:"log,omitempty"`
	Trace   string `json:"trace,omitempty"`
}

// Key is a comparable rendering (Trace excluded unless withTrace).
func (o Outcome) Key(withTrace bool) string {
	s := o.Kind + "|" + o.Value + "|" + o.ErrName + "|" + o.ErrMsg + "|out=" + o.Out + "|g=" + o.Globals + "|log=" + o.Log
	if withTrace {
		s += "|tr=" + o.Trace
	}
	return s
}

// ErrParts extracts the error name and message canonically.
func ErrParts(err error) (name, msg string) {
	var re *ugo.RuntimeError
	if errors.As(err, &re) && re.Err != nil {
		// a recovered panic that could not be thrown is a wrapped fmt error
		if _, isRE := err.(*ugo.RuntimeError); isRE {
			return re.Err.Name, CutGoStack(re.Err.Message)
		}
		return "wrapped:" + re.Err.Name, CutGoStack(err.Error())
	}
	var e *ugo.Error
	if errors.As(err, &e) {
		if _, isE := err.(*ugo.Error); isE {
			return e.Name, CutGoStack(e.Message)
		}
		return "wrapped:" + e.Name, CutGoStack(err.Error())
	}
	return "go", CutGoStack(err.Error())
}

// TraceOf renders the stack trace of a runtime error as file:line list.
func TraceOf(err error) string {
	var re *ugo.RuntimeError
	if !errors.As(err, &re) {
		return ""
	}
	st := re.StackTrace()
	var b strings.Builder
	for i, p := range st {
		if i > 0 {
			b.WriteString(" ")
		}
		b.WriteString(p.Filename + ":" + strconv.Itoa(p.Line))
	}
	return b.String()
}

var printMu sync.Mutex

// Timeouts counts watchdog firings of RunBytecode in this process. Monitors stop generating new cases
// after a few of them: every further non-terminating run would cost the full watchdog time.
var Timeouts atomic.Int64

// TooManyTimeouts reports whether the process should stop exploring (3 watchdog firings).
func TooManyTimeouts() bool { return Timeouts.Load() >= 3 }

// RunOpts configures RunBytecode.
type RunOpts struct {
	Recover  bool
	Globals  ugo.Object
	Args     []ugo.Object
	Timeout  time.Duration // watchdog (Abort) — firing is reported as Kind "timeout"
	VM       *ugo.VM       // reuse this VM (SetBytecode is NOT called)
	LogOf    func() string // renders the event log recorded by the harness callback
	NoOutput bool          // do not capture PrintWriter
}

// RunBytecode runs bc on a fresh (or given) VM and returns the canonical outcome.
// Panics escaping Run are recovered and reported as Kind "panic".
// Unabortable counts runs that had to be abandoned (see RunBytecode).
var Unabortable atomic.Int64

func RunBytecode(bc *ugo.Bytecode, ro RunOpts) (out Outcome) {
	vm := ro.VM
	if vm == nil {
		vm = ugo.NewVM(bc)
		vm.SetRecover(ro.Recover)
	}
	var buf bytes.Buffer
	if !ro.NoOutput {
		printMu.Lock()
		old := ugo.PrintWriter
		ugo.PrintWriter = &buf
		defer func() {
			ugo.PrintWriter = old
			printMu.Unlock()
		}()
	}
	timeout := ro.Timeout
	if timeout == 0 {
		timeout = 10 * time.Second
	}
	done := make(chan struct{})
	var fired atomic.Bool
	go func() {
		t := time.NewTimer(timeout)
		defer t.Stop()
		for {
			select {
			case <-done:
				return
			case <-t.C:
				fired.Store(true)
				vm.Abort()
				t.Reset(50 * time.Millisecond)
			}
		}
	}()
	var val ugo.Object
	var err error
	var panicMsg string
	finished := make(chan struct{})
	go func() {
		defer close(finished)
		defer func() {
			if r := recover(); r != nil {
				panicMsg = CutGoStack(fmt.Sprint(r))
			}
		}()
		val, err = vm.Run(ro.Globals, ro.Args...)
	}()
	// the run is given the watchdog period plus 15 s of repeated Aborts; a run that still has not returned is stuck in
	// code Abort cannot reach (a native loop): its goroutine is abandoned and the outcome says so
	select {
	case <-finished:
	case <-time.After(timeout + 15*time.Second):
		close(done)
		Timeouts.Add(1)
		Unabortable.Add(1)
		out.Kind = "unabortable"
		out.ErrMsg = "the run neither returned nor reacted to Abort"
		return out
	}
	if panicMsg != "" {
		out.Kind = "panic"
		out.ErrMsg = panicMsg
	}
	close(done)
	out.Out = buf.String()
	if ro.Globals != nil {
		out.Globals = Value(ro.Globals)
	}
	if ro.LogOf != nil {
		out.Log = ro.LogOf()
	}
	if out.Kind == "panic" {
		return out
	}
	if fired.Load() {
		Timeouts.Add(1)
		out.Kind = "timeout"
		return out
	}
	if err != nil {
		out.Kind = "error"
		out.ErrName, out.ErrMsg = ErrParts(err)
		out.Trace = TraceOf(err)
		return out
	}
	out.Kind = "value"
	out.Value = Value(val)
	return out
}

// Recorder is the event log device: a Go callback L(args...) placed in globals.
type Recorder struct {
	mu     sync.Mutex
	Events []string
}

// Func returns the callable to install as global "L".
func (r *Recorder) Func() *ugo.Function {
	return &ugo.Function{
		Name: "L",
		Value: func(args ...ugo.Object) (ugo.Object, error) {
			var b strings.Builder
			for i, a := range args {
				if i > 0 {
					b.WriteString(" ")
				}
				b.WriteString(Value(a))
			}
			r.mu.Lock()
			r.Events = append(r.Events, b.String())
			r.mu.Unlock()
			if len(args) > 0 {
				return args[len(args)-1], nil
			}
			return ugo.Undefined, nil
		},
	}
}

// String renders the log.
func (r *Recorder) String() string {
	r.mu.Lock()
	defer r.mu.Unlock()
	return strings.Join(r.Events, ";")
}

// Len is the number of events.
func (r *Recorder) Len() int {
	r.mu.Lock()
	defer r.mu.Unlock()
	return len(r.Events)
}
