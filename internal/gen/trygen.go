package gen

import (
	"fmt"
	"math/rand"
	"strings"
)

// TNode is a node of the try/loop/exit tree enumerated for C03.
type TNode struct {
	Kind   string // L try-c try-f try-cf loop ret brk cont throw rterr callthrow callfin
	Blocks [][]*TNode
}

var tLeafKinds = []string{"L", "ret", "throw", "rterr", "callthrow", "callfin"}

type tkey struct {
	size, depth int
	inLoop      bool
}

// TryEnum enumerates statement lists.
type TryEnum struct {
	memoS    map[tkey][]*TNode
	memoL    map[tkey][][]*TNode
	MaxBlock int
}

// NewTryEnum creates an enumerator (blocks hold at most maxBlock statements).
func NewTryEnum(maxBlock int) *TryEnum {
	return &TryEnum{memoS: map[tkey][]*TNode{}, memoL: map[tkey][][]*TNode{}, MaxBlock: maxBlock}
}

// Stmt enumerates single statements of exactly the given size.
func (e *TryEnum) Stmt(size, depth int, inLoop bool) []*TNode {
	k := tkey{size, depth, inLoop}
	if r, ok := e.memoS[k]; ok {
		return r
	}
	var out []*TNode
	if size == 1 {
		for _, lk := range tLeafKinds {
			out = append(out, &TNode{Kind: lk})
		}
		if inLoop {
			out = append(out, &TNode{Kind: "brk"}, &TNode{Kind: "cont"})
		}
	}
	if size >= 1 && depth > 0 {
		rest := size - 1
		// loop
		for _, b := range e.List(rest, depth-1, true) {
			out = append(out, &TNode{Kind: "loop", Blocks: [][]*TNode{b}})
		}
		// try-c / try-f : two blocks
		for a := 0; a <= rest; a++ {
			for _, b1 := range e.List(a, depth-1, inLoop) {
				for _, b2 := range e.List(rest-a, depth-1, inLoop) {
					out = append(out, &TNode{Kind: "try-c", Blocks: [][]*TNode{b1, b2}})
					out = append(out, &TNode{Kind: "try-f", Blocks: [][]*TNode{b1, b2}})
				}
			}
		}
		// try-cf : three blocks
		for a := 0; a <= rest; a++ {
			for b := 0; a+b <= rest; b++ {
				for _, b1 := range e.List(a, depth-1, inLoop) {
					for _, b2 := range e.List(b, depth-1, inLoop) {
						for _, b3 := range e.List(rest-a-b, depth-1, inLoop) {
							out = append(out, &TNode{Kind: "try-cf", Blocks: [][]*TNode{b1, b2, b3}})
						}
					}
				}
			}
		}
	}
	e.memoS[k] = out
	return out
}

// List enumerates statement lists (length <= MaxBlock) of exactly the given total size.
func (e *TryEnum) List(size, depth int, inLoop bool) [][]*TNode {
	k := tkey{size, depth, inLoop}
	if r, ok := e.memoL[k]; ok {
		return r
	}
	var out [][]*TNode
	if size == 0 {
		out = append(out, nil)
	} else {
		for _, s := range e.Stmt(size, depth, inLoop) {
			out = append(out, []*TNode{s})
		}
		if e.MaxBlock >= 2 {
			for a := 1; a < size; a++ {
				for _, s1 := range e.Stmt(a, depth, inLoop) {
					for _, s2 := range e.Stmt(size-a, depth, inLoop) {
						out = append(out, []*TNode{s1, s2})
					}
				}
			}
		}
	}
	e.memoL[k] = out
	return out
}

// RandomList samples a statement list of roughly the given size.
func RandomList(r *rand.Rand, size, depth int, inLoop bool, maxBlock int) []*TNode {
	var out []*TNode
	n := 1 + r.Intn(maxBlock)
	for i := 0; i < n && size > 0; i++ {
		s := 1 + r.Intn(size)
		if i == n-1 {
			s = size
		}
		out = append(out, randomStmt(r, s, depth, inLoop, maxBlock))
		size -= s
	}
	return out
}

func randomStmt(r *rand.Rand, size, depth int, inLoop bool, maxBlock int) *TNode {
	if size <= 1 || depth <= 0 {
		ks := tLeafKinds
		if inLoop {
			ks = append(append([]string{}, ks...), "brk", "cont", "brk", "cont")
		}
		return &TNode{Kind: ks[r.Intn(len(ks))]}
	}
	rest := size - 1
	switch r.Intn(7) {
	case 0:
		return &TNode{Kind: "loop", Blocks: [][]*TNode{RandomList(r, rest, depth-1, true, maxBlock)}}
	case 1, 2:
		a := r.Intn(rest + 1)
		return &TNode{Kind: []string{"try-c", "try-f"}[r.Intn(2)], Blocks: [][]*TNode{
			RandomList(r, a, depth-1, inLoop, maxBlock), RandomList(r, rest-a, depth-1, inLoop, maxBlock)}}
	default:
		a := r.Intn(rest + 1)
		b := r.Intn(rest - a + 1)
		return &TNode{Kind: "try-cf", Blocks: [][]*TNode{
			RandomList(r, a, depth-1, inLoop, maxBlock), RandomList(r, b, depth-1, inLoop, maxBlock), RandomList(r, rest-a-b, depth-1, inLoop, maxBlock)}}
	}
}

// TryHistories are completed try statements executed before the observed tree.
var TryHistories = []string{
	"try {\n  L(\"h1\")\n} finally {\n  L(\"h1f\")\n}",
	"try {\n  throw \"hx\"\n} catch {\n  L(\"h2c\")\n}",
	"for hj := 0; hj < 1; hj++ {\n  try {\n    L(\"h3\")\n  } finally {\n  }\n}",
	"for hk := 0; hk < 2; hk++ {\n  try {\n    if hk == 0 {\n      continue\n    }\n    break\n  } finally {\n    L(\"h4f\")\n  }\n}",
	"try {\n  try {\n  } finally {\n  }\n} catch {\n}",
	"try {\n  try {\n    throw \"hy\"\n  } finally {\n    L(\"h6f\")\n  }\n} catch he {\n  L(\"h6c\")\n}",
}

type trender struct {
	sb    strings.Builder
	ind   int
	id    int
	Exits map[string]int
}

func (t *trender) line(s string) {
	t.sb.WriteString(strings.Repeat("  ", t.ind))
	t.sb.WriteString(s)
	t.sb.WriteString("\n")
}

func (t *trender) block(b []*TNode, pos string) {
	t.ind++
	for _, n := range b {
		t.node(n, pos)
	}
	t.ind--
}

func (t *trender) node(n *TNode, pos string) {
	t.id++
	id := t.id
	switch n.Kind {
	case "L":
		t.line(fmt.Sprintf("L(%d)", id))
	case "ret":
		t.Exits["ret@"+pos]++
		t.line(fmt.Sprintf("return %d", id))
	case "brk":
		t.Exits["brk@"+pos]++
		t.line("break")
	case "cont":
		t.Exits["cont@"+pos]++
		t.line("continue")
	case "throw":
		t.Exits["throw@"+pos]++
		t.line(fmt.Sprintf("throw \"t%d\"", id))
	case "rterr":
		t.Exits["rterr@"+pos]++
		t.line(fmt.Sprintf("L(%d, 1 / zero)", id))
	case "callthrow":
		t.Exits["callthrow@"+pos]++
		t.line(fmt.Sprintf("thrower(%d)", id))
	case "callfin":
		t.line(fmt.Sprintf("L(%d, finner())", id))
	case "loop":
		t.line(fmt.Sprintf("for i%d := 0; i%d < 2; i%d++ {", id, id, id))
		t.ind++
		t.line(fmt.Sprintf("L(%d, i%d)", id, id))
		t.ind--
		t.block(n.Blocks[0], "loop")
		t.line("}")
	case "try-c":
		t.line("try {")
		t.block(n.Blocks[0], "try")
		t.line(fmt.Sprintf("} catch e%d {", id))
		t.ind++
		t.line(fmt.Sprintf("L(%d, e%d.Message == \"\" ? e%d.Name : e%d.Message)", id, id, id, id))
		t.ind--
		t.block(n.Blocks[1], "catch")
		t.line("}")
	case "try-f":
		t.line("try {")
		t.block(n.Blocks[0], "try")
		t.line("} finally {")
		t.ind++
		t.line(fmt.Sprintf("L(%d)", id))
		t.ind--
		t.block(n.Blocks[1], "finally")
		t.line("}")
	case "try-cf":
		t.line("try {")
		t.block(n.Blocks[0], "try")
		t.line(fmt.Sprintf("} catch e%d {", id))
		t.ind++
		t.line(fmt.Sprintf("L(%d, e%d.Message == \"\" ? e%d.Name : e%d.Message)", id, id, id, id))
		t.ind--
		t.block(n.Blocks[1], "catch")
		t.line("} finally {")
		t.ind++
		t.line(fmt.Sprintf("L(-%d, isError(e%d))", id, id))
		t.ind--
		t.block(n.Blocks[2], "finally")
		t.line("}")
	}
}

// RenderTry renders a tree with a history prefix and a wrapper into a script.
// wrapper: 0 function called once; 1 function called from another function's try/finally;
// 2 function called twice from a loop; 3 at top level of the script.
func RenderTry(stmts []*TNode, history []int, wrapper int) (src string, exits map[string]int) {
	t := &trender{Exits: map[string]int{}}
	t.line("global L")
	t.line("zero := 0")
	t.line("thrower := func(n) {")
	t.line("  throw \"ct\" + n")
	t.line("}")
	t.line("finner := func() {")
	t.line("  try {")
	t.line("    return \"cf\"")
	t.line("  } finally {")
	t.line("    L(\"cf-fin\")")
	t.line("  }")
	t.line("}")
	body := func() {
		for _, h := range history {
			for _, ln := range strings.Split(TryHistories[h], "\n") {
				t.line(ln)
			}
		}
		t.ind--
		t.block(stmts, "top")
		t.ind++
		t.line("L(\"end\")")
	}
	if wrapper == 3 {
		body()
		t.line("return \"R\"")
		return t.sb.String(), t.Exits
	}
	t.line("f := func() {")
	t.ind++
	body()
	t.line("return \"R\"")
	t.ind--
	t.line("}")
	switch wrapper {
	case 0:
		t.line("try {")
		t.line("  L(\"ret\", f())")
		t.line("} catch ex {")
		t.line("  L(\"caught\", ex.Message == \"\" ? ex.Name : ex.Message)")
		t.line("}")
	case 1:
		t.line("g := func() {")
		t.line("  try {")
		t.line("    return f()")
		t.line("  } finally {")
		t.line("    L(\"g-fin\")")
		t.line("  }")
		t.line("}")
		t.line("try {")
		t.line("  L(\"ret\", g())")
		t.line("} catch ex {")
		t.line("  L(\"caught\", ex.Message == \"\" ? ex.Name : ex.Message)")
		t.line("} finally {")
		t.line("  L(\"main-fin\")")
		t.line("}")
	case 2:
		t.line("for w := 0; w < 2; w++ {")
		t.line("  try {")
		t.line("    L(\"ret\", w, f())")
		t.line("  } catch ex {")
		t.line("    L(\"caught\", ex.Message == \"\" ? ex.Name : ex.Message)")
		t.line("  }")
		t.line("}")
	}
	t.line("return \"M\"")
	return t.sb.String(), t.Exits
}

// RecursionTryMatrix enumerates self-recursive functions whose recursive call sits at every position
// relative to a try statement (in the try body, in the catch body, in the finally body, after the
// statement), in every call form (returned, discarded as last statement, bound to a variable, passed to
// L), with every base-case outcome (throw, runtime error, value) placed outside or inside the try body,
// for every try kind and two depths; followed by later calls at the same call depth (stale per-frame
// state left behind by unwinding must not influence them).
func RecursionTryMatrix() []string {
	var out []string
	bases := map[string]string{
		"throw": "if n == 0 {\n    throw \"boom\"\n  }",
		"rterr": "if n == 0 {\n    return [1][5]\n  }",
		"value": "if n == 0 {\n    return \"base\"\n  }",
	}
	calls := map[string]string{
		"return":    "return f(n - 1)",
		"discarded": "f(n - 1)",
		"bound":     "x := f(n - 1)\n    return x",
		"logged":    "L(\"r\", n, f(n - 1))",
	}
	for _, bk := range []string{"throw", "rterr", "value"} {
		for _, basePos := range []string{"outside", "inside"} {
			for _, ck := range []string{"return", "discarded", "bound", "logged"} {
				for _, callPos := range []string{"try", "catch", "finally", "after"} {
					for _, tk := range []string{"c", "f", "cf"} {
						if callPos == "catch" && tk == "f" {
							continue
						}
						if callPos == "finally" && tk == "c" {
							continue
						}
						for _, depth := range []int{1, 3} {
							var sb strings.Builder
							sb.WriteString("global L\nhelper := func(x) {\n  return x * 2\n}\nvar f\nf = func(n) {\n  L(\"enter\", n)\n")
							if basePos == "outside" {
								sb.WriteString("  " + bases[bk] + "\n")
							}
							sb.WriteString("  try {\n")
							if basePos == "inside" {
								sb.WriteString("  " + strings.ReplaceAll(bases[bk], "\n", "\n  ") + "\n")
							}
							if callPos == "try" {
								sb.WriteString("    " + calls[ck] + "\n")
							} else if callPos == "catch" {
								sb.WriteString("    if n > 0 {\n      throw \"go-catch\"\n    }\n")
							} else {
								sb.WriteString("    L(\"try\", n)\n")
							}
							if tk != "f" {
								sb.WriteString("  } catch e {\n    L(\"c\", n, e.Message == \"\" ? e.Name : e.Message)\n")
								if callPos == "catch" {
									sb.WriteString("    " + calls[ck] + "\n")
								} else {
									sb.WriteString("    return \"caught@\" + n\n")
								}
							}
							if tk != "c" {
								sb.WriteString("  } finally {\n    L(\"fin\", n)\n")
								if callPos == "finally" {
									sb.WriteString("    if n > 0 {\n      " + strings.ReplaceAll(calls[ck], "\n    ", "\n      ") + "\n    }\n")
								}
							}
							sb.WriteString("  }\n")
							if callPos == "after" {
								sb.WriteString("  " + strings.ReplaceAll(calls[ck], "\n    ", "\n  ") + "\n")
							}
							sb.WriteString("}\n")
							sb.WriteString(fmt.Sprintf("try {\n  L(\"top\", f(%d))\n} catch ex {\n  L(\"escaped\", ex.Message == \"\" ? ex.Name : ex.Message)\n}\n", depth))
							sb.WriteString("L(\"after\", helper(21))\n")
							sb.WriteString("g := func() {\n  return helper(4) + 1\n}\nL(\"g\", g())\n")
							sb.WriteString("try {\n  L(\"again\", f(0))\n} catch ex2 {\n  L(\"escaped2\", ex2.Message == \"\" ? ex2.Name : ex2.Message)\n}\n")
							sb.WriteString("thrower := func() {\n  return [1][7]\n}\ntry {\n  thrower()\n} catch ex3 {\n  L(\"depth1-error\", ex3.Name)\n}\n")
							sb.WriteString("return helper(1)\n")
							out = append(out, sb.String())
						}
					}
				}
			}
		}
	}
	return out
}

// TailMixPrograms: a self-recursive function walks a plan; the plan entry of step i selects how activation i+1 is
// entered: 0 = returned self call in tail position (frame re-used), 1 = self call as the last statement, its value
// discarded (frame re-used, result must not leak), 2 = returned non-tail self call, 3 = discarded non-tail self call,
// 4 = throw. Every program runs several plans one after the other through the same function object (in the script, or
// through callVia when it is not empty). form 0: the discarded tail call is a bare last statement; form 1: it is the
// body of an if statement that ends the function.
func TailMixPrograms(callVia string, form int) []string {
	var plans [][]int
	var rec func(cur []int, n int)
	rec = func(cur []int, n int) {
		plans = append(plans, append([]int{}, cur...))
		plans = append(plans, append(append([]int{}, cur...), 4))
		if n == 0 {
			return
		}
		for k := 0; k < 4; k++ {
			rec(append(cur, k), n-1)
		}
	}
	rec(nil, 4)
	// fixed pseudo-random order so that throwing and non-throwing plans alternate irregularly
	s := uint64(0x9E3779B97F4A7C15)
	for i := len(plans) - 1; i > 0; i-- {
		s = s*6364136223846793005 + 1442695040888963407
		j := int((s >> 33) % uint64(i+1))
		plans[i], plans[j] = plans[j], plans[i]
	}
	call := "f(0)"
	if callVia != "" {
		call = callVia + "(f, 0)"
	}
	last := "  f(i + 1)\n"
	if form == 1 {
		last = "  if k == 1 {\n    f(i + 1)\n  }\n"
	}
	head := "global L\nplan := []\nvar f\nf = func(i) {\n  L(1, i)\n  if i >= len(plan) {\n    return 100 + i\n  }\n  k := plan[i]\n" +
		"  if k == 0 {\n    return f(i + 1)\n  }\n  if k == 2 {\n    return f(i + 1) + 1000\n  }\n  if k == 3 {\n    f(i + 1)\n    return 0 - i\n  }\n" +
		"  if k == 4 {\n    throw error(\"t\")\n  }\n" + last + "}\nout := []\n"
	var progs []string
	for i := 0; i < len(plans); i += 6 {
		var sb strings.Builder
		sb.WriteString(head)
		sb.WriteString("for p in [")
		for j := i; j < i+6 && j < len(plans); j++ {
			if j > i {
				sb.WriteString(", ")
			}
			sb.WriteString("[")
			for k, v := range plans[j] {
				if k > 0 {
					sb.WriteString(", ")
				}
				sb.WriteString(fmt.Sprint(v))
			}
			sb.WriteString("]")
		}
		sb.WriteString("] {\n  plan = p\n  try {\n    out = append(out, " + call + ")\n  } catch e {\n    out = append(out, \"E\")\n  }\n}\nreturn out\n")
		progs = append(progs, sb.String())
	}
	return progs
}
