// Package gen holds the seeded, grammar-directed program generators. Every
// generated program is well scoped (compiles), terminates by construction
// (bounded loops, decreasing recursion) and carries feature tags.
package gen

import (
	"fmt"
	"math/rand"
	"sort"
	"strings"
)

// Kind is the static kind the generator tracks for a variable.
type Kind int

// Variable kinds.
const (
	KInt Kind = iota
	KBool
	KStr
	KArr
	KMap
	KFn
	KErr // catch variable
)

type gvar struct {
	name     string
	kind     Kind
	ro       bool // never assigned by generated code (loop counters, functions, consts)
	global   bool
	arity    int
	variadic bool
	fnLevel  int
}

type gscope struct {
	vars  []*gvar
	names map[string]bool
	fn    bool
}

// Opts selects a generation profile.
type Opts struct {
	MaxStmts      int     // statement budget for the whole program
	MaxDepth      int     // block nesting
	ExprDepth     int     // expression nesting
	Faults        float64 // probability that an int expression is replaced by a faulting one
	Try           float64 // weight of try statements (0..1)
	Throw         float64 // probability of a throw statement where a statement is generated
	Funcs         float64 // weight of function definitions
	Shadow        float64 // probability that a declaration re-uses a visible outer name
	BuiltinShadow float64 // probability that a declaration uses a builtin's name (C01)
	LogProb       float64 // probability that an expression node is wrapped in L(id, e)
	Consts        float64 // weight of constant-heavy expressions (folding)
	Params        int     // number of `param`s of main
	Globals       bool    // use a script global variable G
	Modules       int     // number of source modules to create and import
	BuiltinMods   []string
	NoTopReturn   bool    // C10: never return at top level except the final statement
	TailRec       bool    // include tail-recursive helpers with large depth
	DeepRecursion int     // bound for non-tail recursion
	ImportProb    float64 // probability that a statement is an import use (C12)
	CallVia       string  // when set, calls of script functions are written CallVia(f, args...) (C14)
}

// Prog is a generated program.
type Prog struct {
	Src     string
	Modules map[string]string
	Builtin []string
	Tags    map[string]int
	NArgs   int
}

// TagList renders the tags sorted.
func (p *Prog) TagList() []string {
	var l []string
	for k := range p.Tags {
		l = append(l, k)
	}
	sort.Strings(l)
	return l
}

// G is the generator state.
type G struct {
	r          *rand.Rand
	o          Opts
	scopes     []*gscope
	nextV      int
	nextL      int
	budget     int
	loops      int
	fnLvl      int
	inTry      int
	tags       map[string]int
	noRet      bool // returning is not allowed here (top level with NoTopReturn)
	mods       []string
	modsrc     map[string]string
	inFinally  int
	noStrVars  bool // while generating the RHS of an assignment to a string variable (avoids s = s + s doubling)
	noShadowAt int  // scope depth at which declarations must use fresh names (try/catch/finally share one real scope)
}

var shadowableBuiltins = []string{"int", "uint", "float", "char", "string", "bool", "bytes", "chars", "len", "contains",
	"typeName", "error", "sprintf", "isInt", "isString", "isArray", "isMap", "isBool", "isUndefined", "isError", "isFunction", "isFloat", "isChar", "isUint"}

// Generate builds one program.
func Generate(r *rand.Rand, o Opts) *Prog {
	if o.MaxStmts == 0 {
		o.MaxStmts = 30
	}
	if o.MaxDepth == 0 {
		o.MaxDepth = 4
	}
	if o.ExprDepth == 0 {
		o.ExprDepth = 3
	}
	g := &G{r: r, o: o, tags: map[string]int{}, modsrc: map[string]string{}}
	p := &Prog{Tags: g.tags, Modules: g.modsrc, Builtin: o.BuiltinMods, NArgs: o.Params}
	// modules first (they may be imported by main and by later modules)
	for i := 0; i < o.Modules; i++ {
		name := fmt.Sprintf("mod%d", i)
		g.modsrc[name] = g.genModule(name)
		g.mods = append(g.mods, name)
	}
	p.Src = g.genMain()
	return p
}

func (g *G) tag(s string) { g.tags[s]++ }

func (g *G) push(fn bool) {
	g.scopes = append(g.scopes, &gscope{names: map[string]bool{}, fn: fn})
}
func (g *G) pop()         { g.scopes = g.scopes[:len(g.scopes)-1] }
func (g *G) cur() *gscope { return g.scopes[len(g.scopes)-1] }

func (g *G) declare(v *gvar) *gvar {
	v.fnLevel = g.fnLvl
	s := g.cur()
	s.vars = append(s.vars, v)
	s.names[v.name] = true
	return v
}

// visible returns variables of a kind, respecting shadowing (innermost wins).
func (g *G) visible(k Kind, writable bool) []*gvar {
	seen := map[string]bool{}
	var out []*gvar
	for i := len(g.scopes) - 1; i >= 0; i-- {
		s := g.scopes[i]
		for j := len(s.vars) - 1; j >= 0; j-- {
			v := s.vars[j]
			if seen[v.name] {
				continue
			}
			seen[v.name] = true
			if v.kind == k && (!writable || !v.ro) {
				out = append(out, v)
			}
		}
	}
	return out
}

func (g *G) allVisible() []*gvar {
	seen := map[string]bool{}
	var out []*gvar
	for i := len(g.scopes) - 1; i >= 0; i-- {
		s := g.scopes[i]
		for j := len(s.vars) - 1; j >= 0; j-- {
			v := s.vars[j]
			if seen[v.name] {
				continue
			}
			seen[v.name] = true
			out = append(out, v)
		}
	}
	return out
}

func (g *G) nameVisible(n string) bool {
	for _, s := range g.scopes {
		if s.names[n] {
			return true
		}
	}
	return false
}

// newName picks a name for a declaration in the current scope.
func (g *G) newName() string {
	cur := g.cur()
	if g.noShadowAt == len(g.scopes) {
		n := fmt.Sprintf("v%d", g.nextV)
		g.nextV++
		return n
	}
	if g.o.BuiltinShadow > 0 && g.r.Float64() < g.o.BuiltinShadow {
		n := shadowableBuiltins[g.r.Intn(len(shadowableBuiltins))]
		if !cur.names[n] {
			g.tag("shadow-builtin")
			return n
		}
	}
	if g.r.Float64() < g.o.Shadow {
		vis := g.allVisible()
		if len(vis) > 0 {
			v := vis[g.r.Intn(len(vis))]
			if !cur.names[v.name] && !v.global && v.name != "L" && v.name != "G" {
				g.tag("shadow-outer")
				return v.name
			}
		}
	}
	for {
		n := fmt.Sprintf("v%d", g.nextV)
		g.nextV++
		if !cur.names[n] {
			return n
		}
	}
}

func (g *G) pick(n int) int        { return g.r.Intn(n) }
func (g *G) chance(p float64) bool { return g.r.Float64() < p }

func (g *G) lid() int { g.nextL++; return g.nextL }

// logWrap wraps an expression in the event-log callback (which returns its last argument).
func (g *G) logWrap(e string) string {
	if g.chance(g.o.LogProb) {
		return fmt.Sprintf("L(%d, %s)", g.lid(), e)
	}
	return e
}

var intLits = []string{"0", "1", "2", "3", "5", "7", "10", "42", "100", "255", "256", "1000", "65535", "65536", "9223372036854775807", "4611686018427387904"}

func (g *G) intLit() string {
	if g.chance(0.8) {
		return intLits[g.pick(8)]
	}
	return intLits[g.pick(len(intLits))]
}

func (g *G) genInt(d int) string {
	if g.o.Faults > 0 && g.chance(g.o.Faults) {
		return g.faultInt()
	}
	if d <= 0 {
		vs := g.visible(KInt, false)
		if len(vs) > 0 && g.chance(0.6) {
			return vs[g.pick(len(vs))].name
		}
		return g.intLit()
	}
	switch g.pick(16) {
	case 0, 1, 2:
		ops := []string{"+", "-", "*", "&", "|", "^", "&^"}
		return g.logWrap("(" + g.genInt(d-1) + " " + ops[g.pick(len(ops))] + " " + g.genInt(d-1) + ")")
	case 3:
		return "(" + g.genInt(d-1) + []string{" / ", " % "}[g.pick(2)] + []string{"1", "2", "3", "7", "-3"}[g.pick(5)] + ")"
	case 4:
		return "(" + g.genInt(d-1) + []string{" << ", " >> "}[g.pick(2)] + []string{"0", "1", "3", "5"}[g.pick(4)] + ")"
	case 5:
		return "(" + []string{"-", "^", "+"}[g.pick(3)] + g.genInt(d-1) + ")"
	case 6:
		g.tag("ternary")
		return "(" + g.genBool(d-1) + " ? " + g.genInt(d-1) + " : " + g.genInt(d-1) + ")"
	case 7:
		if fs := g.visible(KFn, false); len(fs) > 0 {
			return g.logWrap(g.callFn(fs[g.pick(len(fs))], d-1))
		}
	case 8:
		if as := g.visible(KArr, false); len(as) > 0 {
			a := as[g.pick(len(as))]
			if g.chance(0.5) {
				return a.name + "[" + []string{"0", "1"}[g.pick(2)] + "]"
			}
			return "len(" + a.name + ")"
		}
	case 9:
		if ms := g.visible(KMap, false); len(ms) > 0 {
			m := ms[g.pick(len(ms))]
			if g.chance(0.5) {
				return m.name + "." + []string{"a", "b"}[g.pick(2)]
			}
			return m.name + "[\"" + []string{"a", "b"}[g.pick(2)] + "\"]"
		}
	case 10:
		g.tag("builtin-call")
		switch g.pick(5) {
		case 0:
			return "len(" + g.genStr(d-1) + ")"
		case 1:
			return "int(\"" + fmt.Sprint(g.pick(100)) + "\")"
		case 2:
			return "int(" + g.genBool(d-1) + ")"
		case 3:
			return "len(" + g.genArr(d-1) + ")"
		default:
			return "int(" + fmt.Sprint(g.pick(50)) + ".0)"
		}
	case 11:
		return g.logWrap(g.genInt(d - 1))
	case 12:
		if g.o.Consts > 0 && g.chance(g.o.Consts) {
			g.tag("const-expr")
			return g.constIntExpr(2)
		}
	case 13:
		g.tag("funclit-call")
		return "func(q) { return q + " + g.intLit() + " }(" + g.genInt(d-1) + ")"
	case 14:
		return "[" + g.genInt(d-1) + ", " + g.genInt(d-1) + "][" + []string{"0", "1"}[g.pick(2)] + "]"
	}
	vs := g.visible(KInt, false)
	if len(vs) > 0 && g.chance(0.7) {
		return vs[g.pick(len(vs))].name
	}
	return g.intLit()
}

// constIntExpr builds an expression of literals only (optimizer fodder).
func (g *G) constIntExpr(d int) string {
	if d <= 0 {
		switch g.pick(6) {
		case 0:
			return "true"
		case 1:
			return fmt.Sprint(g.pick(20)) + "u"
		case 2:
			return "'" + string(rune('a'+g.pick(26))) + "'"
		default:
			return g.intLit()
		}
	}
	switch g.pick(8) {
	case 0:
		return "int(\"" + fmt.Sprint(g.pick(1000)) + "\")"
	case 1:
		return "len(\"" + strings.Repeat("x", g.pick(5)) + "\")"
	case 2:
		return "(" + []string{"-", "^", "+"}[g.pick(3)] + g.constIntExpr(d-1) + ")"
	case 3:
		return "int(" + g.constIntExpr(d-1) + ")"
	case 4:
		return "(" + g.constIntExpr(d-1) + " << " + fmt.Sprint(g.pick(70)) + ")"
	default:
		ops := []string{"+", "-", "*", "&", "|", "^", "&^"}
		return "(" + g.constIntExpr(d-1) + " " + ops[g.pick(len(ops))] + " " + g.constIntExpr(d-1) + ")"
	}
}

func (g *G) faultInt() string {
	g.tag("fault")
	switch g.pick(12) {
	case 0:
		vs := g.visible(KInt, false)
		if len(vs) > 0 {
			v := vs[g.pick(len(vs))].name
			return "(" + g.intLit() + []string{" / ", " % "}[g.pick(2)] + "(" + v + " - " + v + "))"
		}
		return "(1 / (2 - 2))"
	case 1:
		if as := g.visible(KArr, false); len(as) > 0 {
			return as[g.pick(len(as))].name + "[" + []string{"99", "-1", "9223372036854775807"}[g.pick(3)] + "]"
		}
		return "[1, 2][5]"
	case 2:
		return "undefined.x.y()"
	case 3:
		return "(5)(1)"
	case 4:
		if fs := g.visible(KFn, false); len(fs) > 0 {
			f := fs[g.pick(len(fs))]
			if !f.variadic {
				args := make([]string, f.arity+1)
				for i := range args {
					args[i] = g.intLit()
				}
				return f.name + "(" + strings.Join(args, ", ") + ")"
			}
		}
		return "func(a){ return a }()"
	case 5:
		return "(1 << (0 - " + g.intLit() + "))"
	case 6:
		return "(\"s\" - 1)"
	case 7:
		return "[1, 2, 3][2:1][0]"
	case 8:
		return "{a: 1}.a.b.c"
	case 9:
		return "len(1, 2)"
	case 10:
		return "int(\"notanumber\")"
	default:
		return "(undefined + 1)"
	}
}

func (g *G) genBool(d int) string {
	if d <= 0 {
		vs := g.visible(KBool, false)
		if len(vs) > 0 && g.chance(0.5) {
			return vs[g.pick(len(vs))].name
		}
		return []string{"true", "false"}[g.pick(2)]
	}
	switch g.pick(9) {
	case 0, 1, 2:
		ops := []string{"<", "<=", ">", ">=", "==", "!="}
		return "(" + g.genInt(d-1) + " " + ops[g.pick(len(ops))] + " " + g.genInt(d-1) + ")"
	case 3:
		return "!" + g.genBool(d-1)
	case 4:
		g.tag("land")
		return "(" + g.genBool(d-1) + " && " + g.logWrap(g.genBool(d-1)) + ")"
	case 5:
		g.tag("lor")
		return "(" + g.genBool(d-1) + " || " + g.logWrap(g.genBool(d-1)) + ")"
	case 6:
		return []string{"isInt", "isString", "isArray", "isMap", "isUndefined", "isBool"}[g.pick(6)] + "(" + g.genAny(d-1) + ")"
	case 7:
		return "(" + g.genStr(d-1) + " == " + g.genStr(d-1) + ")"
	}
	vs := g.visible(KBool, false)
	if len(vs) > 0 {
		return vs[g.pick(len(vs))].name
	}
	return []string{"true", "false"}[g.pick(2)]
}

var strLits = []string{`""`, `"a"`, `"ab"`, `"xyz"`, `"hello"`, `"é"`, `"\xff"`, "`raw`"}

func (g *G) genStr(d int) string {
	if g.noStrVars {
		if d <= 0 || g.chance(0.5) {
			return strLits[g.pick(len(strLits))]
		}
		return "(" + g.genStr(d-1) + " + string(" + g.genInt(d-1) + "))"
	}
	if d <= 0 {
		vs := g.visible(KStr, false)
		if len(vs) > 0 && g.chance(0.5) {
			return vs[g.pick(len(vs))].name
		}
		return strLits[g.pick(len(strLits))]
	}
	switch g.pick(8) {
	case 0, 1:
		return "(" + g.genStr(d-1) + " + " + g.genStr(d-1) + ")"
	case 2:
		g.tag("builtin-call")
		return "string(" + g.genInt(d-1) + ")"
	case 3:
		g.tag("builtin-call")
		return "sprintf(\"%d-%s\", " + g.genInt(d-1) + ", " + g.genStr(d-1) + ")"
	case 4:
		g.tag("builtin-call")
		return "typeName(" + g.genAny(d-1) + ")"
	case 5:
		return "\"hello\"[" + []string{"0:2", "1:", ":3", "2:5"}[g.pick(4)] + "]"
	case 6:
		return "(" + g.genStr(d-1) + " + " + g.genInt(d-1) + ")"
	}
	vs := g.visible(KStr, false)
	if len(vs) > 0 {
		return vs[g.pick(len(vs))].name
	}
	return strLits[g.pick(len(strLits))]
}

func (g *G) genArr(d int) string {
	if d <= 0 {
		vs := g.visible(KArr, false)
		if len(vs) > 0 && g.chance(0.6) {
			return vs[g.pick(len(vs))].name
		}
		return "[" + g.intLit() + ", " + g.intLit() + "]"
	}
	switch g.pick(6) {
	case 0, 1:
		n := 2 + g.pick(3)
		el := make([]string, n)
		for i := range el {
			el[i] = g.genInt(d - 1)
		}
		return "[" + strings.Join(el, ", ") + "]"
	case 2:
		g.tag("builtin-call")
		return "append(" + g.genArr(d-1) + ", " + g.genInt(d-1) + ")"
	case 3:
		return "(" + g.genArr(d-1) + " + " + g.genInt(d-1) + ")"
	case 4:
		return "append(" + g.genArr(d-1) + ", " + g.genInt(d-1) + ", " + g.genInt(d-1) + ")[0:2]"
	}
	vs := g.visible(KArr, false)
	if len(vs) > 0 {
		return vs[g.pick(len(vs))].name
	}
	return "[" + g.intLit() + ", " + g.intLit() + "]"
}

func (g *G) genMap(d int) string {
	vs := g.visible(KMap, false)
	if len(vs) > 0 && g.chance(0.4) {
		return vs[g.pick(len(vs))].name
	}
	if d <= 0 {
		return "{a: " + g.intLit() + ", b: " + g.intLit() + "}"
	}
	return "{a: " + g.genInt(d-1) + ", b: " + g.genInt(d-1) + "}"
}

var floatLits = []string{"0.0", "-0.0", "1.5", "-2.25", "1e3", "0.1", "5e-324", "1.7976931348623157e308"}

func (g *G) genAny(d int) string {
	if g.chance(0.12) {
		g.tag("float-literal")
		return floatLits[g.pick(len(floatLits))]
	}
	switch g.pick(6) {
	case 0:
		return g.genInt(d)
	case 1:
		return g.genBool(d)
	case 2:
		return g.genStr(d)
	case 3:
		return g.genArr(d)
	case 4:
		return g.genMap(d)
	}
	return "undefined"
}

func (g *G) genKind(k Kind, d int) string {
	switch k {
	case KInt:
		return g.genInt(d)
	case KBool:
		return g.genBool(d)
	case KStr:
		return g.genStr(d)
	case KArr:
		return g.genArr(d)
	case KMap:
		return g.genMap(d)
	}
	return g.genInt(d)
}

// callFn builds a call of a known function with a matching argument list.
func (g *G) callFn(f *gvar, d int) string {
	g.tag("call")
	n := f.arity
	if f.variadic {
		n = f.arity - 1 + g.pick(4)
		g.tag("call-variadic")
	}
	args := make([]string, n)
	for i := range args {
		args[i] = g.logWrap(g.genInt(d))
	}
	if n > 0 && g.chance(0.25) {
		// spread the tail of the argument list
		k := 1 + g.pick(n)
		if k > n {
			k = n
		}
		head := args[:n-k]
		tail := args[n-k:]
		g.tag("call-spread")
		if g.o.CallVia != "" {
			return g.o.CallVia + "(" + strings.Join(append(append([]string{f.name}, head...), "...["+strings.Join(tail, ", ")+"]"), ", ") + ")"
		}
		return f.name + "(" + strings.Join(append(append([]string{}, head...), "...["+strings.Join(tail, ", ")+"]"), ", ") + ")"
	}
	if g.o.CallVia != "" {
		return g.o.CallVia + "(" + strings.Join(append([]string{f.name}, args...), ", ") + ")"
	}
	return f.name + "(" + strings.Join(args, ", ") + ")"
}

// recCalls emits the bounded call(s) of a recursion helper. With CallVia the helper is called through it,
// several times in a row (recursive path, base path, recursive path): per-VM state left by one call must
// not influence the next.
func (g *G) recCalls(o *out, name string, n int, acc string) {
	if g.o.CallVia == "" {
		o.line(fmt.Sprintf("L(%d, %s(%d, %s))", g.lid(), name, n, acc))
		return
	}
	if n > 40 {
		n = 40
	}
	for _, k := range []int{n, 0, 2, 0} {
		o.line(fmt.Sprintf("L(%d, %s(%s, %d, %s))", g.lid(), g.o.CallVia, name, k, acc))
	}
}

type out struct {
	sb  strings.Builder
	ind int
}

func (o *out) line(s string) {
	o.sb.WriteString(strings.Repeat("  ", o.ind))
	o.sb.WriteString(s)
	o.sb.WriteString("\n")
}

// genBlock emits statements into o until the local budget is used.
func (g *G) genBlock(o *out, n int, depth int) {
	for i := 0; i < n && g.budget > 0; i++ {
		g.genStmt(o, depth)
	}
}

func (g *G) genStmt(o *out, depth int) {
	g.budget--
	ed := g.o.ExprDepth
	if len(g.mods) > 0 && g.o.ImportProb > 0 && g.chance(g.o.ImportProb) {
		g.genImportUse(o)
		return
	}
	if g.o.CallVia != "" && g.chance(0.35) {
		if fs := g.visible(KFn, false); len(fs) > 0 {
			o.line(fmt.Sprintf("L(%d, %s)", g.lid(), g.callFn(fs[g.pick(len(fs))], ed-1)))
			return
		}
		if depth > 0 {
			g.genFuncDef(o, depth)
			return
		}
	}
	choice := g.pick(100)
	switch {
	case choice < 14: // define
		k := Kind(g.pick(5))
		e := g.genKind(k, ed)
		name := g.newName()
		if g.chance(0.3) {
			g.tag("var")
			o.line("var " + name + " = " + e)
		} else {
			g.tag("define")
			o.line(name + " := " + e)
		}
		g.declare(&gvar{name: name, kind: k})
	case choice < 17: // const
		g.tag("const")
		if g.chance(0.4) {
			n1, n2, n3 := g.newName(), "", ""
			g.declare(&gvar{name: n1, kind: KInt, ro: true})
			n2 = g.newName()
			g.declare(&gvar{name: n2, kind: KInt, ro: true})
			n3 = g.newName()
			g.declare(&gvar{name: n3, kind: KInt, ro: true})
			g.tag("iota")
			o.line("const (")
			o.line("  " + n1 + " = " + []string{"iota", "1 << iota", "iota * 10 + 1", "iota + " + g.intLit()}[g.pick(4)])
			o.line("  " + n2)
			o.line("  " + n3)
			o.line(")")
		} else {
			name := g.newName()
			if g.chance(0.5) {
				o.line("const " + name + " = " + g.intLit())
			} else {
				o.line("const " + name + " = " + g.genInt(1))
			}
			g.declare(&gvar{name: name, kind: KInt, ro: true})
		}
	case choice < 27: // assign
		k := Kind(g.pick(5))
		vs := g.visible(k, true)
		if len(vs) == 0 {
			o.line(fmt.Sprintf("L(%d, %s)", g.lid(), g.genInt(ed)))
			return
		}
		v := vs[g.pick(len(vs))]
		if v.fnLevel != g.fnLvl {
			g.tag("assign-captured")
		}
		if k == KInt && g.chance(0.5) {
			g.tag("compound-assign")
			if g.chance(0.3) {
				o.line(v.name + []string{"++", "--"}[g.pick(2)])
			} else {
				ops := []string{"+=", "-=", "*=", "&=", "|=", "^=", "&^=", "<<=", ">>="}
				op := ops[g.pick(len(ops))]
				rhs := g.genInt(ed - 1)
				if op == "<<=" || op == ">>=" {
					rhs = []string{"1", "2", "3"}[g.pick(3)]
				}
				o.line(v.name + " " + op + " " + rhs)
			}
		} else {
			g.tag("assign")
			if k == KStr {
				g.noStrVars = true
			}
			rhs := g.genKind(k, ed)
			g.noStrVars = false
			if k == KStr && g.chance(0.3) {
				rhs = "(" + v.name + " + \"x\")[0:1] + " + rhs
			}
			o.line(v.name + " = " + rhs)
		}
	case choice < 33: // index assignment
		if g.chance(0.5) {
			if ms := g.visible(KMap, false); len(ms) > 0 {
				m := ms[g.pick(len(ms))]
				g.tag("index-assign")
				key := []string{"a", "b"}[g.pick(2)]
				switch g.pick(3) {
				case 0:
					o.line(m.name + "." + key + " = " + g.genInt(ed))
				case 1:
					o.line(m.name + "[\"" + key + "\"] += " + g.genInt(ed-1))
				default:
					o.line(m.name + "[" + g.logWrap("\""+key+"\"") + "] = " + g.logWrap(g.genInt(ed-1)))
				}
				return
			}
		}
		if as := g.visible(KArr, false); len(as) > 0 {
			a := as[g.pick(len(as))]
			g.tag("index-assign")
			idx := []string{"0", "1"}[g.pick(2)]
			if g.chance(0.5) {
				o.line(a.name + "[" + g.logWrap(idx) + "] = " + g.logWrap(g.genInt(ed-1)))
			} else {
				o.line(a.name + "[" + idx + "]" + []string{"++", "--", " += 2", " *= 3"}[g.pick(4)])
			}
			return
		}
		o.line(fmt.Sprintf("L(%d, %s)", g.lid(), g.genAny(ed)))
	case choice < 37: // destructuring
		g.tag("destructuring")
		if g.chance(0.5) {
			var rhs string
			switch g.pick(3) {
			case 0:
				rhs = g.genArr(ed - 1)
			case 1:
				rhs = "[" + g.logWrap(g.genInt(ed-1)) + ", " + g.logWrap(g.genInt(ed-1)) + ", " + g.intLit() + "]"
			default:
				rhs = "func() { return " + g.genInt(1) + ", " + g.genInt(1) + " }()"
			}
			a := g.newName()
			g.declare(&gvar{name: a, kind: KInt})
			b := g.newName()
			g.declare(&gvar{name: b, kind: KInt})
			o.line(a + ", " + b + " := " + rhs)
		} else {
			vs := g.visible(KInt, true)
			if len(vs) >= 2 {
				a, b := vs[g.pick(len(vs))], vs[g.pick(len(vs))]
				if ms := g.visible(KMap, false); len(ms) > 0 && g.chance(0.4) {
					o.line(ms[0].name + ".a, " + b.name + " = " + g.genArr(ed-1))
				} else if a != b {
					o.line(a.name + ", " + b.name + " = " + g.genArr(ed-1))
				} else {
					o.line(a.name + " = " + g.genInt(ed))
				}
			} else {
				o.line(fmt.Sprintf("L(%d, %s)", g.lid(), g.genInt(ed)))
			}
		}
	case choice < 47: // log statement
		g.tag("log")
		o.line(fmt.Sprintf("L(%d, %s)", g.lid(), g.genAny(ed)))
	case choice < 52: // call statement
		if fs := g.visible(KFn, false); len(fs) > 0 {
			o.line(g.callFn(fs[g.pick(len(fs))], ed-1))
		} else {
			o.line(fmt.Sprintf("L(%d)", g.lid()))
		}
	case choice < 62: // if
		if depth <= 0 {
			o.line(fmt.Sprintf("L(%d)", g.lid()))
			return
		}
		g.tag("if")
		g.push(false)
		hdr := "if "
		if g.chance(0.25) {
			g.tag("if-init")
			n := g.newName()
			hdr += n + " := " + g.genInt(ed-1) + "; "
			g.declare(&gvar{name: n, kind: KInt})
		}
		o.line(hdr + g.genBool(ed) + " {")
		g.subBlock(o, depth)
		if g.chance(0.5) {
			if g.chance(0.3) {
				o.line("} else if " + g.genBool(ed-1) + " {")
				g.subBlock(o, depth)
			}
			o.line("} else {")
			g.subBlock(o, depth)
		}
		o.line("}")
		g.pop()
	case choice < 71: // loops
		if depth <= 0 {
			o.line(fmt.Sprintf("L(%d)", g.lid()))
			return
		}
		g.genLoop(o, depth)
	case choice < 79: // function definition
		if depth <= 0 || !g.chance(g.o.Funcs+0.3) {
			o.line(fmt.Sprintf("L(%d, %s)", g.lid(), g.genInt(ed)))
			return
		}
		g.genFuncDef(o, depth)
	case choice < 84: // break / continue
		if g.loops > 0 && g.inFinally == 0 {
			g.tag("branch")
			o.line("if " + g.genBool(ed-1) + " {")
			o.line("  " + []string{"break", "continue"}[g.pick(2)])
			o.line("}")
		} else {
			o.line(fmt.Sprintf("L(%d)", g.lid()))
		}
	case choice < 88: // return
		if !g.noRet && g.chance(0.5) {
			g.tag("early-return")
			o.line("if " + g.genBool(ed-1) + " {")
			o.line("  return " + g.genInt(ed-1))
			o.line("}")
		} else {
			o.line(fmt.Sprintf("L(%d, %s)", g.lid(), g.genStr(ed)))
		}
	default: // try / throw
		if g.chance(g.o.Try) && depth > 0 {
			g.genTry(o, depth)
		} else if g.chance(g.o.Throw) {
			g.genThrow(o)
		} else if len(g.mods) > 0 && g.chance(0.5) {
			g.genImportUse(o)
		} else {
			o.line(fmt.Sprintf("L(%d, %s)", g.lid(), g.genInt(ed)))
		}
	}
}

func (g *G) subBlock(o *out, depth int) {
	g.push(false)
	o.ind++
	g.genBlock(o, 1+g.pick(3), depth-1)
	o.ind--
	g.pop()
}

func (g *G) genThrow(o *out) {
	g.tag("throw")
	val := []string{`"boom"`, `error("custom")`, `TypeError.New("tt")`, fmt.Sprint(g.pick(9)), `[1, 2]`, `ZeroDivisionError`}[g.pick(6)]
	if g.chance(0.6) {
		o.line("if " + g.genBool(1) + " {")
		o.line("  throw " + val)
		o.line("}")
	} else {
		o.line("throw " + val)
	}
}

func (g *G) genLoop(o *out, depth int) {
	g.loops++
	saveFin := g.inFinally
	g.inFinally = 0
	defer func() { g.loops--; g.inFinally = saveFin }()
	g.push(false)
	defer g.pop()
	switch g.pick(5) {
	case 0, 1:
		g.tag("for")
		i := g.newName()
		g.declare(&gvar{name: i, kind: KInt, ro: true})
		o.line(fmt.Sprintf("for %s := 0; %s < %d; %s++ {", i, i, 1+g.pick(4), i))
	case 2:
		g.tag("for-cond")
		// condition-only loop over a dedicated counter declared just before
		cn := fmt.Sprintf("c%d", g.nextV)
		g.nextV++
		o.line(cn + " := " + fmt.Sprint(1+g.pick(3)))
		g.declare(&gvar{name: cn, kind: KInt, ro: true})
		o.line("for " + cn + " > 0 {")
		o.ind++
		o.line(cn + "--")
		o.ind--
	case 3:
		g.tag("forin-array")
		iter := g.genArr(1)
		k, v := g.newName(), ""
		if g.chance(0.5) {
			g.declare(&gvar{name: k, kind: KInt, ro: true})
			v = g.newName()
			g.declare(&gvar{name: v, kind: KInt, ro: true})
			o.line("for " + k + ", " + v + " in " + iter + " {")
		} else {
			g.declare(&gvar{name: k, kind: KInt, ro: true})
			o.line("for " + k + " in " + iter + " {")
		}
	default:
		g.tag("forin-other")
		iterVal := g.genInt(1)
		k := g.newName()
		g.declare(&gvar{name: k, kind: KStr, ro: true})
		v := g.newName()
		g.declare(&gvar{name: v, kind: KInt, ro: true})
		if g.chance(0.5) {
			o.line("for " + k + ", " + v + " in {only: " + iterVal + "} {")
		} else {
			// string iteration: index (int) and char — declare kinds accordingly
			g.cur().vars[len(g.cur().vars)-2].kind = KInt
			g.cur().vars[len(g.cur().vars)-1].kind = KErr // char: not used as int
			o.line("for " + k + ", " + v + " in \"abc\" {")
		}
	}
	g.subBlock(o, depth)
	o.line("}")
}

func (g *G) genFuncDef(o *out, depth int) {
	g.tag("funcdef")
	name := g.newName()
	arity := g.pick(4)
	variadic := arity > 0 && g.chance(0.25)
	kindOfFn := g.pick(10)
	if kindOfFn == 0 && g.o.DeepRecursion > 0 {
		// non-tail recursion
		g.tag("recursion")
		o.line("var " + name)
		o.line(name + " = func(n, acc) {")
		g.declare(&gvar{name: name, kind: KErr, ro: true, arity: 2})
		o.line("  if n <= 0 {")
		o.line("    return acc")
		o.line("  }")
		o.line(fmt.Sprintf("  return %s(n - 1, acc + n) + 1", name))
		o.line("}")
		g.recCalls(o, name, 1+g.pick(g.o.DeepRecursion), g.intLit())
		return
	}
	if kindOfFn == 1 {
		// tail recursion, several shapes
		g.tag("tail-recursion")
		n := 3 + g.pick(8)
		if g.o.TailRec && g.chance(0.3) {
			n = 1500 + g.pick(3000)
			g.tag("tail-recursion-deep")
		}
		o.line("var " + name)
		g.declare(&gvar{name: name, kind: KErr, ro: true, arity: 2})
		switch g.pick(4) {
		case 0:
			o.line(name + " = func(n, acc) {")
			o.line("  if n <= 0 {")
			o.line("    return acc")
			o.line("  }")
			o.line(fmt.Sprintf("  return %s(n - 1, acc + n)", name))
			o.line("}")
		case 1:
			// self call as last expression statement: value must be discarded
			g.tag("self-call-discarded")
			o.line(name + " = func(n, acc) {")
			o.line("  if n <= 0 {")
			o.line("    return acc")
			o.line("  }")
			o.line(fmt.Sprintf("  %s(n - 1, acc + n)", name))
			o.line("}")
		case 2:
			// tail call with argument expressions reading the parameters being overwritten
			o.line(name + " = func(a, b) {")
			o.line("  if a <= 0 {")
			o.line("    return [a, b]")
			o.line("  }")
			o.line(fmt.Sprintf("  return %s(b - b + a - 1, a + b)", name))
			o.line("}")
		default:
			// closure created inside a tail-recursive function captures the parameter
			g.tag("tail-recursion-capture")
			hold := fmt.Sprintf("h%d", g.nextV)
			g.nextV++
			o.line(hold + " := []")
			g.declare(&gvar{name: hold, kind: KErr, ro: true})
			o.line(name + " = func(n, acc) {")
			o.line("  if n <= 0 {")
			o.line("    return acc")
			o.line("  }")
			o.line("  if n < 4 {")
			o.line("    " + hold + " = append(" + hold + ", func() { return n })")
			o.line("  }")
			o.line(fmt.Sprintf("  return %s(n - 1, acc + n)", name))
			o.line("}")
			g.recCalls(o, name, n, "0")
			o.line("for hf in " + hold + " {")
			o.line(fmt.Sprintf("  L(%d, hf())", g.lid()))
			o.line("}")
			return
		}
		g.recCalls(o, name, n, g.intLit())
		return
	}
	params := make([]string, arity)
	g.push(true)
	g.fnLvl++
	saveLoops, saveNoRet, saveFin := g.loops, g.noRet, g.inFinally
	g.loops, g.noRet, g.inFinally = 0, false, 0
	for i := range params {
		pn := g.newName()
		params[i] = pn
		if variadic && i == arity-1 {
			g.declare(&gvar{name: pn, kind: KArr, ro: true}) // variadic param: array (may be empty → not indexed)
			g.cur().vars[len(g.cur().vars)-1].kind = KErr
			params[i] = "..." + pn
		} else {
			g.declare(&gvar{name: pn, kind: KInt})
		}
	}
	o.line(name + " := func(" + strings.Join(params, ", ") + ") {")
	g.push(false)
	o.ind++
	g.genBlock(o, 1+g.pick(4), depth-1)
	ret := g.genInt(g.o.ExprDepth - 1)
	if variadic {
		ret = "(" + ret + " + len(" + strings.TrimPrefix(params[arity-1], "...") + "))"
	}
	o.line("return " + ret)
	o.ind--
	g.pop()
	o.line("}")
	g.loops, g.noRet, g.inFinally = saveLoops, saveNoRet, saveFin
	g.fnLvl--
	g.pop()
	g.declare(&gvar{name: name, kind: KFn, ro: true, arity: arity, variadic: variadic})
}

// genCaptureInTry: a variable declared in a nested block of a try body is captured by a closure that
// outlives the statement; the catch identifier (and later declarations) re-use that local slot.
func (g *G) genCaptureInTry(o *out) {
	g.tag("capture-in-try")
	h := fmt.Sprintf("h%d", g.nextV)
	cv := fmt.Sprintf("cv%d", g.nextV+1)
	en := fmt.Sprintf("e%d", g.nextV+2)
	g.nextV += 3
	o.line(h + " := []")
	g.declare(&gvar{name: h, kind: KErr, ro: true})
	o.line("try {")
	o.line("  if true {")
	o.line("    " + cv + " := " + g.genInt(1))
	o.line("    " + h + " = append(" + h + ", func() { " + cv + "++; return " + cv + " })")
	o.line("  }")
	switch g.pick(3) {
	case 0:
		o.line("  throw \"cap\"")
	case 1:
		o.line("  " + h + "[5]()")
	default:
		o.line(fmt.Sprintf("  L(%d)", g.lid()))
	}
	if g.chance(0.7) {
		o.line("} catch " + en + " {")
		o.line(fmt.Sprintf("  L(%d, isError(%s))", g.lid(), en))
		if g.chance(0.5) {
			o.line("} finally {")
			o.line(fmt.Sprintf("  after%s := %s", en, g.intLit()))
			o.line(fmt.Sprintf("  L(%d, after%s)", g.lid(), en))
		}
	} else {
		o.line("} catch {")
	}
	o.line("}")
	o.line("for hf in " + h + " {")
	o.line(fmt.Sprintf("  L(%d, hf())", g.lid()))
	o.line("}")
}

func (g *G) genTry(o *out, depth int) {
	if g.chance(0.15) {
		g.genCaptureInTry(o)
		return
	}
	g.tag("try")
	g.inTry++
	defer func() { g.inTry-- }()
	g.push(false) // one scope for try/catch/finally
	defer g.pop()
	o.line("try {")
	o.ind++
	// statements of the try body must not declare names used later in catch/finally: use a nested scope
	saveNS := g.noShadowAt
	defer func() { g.noShadowAt = saveNS }()
	g.push(false)
	g.noShadowAt = len(g.scopes)
	g.genBlock(o, 1+g.pick(3), depth-1)
	if g.chance(0.5) {
		g.genThrow(o)
	}
	g.pop()
	o.ind--
	form := g.pick(3) // 0 catch, 1 finally, 2 both
	if form != 1 {
		if g.chance(0.8) {
			cn := fmt.Sprintf("e%d", g.nextV)
			g.nextV++
			if g.o.BuiltinShadow > 0 && g.chance(g.o.BuiltinShadow*3) {
				cn = shadowableBuiltins[g.pick(len(shadowableBuiltins))]
				g.tag("shadow-builtin-catch")
			}
			o.line("} catch " + cn + " {")
			g.push(false)
			g.noShadowAt = len(g.scopes)
			g.declare(&gvar{name: cn, kind: KErr, ro: true})
			o.ind++
			o.line(fmt.Sprintf("L(%d, isError(%s) ? %s.Name : \"noerr\")", g.lid(), cn, cn))
		} else {
			o.line("} catch {")
			g.push(false)
			g.noShadowAt = len(g.scopes)
			o.ind++
		}
		g.genBlock(o, g.pick(3), depth-1)
		if g.chance(0.15) {
			g.genThrow(o)
		}
		o.ind--
		g.pop()
	}
	if form != 0 {
		o.line("} finally {")
		g.push(false)
		g.noShadowAt = len(g.scopes)
		g.inFinally++
		o.ind++
		o.line(fmt.Sprintf("L(%d)", g.lid()))
		g.genBlock(o, g.pick(3), depth-1)
		o.ind--
		g.inFinally--
		g.pop()
	}
	o.line("}")
}

func (g *G) genImportUse(o *out) {
	g.tag("import")
	m := g.mods[g.pick(len(g.mods))]
	switch g.pick(5) {
	case 3:
		// state written through one import site must be visible through another
		o.line(fmt.Sprintf("import(\"%s\").bump(%s)", m, g.intLit()))
		o.line(fmt.Sprintf("L(%d, import(\"%s\").get())", g.lid(), m))
		return
	case 4:
		o.line(fmt.Sprintf("L(%d, import(\"%s\").dep())", g.lid(), m))
		return
	}
	switch g.pick(3) {
	case 0:
		o.line(fmt.Sprintf("L(%d, import(\"%s\").bump(%s))", g.lid(), m, g.genInt(1)))
	case 1:
		o.line(fmt.Sprintf("L(%d, import(\"%s\").get())", g.lid(), m))
	default:
		n := g.newName()
		o.line(n + " := import(\"" + m + "\")")
		g.declare(&gvar{name: n, kind: KErr, ro: true})
		o.line(fmt.Sprintf("L(%d, %s.bump(1) + %s.get())", g.lid(), n, n))
	}
}

// genModule creates a stateful source module exporting accessor closures.
func (g *G) genModule(name string) string {
	var o out
	g.scopes = nil
	g.push(true)
	o.line("global L")
	g.declare(&gvar{name: "L", kind: KErr, ro: true, global: true})
	o.line(fmt.Sprintf("L(\"body-%s\")", name))
	o.line("state := " + g.intLit())
	g.declare(&gvar{name: "state", kind: KInt})
	saveBudget := g.budget
	g.budget = 4
	g.noRet = true
	g.genBlock(&o, 3, 2)
	g.noRet = false
	g.budget = saveBudget
	if len(g.mods) > 0 && g.chance(0.6) {
		dep := g.mods[g.pick(len(g.mods))]
		o.line("dep := import(\"" + dep + "\")")
		if g.chance(0.5) {
			o.line("return {bump: func(d) { state += d; return state + dep.bump(1) }, get: func() { return state * 1000 + dep.get() }, dep: func() { return import(\"" + dep + "\").get() }}")
		} else {
			// import inside a function of the module: executes only when called
			dep2 := g.mods[g.pick(len(g.mods))]
			o.line("return {bump: func(d) { state += d; return state + dep.bump(1) }, get: func() { return state * 1000 + dep.get() }, dep: func() { return import(\"" + dep2 + "\").bump(1) }}")
		}
	} else {
		o.line("return {bump: func(d) { state += d; return state }, get: func() { return state }, dep: func() { return -state }}")
	}
	g.pop()
	return o.sb.String()
}

func (g *G) genMain() string {
	var o out
	g.scopes = nil
	g.push(true)
	g.budget = g.o.MaxStmts
	g.noRet = g.o.NoTopReturn
	o.line("global L")
	g.declare(&gvar{name: "L", kind: KErr, ro: true, global: true})
	if g.o.Globals {
		o.line("global G")
		g.declare(&gvar{name: "G", kind: KInt, global: true})
	}
	if g.o.Params > 0 {
		ps := make([]string, g.o.Params)
		for i := range ps {
			ps[i] = fmt.Sprintf("p%d", i)
			g.declare(&gvar{name: ps[i], kind: KInt})
		}
		if len(ps) == 1 {
			o.line("param " + ps[0])
		} else {
			o.line("param (" + strings.Join(ps, ", ") + ")")
		}
	}
	for _, b := range g.o.BuiltinMods {
		o.line(fmt.Sprintf("bm_%s := import(\"%s\")", b, b))
		g.declare(&gvar{name: "bm_" + b, kind: KErr, ro: true})
	}
	g.genBlock(&o, g.o.MaxStmts, g.o.MaxDepth)
	// final state: every top-level data variable still in scope
	var parts []string
	for _, v := range g.scopes[0].vars {
		switch v.kind {
		case KInt, KBool, KStr, KArr, KMap:
			if !g.shadowedLater(v) {
				parts = append(parts, v.name)
			}
		}
	}
	o.line("return [" + strings.Join(parts, ", ") + "]")
	g.pop()
	return o.sb.String()
}

// shadowedLater reports whether a later top-level declaration re-used the name with another kind.
func (g *G) shadowedLater(v *gvar) bool {
	last := v
	for _, x := range g.scopes[0].vars {
		if x.name == v.name {
			last = x
		}
	}
	return last != v
}
