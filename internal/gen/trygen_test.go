package gen

import "testing"

func TestTryCounts(t *testing.T) {
	e := NewTryEnum(2)
	for size := 1; size <= 5; size++ {
		t.Logf("size %d depth3: %d lists", size, len(e.List(size, 3, false)))
	}
	src, _ := RenderTry(e.List(4, 3, false)[5000], []int{0, 3}, 1)
	t.Log("\n" + src)
}
