#!/bin/bash
# run.sh <Cnn> <quick|thorough>   — rebuild from /repo's working tree (hooks on) and run one check
# run.sh replay <Cnn> <path>
set -u
cd "$(dirname "$0")"
export GOFLAGS=-mod=mod GOPROXY=off GOSUMDB=off GOTOOLCHAIN=local
export VERIF_DIR="$(pwd)"
mkdir -p bin evidence replay work
build() {
  go build -tags verif -o bin/vcheck ./cmd/vcheck || { echo "BUILD FAILED (plain)"; exit 3; }
}
build_race() {
  go build -race -tags verif -o bin/vcheck.race ./cmd/vcheck || { echo "BUILD FAILED (race)"; exit 3; }
}
build_ugo() {
  # the command line interpreter (for the process-level cancellation probe of C09)
  (cd /repo && go build -o "$VERIF_DIR/bin/ugo" ./cmd/ugo) || { echo "BUILD FAILED (cmd/ugo)"; exit 3; }
}
needs_race() { case "$1" in C08|C09|C14) return 0;; *) return 1;; esac; }
if [ "${1:-}" = "build" ]; then build; build_race; exit 0; fi
if [ "${1:-}" = "replay" ]; then
  build; if needs_race "$2"; then build_race; fi
  exec bin/vcheck replay "$2" "$3"
fi
prop="$1"; tier="${2:-quick}"
export VERIF_TIER="$tier"
build
if needs_race "$prop"; then build_race; fi
if [ "$prop" = "C09" ]; then build_ugo; fi
exec bin/vcheck run "$prop" "$tier"
