#!/bin/bash
# Offline setup after a fresh restore: build the harness binaries (warms the Go build cache).
set -e
cd "$(dirname "$0")"
export GOFLAGS=-mod=mod GOPROXY=off GOSUMDB=off GOTOOLCHAIN=local
mkdir -p bin evidence replay work
go build -tags verif -o bin/vcheck ./cmd/vcheck
go build -race -tags verif -o bin/vcheck.race ./cmd/vcheck
echo setup ok
