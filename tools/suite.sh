#!/bin/bash
# Runs the repository's pinned suite with the verif tag OFF and compares against BASELINE.json stable_pass.
export GOFLAGS=-mod=mod GOPROXY=off GOSUMDB=off GOTOOLCHAIN=local
cd /repo || exit 3
out=$(mktemp /var/tmp/suite.XXXXXX.json)
go test -mod=mod -json -vet=off -count=1 -timeout 25m ./... > "$out" 2>/dev/null
python3 - "$out" <<'PY'
import json,sys,re
norm=lambda k: re.sub(r'0x[0-9a-f]+','0xADDR',k)
passed=set(); failed=set()
for line in open(sys.argv[1]):
    try: e=json.loads(line)
    except: continue
    if 'Test' not in e: continue
    k=norm(e['Package']+'::'+e['Test'])
    if e.get('Action')=='pass': passed.add(k)
    elif e.get('Action')=='fail': failed.add(k)
base=set(norm(x) for x in json.load(open('/root/.vp/BASELINE.json'))['stable_pass'])
missing=sorted(base-passed)
print("baseline stable_pass:",len(base),"passed now:",len(passed),"failed now:",len(failed),"missing from pass:",len(missing))
for m in missing[:40]: print("  MISSING",m)
for m in sorted(failed)[:40]: print("  FAILED",m)
sys.exit(1 if missing or failed else 0)
PY
rc=$?
rm -f "$out"
exit $rc
