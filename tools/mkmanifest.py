#!/usr/bin/env python3
"""Regenerates MANIFEST.json from the table below (run after adding a monitor)."""
import json, subprocess, os
V='/verif'
checks = {
 # id: (category, technique, text, note, design_ref)
 'C01': ('exploration', 'runtime monitor: differential oracle (optimizer off vs OptimizerLimit 1,2,3,5,10,100) on value/output/globals/error, plus position-free validation of optimizer refusals against the errors raised by the script\'s own constant sub-expressions',
   'Exhaustive matrix of 13 binding forms x 25 foldable builtin names x use positions, exhaustive operator x literal folding table, and seeded generated programs with builtin shadowing and constant-heavy expressions; every bytecode is run and compared with the unoptimized one. Held on what was run.',
   'the unoptimized compile+run is the reference (its semantics are C02\'s business); refusal validation trusts a small constant-expression renderer in c01.go', 'DESIGN.md §3 C01'),
 'C02': ('exploration', 'runtime monitor: reference-model oracle (independent tree-walking interpreter written from docs/) over seeded generated programs, fixed probes and an exhaustive arity/variadic/spread matrix; compares value, side-effect event log, globals, error name',
   'Each generated program is executed by the real compiler+VM (optimizer off and on) and by internal/ref; any difference in returned value, order of logged side effects, global updates or error name is a violation. Seeded sampling of a grammar; exhaustive only for the call-arity matrix. Held on the executions produced.',
   'trusts internal/ref (≈1200 lines, each rule a sentence of docs/), the shared parser and the shared value library (operators/builtins judged by C15/C19); constructs whose documented meaning is ambiguous are not generated (DESIGN.md §3 C02)', 'DESIGN.md §3 C02'),
 'C03': ('exploration', 'runtime monitor: reference-model oracle over exhaustively enumerated try/catch/finally x loop x exit-kind trees (sizes 1-3 x 10 histories x 4 wrappers; size 4; sampled 5-9), comparing order AND multiplicity of logged body executions',
   'Every tree of the stated grammar up to the size bound is rendered with a history prefix of completed try statements and a call wrapper, run on the VM (optimizer off/on) and on the reference; finally-exactly-once, pending outcome, caught-not-rethrown and no-influence-of-completed-statements are all implied by log equality. Exhaustive to the bound, sampled above.',
   'trusts internal/ref try/catch/finally (ECMAScript completion semantics) and the parser; one known finding (stale catch identifier) is matched by a narrow history predicate + log mask', 'DESIGN.md §3 C03'),
 'C20': ('exploration', 'runtime monitor: round-trip oracles (uGO->Go->uGO type-exact, Go->uGO->Go deep-equal), exhaustive numeric width table checked with math/big, unsupported-type and registry tables, panic monitor on every call',
   'Seeded nested values in both directions through ToObject, ToObjectAlt and ToInterface plus exhaustive tables of every Go numeric width x boundary values x nesting shapes, 68 unsupported Go types and the time/json registry types. Held on what was run.',
   'trusts canon.Value rendering, reflect.DeepEqual-style comparator in c20values.go and math/big', 'DESIGN.md §3 C20'),
 'C04': ('exploration', 'runtime monitor: differential oracle original vs decoded vs re-decoded bytecode (value, event log, globals, error, stack-trace lines) over a constants profile and seeded generated programs with source and builtin modules',
   'Every program is compiled, encoded, decoded with the same modules, re-encoded and decoded again; the three bytecodes are run on three argument vectors and compared; encode/decode failures or panics on compiler output are violations. Held on what was run.',
   'the run of the original bytecode is the reference; canonical outcome comparison (floats by bits)', 'DESIGN.md §3 C04'),
 'C06': ('exploration', 'runtime monitor: host-panic sanitizer (recover() around VM.Run on its own goroutine, child-process crash attribution) + follow-up-run probes on the same VM, over an exhaustive fault x context matrix and generated faulty programs',
   'About 65 fault expressions (operators, indexing, calls, panicking Go callbacks and a hostile custom Object, resource exhaustion at the 2048-slot and 1024-frame edges) are placed in 13 contexts and run with recovery on; any panic reaching the harness, a nil/nil result, or a wrong follow-up run on the same VM is a violation. Exhaustive over the matrix, sampled over generated programs.',
   'Go stack exhaustion by native recursion is out of the budget; callbacks honour the Object contract', 'DESIGN.md §3 C06'),
 'C07': ('exploration', 'runtime monitor: used-VM vs new-VM differential over enumerated run histories (13 termination kinds x 4 transitions x 8 observers exhaustive, random histories up to length 6), plus canonical bytecode dump before/after',
   'Histories including aborted, overflowed, panicked (recovered and unrecovered) runs are executed on one VM; the observed script then must behave exactly as on a new VM, repeatably, and no involved Bytecode may change. Exhaustive single-step product, sampled longer histories.',
   'map iteration order never observable in observers; REPL-style re-run without Clear is out of the statement', 'DESIGN.md §3 C07'),
 'C11': ('exploration', 'runtime monitor: differential oracle v2 program vs the same program down-converted to the version-1 layout by the harness and decoded by the repository (value, log, globals, error, trace lines); down-converter self-validated by its inverse on every program',
   'Seeded generated programs rich in jumps/try statements (and fixed probes) are re-laid into the v1 operand widths with relocated targets, given a v1 header, decoded and run against the original on three argument vectors. Held on what was run; programs not representable in v1 are skipped and counted.',
   'trusts encoder/opv1.OpcodeOperands as the v1 layout and the harness relayout (checked by round trip against the original bytes)', 'DESIGN.md §3 C11'),
 'C15': ('exploration', 'runtime monitor: algebraic-law + reference-evaluator oracle over exhaustive boundary-pool pairs, panic monitor (recover) on direct and VM routes',
   'Every ordered pair of a ~75-value boundary pool x every operator is executed on the real Object.BinaryOp/Equal and on a VM; laws, an independent documented-conversion evaluator and a panic monitor judge each result. Exhaustive over the pool, sampled (seeded) over random 64-bit operands in thorough. Held-on-what-was-run, not a proof.',
   'trusts the small evaluator in internal/props/c15.go and Go arithmetic; relational cells where the document is silent are only subject to the laws', 'DESIGN.md §3 C15'),
}
impl = sorted(checks)
allp = [json.loads(l)['id'] for l in open(f'{V}/properties.jsonl')]
man = {
 'version': 1,
 'setup_cmd': './setup.sh',
 'hooks': {
   'guard': 'verif',
   'enable': 'go build -tags verif (run.sh passes -tags verif to every build of the harness, which compiles /repo from its working tree through a go.mod replace)',
   'baseline_off_cmd': 'cd /repo && GOFLAGS=-mod=mod GOPROXY=off GOSUMDB=off go test -mod=mod -json -vet=off -count=1 -timeout 25m ./...',
   'source_commits': [],
   'add_only': True,
 },
 'engines': [
   {'name': 'vcheck', 'path': 'cmd/vcheck', 'serves_properties': impl,
    'kind_free_text': 'Go driver: parent orchestrator + isolated child workers (crash attribution by pre-logged case), per-property runtime monitors in internal/props, canonical outcome comparison, reference interpreter, known-finding matching, evidence writer'},
 ],
 'checks': [],
 'notes': 'All checks: ./run.sh <id> <tier> rebuilds bin/vcheck (and bin/vcheck.race for C08/C09/C14) from /repo working tree with -tags verif, runs, writes evidence/<id>.json. Exit 0 held / 1 VIOLATION / 2 broken-or-inconclusive run. VERIF_SEED selects the PRNG seed.',
 'not_applicable': [],
}
for pid in allp:
    if pid in checks:
        cat, tech, text, note, ref = checks[pid]
        man['checks'].append({
          'property_id': pid,
          'quick_cmd': f'./run.sh {pid} quick',
          'thorough_cmd': f'./run.sh {pid} thorough',
          'evidence_file': f'/verif/evidence/{pid}.json',
          'replay_cmd_template': f'./run.sh replay {pid} {{path}}',
          'engine': 'vcheck',
          'level_claimed': {'category': cat, 'text': text, 'design_ref': ref},
          'level_note': note,
          'technique': tech,
        })
    else:
        man['not_applicable'].append({'property_id': pid, 'reason': 'monitor not built yet in this round (planned in DESIGN.md §3); no claim is made'})
hooks_file = f'{V}/tools/hook_commits.txt'
if os.path.exists(hooks_file):
    man['hooks']['source_commits'] = [l.strip() for l in open(hooks_file) if l.strip()]
json.dump(man, open(f'{V}/MANIFEST.json','w'), indent=1)
print('checks:', len(man['checks']), 'not_applicable:', len(man['not_applicable']))
