#!/usr/bin/env python3
"""Regenerates MANIFEST.json from the table below (run after adding a monitor)."""
import json, subprocess, os
V='/verif'
checks = {
 # id: (category, technique, text, note, design_ref)
 'C15': ('exploration', 'runtime monitor: algebraic-law + reference-evaluator oracle over exhaustive boundary-pool pairs, panic monitor (recover) on direct and VM routes',
   'Every ordered pair of a ~75-value boundary pool x every operator is executed on the real Object.BinaryOp/Equal and on a VM; laws, an independent documented-conversion evaluator and a panic monitor judge each result. Exhaustive over the pool, sampled (seeded) over random 64-bit operands in thorough. Held-on-what-was-run, not a proof.',
   'trusts the small evaluator in internal/props/c15.go and Go arithmetic; relational cells where the document is silent are only subject to the laws', 'DESIGN.md §3 C15'),
}
impl = sorted(checks)
allp = [json.loads(l)['id'] for l in open(f'{V}/properties.jsonl')]
man = {
 'version': 1,
 'setup_cmd': './setup.sh',
 'hooks': {
   'guard': 'verif',
   'enable': 'go build -tags verif (run.sh passes -tags verif to every build of the harness, which compiles /repo from its working tree through a go.mod replace)',
   'baseline_off_cmd': 'cd /repo && GOFLAGS=-mod=mod GOPROXY=off GOSUMDB=off go test -mod=mod -json -vet=off -count=1 -timeout 25m ./...',
   'source_commits': [],
   'add_only': True,
 },
 'engines': [
   {'name': 'vcheck', 'path': 'cmd/vcheck', 'serves_properties': impl,
    'kind_free_text': 'Go driver: parent orchestrator + isolated child workers (crash attribution by pre-logged case), per-property runtime monitors in internal/props, canonical outcome comparison, reference interpreter, known-finding matching, evidence writer'},
 ],
 'checks': [],
 'notes': 'All checks: ./run.sh <id> <tier> rebuilds bin/vcheck (and bin/vcheck.race for C08/C09/C14) from /repo working tree with -tags verif, runs, writes evidence/<id>.json. Exit 0 held / 1 VIOLATION / 2 broken-or-inconclusive run. VERIF_SEED selects the PRNG seed.',
 'not_applicable': [],
}
for pid in allp:
    if pid in checks:
        cat, tech, text, note, ref = checks[pid]
        man['checks'].append({
          'property_id': pid,
          'quick_cmd': f'./run.sh {pid} quick',
          'thorough_cmd': f'./run.sh {pid} thorough',
          'evidence_file': f'/verif/evidence/{pid}.json',
          'replay_cmd_template': f'./run.sh replay {pid} {{path}}',
          'engine': 'vcheck',
          'level_claimed': {'category': cat, 'text': text, 'design_ref': ref},
          'level_note': note,
          'technique': tech,
        })
    else:
        man['not_applicable'].append({'property_id': pid, 'reason': 'monitor not built yet in this round (planned in DESIGN.md §3); no claim is made'})
hooks_file = f'{V}/tools/hook_commits.txt'
if os.path.exists(hooks_file):
    man['hooks']['source_commits'] = [l.strip() for l in open(hooks_file) if l.strip()]
json.dump(man, open(f'{V}/MANIFEST.json','w'), indent=1)
print('checks:', len(man['checks']), 'not_applicable:', len(man['not_applicable']))
