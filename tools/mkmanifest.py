#!/usr/bin/env python3
"""Regenerates MANIFEST.json from the table below (run after adding a monitor)."""
import json, subprocess, os
V='/verif'
checks = {
 # id: (category, technique, text, note, design_ref)
 'C01': ('exploration', 'runtime monitor: differential oracle (optimizer off vs OptimizerLimit 1,2,3,5,10,100) on value/output/globals/error, plus position-free validation of optimizer refusals against the errors raised by the script\'s own constant sub-expressions',
   'Exhaustive matrix of 13 binding forms x 25 foldable builtin names x use positions, exhaustive operator x literal folding table, and seeded generated programs with builtin shadowing and constant-heavy expressions; every bytecode is run and compared with the unoptimized one. Held on what was run.',
   'the unoptimized compile+run is the reference (its semantics are C02\'s business); refusal validation trusts a small constant-expression renderer in c01.go', 'DESIGN.md §3 C01'),
 'C02': ('exploration', 'runtime monitor: reference-model oracle (independent tree-walking interpreter written from docs/) over seeded generated programs, fixed probes and an exhaustive arity/variadic/spread matrix; compares value, side-effect event log, globals, error name',
   'Each generated program is executed by the real compiler+VM (optimizer off and on) and by internal/ref; any difference in returned value, order of logged side effects, global updates or error name is a violation. Seeded sampling of a grammar; exhaustive only for the call-arity matrix. Held on the executions produced.',
   'trusts internal/ref (≈1200 lines, each rule a sentence of docs/), the shared parser and the shared value library (operators/builtins judged by C15/C19); constructs whose documented meaning is ambiguous are not generated (DESIGN.md §3 C02)', 'DESIGN.md §3 C02'),
 'C03': ('exploration', 'runtime monitor: reference-model oracle over exhaustively enumerated try/catch/finally x loop x exit-kind trees (sizes 1-3 x 10 histories x 4 wrappers; size 4; sampled 5-9), comparing order AND multiplicity of logged body executions; every fifth program again on VMs whose previous run was cut short inside try statements (compared with a new VM); frame-limit laws judged by counters kept by the script',
   'Every tree of the stated grammar up to the size bound is rendered with a history prefix of completed try statements and a call wrapper, run on the VM (optimizer off/on) and on the reference; finally-exactly-once, pending outcome, caught-not-rethrown and no-influence-of-completed-statements are all implied by log equality. Exhaustive to the bound, sampled above.',
   'trusts internal/ref try/catch/finally (ECMAScript completion semantics) and the parser; one known finding (stale catch identifier) is matched by a narrow history predicate + log mask', 'DESIGN.md §3 C03'),
 'C16': ('exploration', 'runtime monitor: expected-by-construction oracle (the generator records the line of every call and of the failing statement) over call chains of depth 0..8 across main script and source modules; invariance under optimizer, encode/decode and k prepended lines',
   'The reported StackTrace must equal the constructed (file,line) list exactly, every position must lie inside its file, and the list must be identical with the optimizer on/off, after encode->decode, and shifted by exactly k after prepending k blank/comment lines; compile/parse error positions are checked on planted errors.',
   'generator bookkeeping of line numbers; recursion/self tail calls excluded (statement silent)', 'DESIGN.md §3 C16'),
 'C17': ('exploration', 'runtime monitor: differential oracle against encoding/json (Marshal bytes, Unmarshal accept/reject and value, round trip, Valid/Compact/Indent) + JSON-validity check of every Marshal output + panic monitor, on the Go API, Function.Value/ValueEx and a compiled script',
   'Seeded values of every uGO type (incl. functions, errors, sync maps, time, RawMessage, EncoderOptions, float edges, hostile strings, nesting to 5000, cycles) and documents (generated valid JSON, mutations, a 1700-entry edge list, nesting around 10000, arbitrary bytes) are run through the module and through encoding/json. Held on what was run.',
   'trusts the sandbox toolchain\'s encoding/json as the reference; \\b/\\f spelling and nil-vs-empty containers are normalised (documented reference changes)', 'DESIGN.md §3 C17'),
 'C18': ('fault_enumeration', 'runtime monitor: panic/crash/allocation sanitizer (recover, child-crash attribution under RLIMIT_AS, TotalAlloc delta with heap-profile site attribution) over EVERY truncation and single-byte substitution (and double-byte / length-field rewrites) of a corpus of valid v2 and v1 encodings, plus random bytes',
   'About 480 bytecode seeds and 130 object/source-file seeds are corrupted exhaustively at the byte level and fed to every decoding entry point; a panic, a crash or an allocation above 1 MiB + 256 x len(input) is a violation. Exhaustive for single-byte corruptions and truncations of the corpus, sampled beyond.',
   'inputs capped at ~8 KiB; deterministic re-encoder c18_enc.go validated against the real decoder', 'DESIGN.md §3 C18'),
 'C19': ('exploration', 'runtime monitor: panic/crash/allocation sanitizer (recover, child-crash attribution under RLIMIT_AS, TotalAlloc delta, hang deadline for size bombs) over every builtin/stdlib callable x boundary-pool argument tuples on five call routes (direct Go call, CallEx on a live VM, compiled script without recovery, arguments split between normal and variadic, CallEx WITHOUT a VM); the pool holds well-formed JSON documents too',
   '282 callables (builtins, error.New, fmt/json/strings/time functions, Time/Location methods) x all tuples of length 0..2 from a 58-value pool (length 3 exhaustive where arity allows, 4..8 sampled in thorough) via direct Go call, CallEx on a live VM, and a compiled script without recovery. Result must be object xor error.',
   'gray-zone sizes (256MiB..2^40) are skipped; one 10 s deadline is used only for calls with an integer argument >= 2^40', 'DESIGN.md §3 C19'),
 'C20': ('exploration', 'runtime monitor: round-trip oracles (uGO->Go->uGO type-exact, Go->uGO->Go deep-equal), exhaustive numeric width table checked with math/big, unsupported-type and registry tables, panic monitor on every call',
   'Seeded nested values in both directions through ToObject, ToObjectAlt and ToInterface plus exhaustive tables of every Go numeric width x boundary values x nesting shapes, 68 unsupported Go types and the time/json registry types. Held on what was run.',
   'trusts canon.Value rendering, reflect.DeepEqual-style comparator in c20values.go and math/big', 'DESIGN.md §3 C20'),
 'C04': ('exploration', 'runtime monitor: differential oracle original vs decoded vs re-decoded bytecode (value, event log, globals, error, stack-trace lines) over a constants profile and seeded generated programs with source and builtin modules; every encoding is also decoded through 18 reader shapes (chunk sizes, last chunk with io.EOF) and must give the same structure',
   'Every program is compiled, encoded, decoded with the same modules, re-encoded and decoded again; the three bytecodes are run on three argument vectors and compared; encode/decode failures or panics on compiler output are violations. Held on what was run.',
   'the run of the original bytecode is the reference; canonical outcome comparison (floats by bits)', 'DESIGN.md §3 C04'),
 'C05': ('exploration', 'runtime monitor: panic sanitizer (recover + per-case watchdog + child-crash attribution) around ugo.Compile / Eval compile path, plus a structural well-formedness scanner of every returned Bytecode, over boundary enumeration, corpus mutation and random inputs x compiler-option cross product',
   'Exhaustive enumeration around every operand-width limit and nesting depths up to 2000, seeded mutations/truncations/splices of a corpus and of generated programs, random byte and token strings, each under 9 option sets (optimizer budgets, tracing, module maps, re-used symbol tables, disabled builtins). Any panic, hang (twice), nil/nil result or malformed Bytecode is a violation. Held on what was run.',
   'Go stack exhaustion beyond the explored nesting bound is out of scope; the scanner (wellFormed in c05.go) is trusted', 'DESIGN.md §3 C05'),
 'C06': ('exploration', 'runtime monitor: host-panic sanitizer (recover() around VM.Run on its own goroutine, child-process crash attribution) + follow-up-run probes on the same VM, over an exhaustive fault x context matrix and generated faulty programs; runs with *SyncMap globals whose operations panic under the map lock, followed by a bounded script on the same maps',
   'About 65 fault expressions (operators, indexing, calls, panicking Go callbacks and a hostile custom Object, resource exhaustion at the 2048-slot and 1024-frame edges) are placed in 13 contexts and run with recovery on; any panic reaching the harness, a nil/nil result, or a wrong follow-up run on the same VM is a violation. Exhaustive over the matrix, sampled over generated programs.',
   'Go stack exhaustion by native recursion is out of the budget; callbacks honour the Object contract', 'DESIGN.md §3 C06'),
 'C07': ('exploration', 'runtime monitor: used-VM vs new-VM differential over enumerated run histories (13 termination kinds x 4 transitions x 8 observers exhaustive, random histories up to length 6), plus canonical bytecode dump before/after',
   'Histories including aborted, overflowed, panicked (recovered and unrecovered) runs are executed on one VM; the observed script then must behave exactly as on a new VM, repeatably, and no involved Bytecode may change. Exhaustive single-step product, sampled longer histories.',
   'map iteration order never observable in observers; REPL-style re-run without Clear is out of the statement', 'DESIGN.md §3 C07'),
 'C08': ('exploration', 'Go race detector (-race build, reports collected and de-duplicated by innermost /repo frames) + solo-vs-concurrent outcome oracle + per-VM isolation probes over N in {2,8,32} VMs sharing one Bytecode',
   'Fixed programs (stateful source modules, all builtin modules with per-VM id markers, errors formatted with stack traces from several files, pooled child VMs, faults under recovery) and generated programs are run concurrently on fresh and re-used VMs, direct and decoded; zero race reports, equality with the solo outcome and an unchanged Bytecode are required. Sampled interleavings only.',
   'only interleavings the scheduler produced are observed; the harness shares only the Bytecode and atomics', 'DESIGN.md §3 C08'),
 'C09': ('fault_enumeration', 'deterministic schedule placement through build-tag hooks (park at each named synchronisation point, perform Abort/cancel, release) + offline bounded-response checker over the recorded iteration counter, plus race-detector stress and a process-level cmd/ugo -timeout probe; action abort+run (Abort, then a second Run parked on the VM mutex); Eval sessions must keep their variables across a cancelled fragment',
   'Every (workload kind x reachable point x occurrence x action x ordering) combination is executed; after the action returned the script may advance at most B iterations before Run/Eval.Run returns the aborted error, and the VM must run a known script afterwards. Exhaustive over the named points, sampled for the stress part.',
   'points are the ones named in MANIFEST.hooks; an Abort that completes before Run is entered is outside the statement; wall-clock only rescues runs already judged lost', 'DESIGN.md §3 C09'),
 'C10': ('exploration', 'runtime monitor: differential oracle Eval session vs fresh Eval of the concatenation for every prefix, over ALL 2^(n-1) cuttings of generated top-level statement lists (n<=7) and sampled cuttings above, three compiler option sets',
   'Per fragment the result value (when the fragment ends in an expression statement) or error, the cumulative event log and globals must match up to and including the first failing fragment; static rejections are compared by error only. Exhaustive over cut points for small scripts.',
   'a fresh Eval is the reference; result value of a fragment ending in a non-expression statement is not judged (documented convention covers expressions)', 'DESIGN.md §3 C10'),
 'C11': ('exploration', 'runtime monitor: differential oracle v2 program vs the same program down-converted to the version-1 layout by the harness and decoded by the repository (value, log, globals, error, trace lines); down-converter self-validated by its inverse on every program',
   'Seeded generated programs rich in jumps/try statements (and fixed probes) are re-laid into the v1 operand widths with relocated targets, given a v1 header, decoded and run against the original on three argument vectors. Held on what was run; programs not representable in v1 are skipped and counted.',
   'trusts encoder/opv1.OpcodeOperands as the v1 layout and the harness relayout (checked by round trip against the original bytes)', 'DESIGN.md §3 C11'),
 'C12': ('exploration', 'runtime monitor: reference-model oracle (module semantics of internal/ref) + cross-configuration agreement (optimizer off/on x direct/encoded) over generated import graphs and fixed probes; static enumeration of import cycles and unknown modules; builtin-module privacy probes; FileImporter graphs in one and in several directories (expected values by construction); literal at-most-once cases (two known findings)',
   'Event log with one entry per module-body execution plus state probes through every import site must match the reference under 4 configurations; cycles of length 1..4 at 5 positions x 2 shapes and unknown names must be compile-time errors; builtin module values written by one VM are never read by another.',
   'trusts internal/ref module rules; generated modules export accessors (documented copy-on-store makes embedded containers differ by design)', 'DESIGN.md §3 C12'),
 'C13': ('exploration', 'runtime monitor: instrumented ugo.BuiltinObjects (counting wrappers observe every call incl. the optimizer\'s compile-time VM) + static GETBUILTIN scan of all functions + expectation from an independent lexical resolver, over generated programs x disabled sets and Eval sessions',
   'For each program and disabled set D the resolver predicts rejection; accepted Bytecode must not name a member of D and must never call one during compile+run; Eval sessions disable before and between fragments. Seeded sampling of programs and subsets; single-name sets cover every name the program mentions.',
   'trusts internal/ref/resolve.go; references in statically removed branches need not be errors but must leave no trace', 'DESIGN.md §3 C13'),
 'C14': ('exploration', 'runtime monitor: differential oracle in-script call vs Invoker call (pooled / un-pooled / re-used) of every script-function call of generated programs, plus a 16-VM concurrent part, all under the race detector',
   'Every call is written CALL(f, args...); run A binds CALL to a script function, run B to a Go callback using an Invoker; value, event log, globals and errors must be identical. Nested child VMs, variadic/spread calls, closures over captured state, throwing and importing functions are generated.',
   'run A is the reference; lenient Go-side arity is not compared (as the statement says)', 'DESIGN.md §3 C14'),
 'C15': ('exploration', 'runtime monitor: algebraic-law + reference-evaluator oracle over exhaustive boundary-pool pairs, panic monitor (recover) on three routes: direct BinaryOp, script with arguments, script with literal operands under default compiler options (compile-time folding)',
   'Every ordered pair of a ~75-value boundary pool x every operator is executed on the real Object.BinaryOp/Equal and on a VM; laws, an independent documented-conversion evaluator and a panic monitor judge each result. Exhaustive over the pool, sampled (seeded) over random 64-bit operands in thorough. Held-on-what-was-run, not a proof.',
   'trusts the small evaluator in internal/props/c15.go and Go arithmetic; relational cells where the document is silent are only subject to the laws', 'DESIGN.md §3 C15'),
}
impl = sorted(checks)
allp = [json.loads(l)['id'] for l in open(f'{V}/properties.jsonl')]
man = {
 'version': 1,
 'setup_cmd': './setup.sh',
 'hooks': {
   'guard': 'verif',
   'enable': 'go build -tags verif (run.sh passes -tags verif to every build of the harness, which compiles /repo from its working tree through a go.mod replace)',
   'baseline_off_cmd': 'cd /repo && GOFLAGS=-mod=mod GOPROXY=off GOSUMDB=off go test -mod=mod -json -vet=off -count=1 -timeout 25m ./...',
   'source_commits': [],
   'add_only': True,
 },
 'engines': [
   {'name': 'vcheck', 'path': 'cmd/vcheck', 'serves_properties': impl,
    'kind_free_text': 'Go driver: parent orchestrator + isolated child workers (crash attribution by pre-logged case), per-property runtime monitors in internal/props, canonical outcome comparison, reference interpreter, known-finding matching, evidence writer'},
 ],
 'checks': [],
 'notes': 'All checks: ./run.sh <id> <tier> rebuilds bin/vcheck (and bin/vcheck.race for C08/C09/C14) from /repo working tree with -tags verif, runs, writes evidence/<id>.json. Exit 0 held / 1 VIOLATION / 2 broken-or-inconclusive run. VERIF_SEED selects the PRNG seed.',
 'not_applicable': [],
}
for pid in allp:
    if pid in checks:
        cat, tech, text, note, ref = checks[pid]
        man['checks'].append({
          'property_id': pid,
          'quick_cmd': f'./run.sh {pid} quick',
          'thorough_cmd': f'./run.sh {pid} thorough',
          'evidence_file': f'/verif/evidence/{pid}.json',
          'replay_cmd_template': f'./run.sh replay {pid} {{path}}',
          'engine': 'vcheck',
          'level_claimed': {'category': cat, 'text': text, 'design_ref': ref},
          'level_note': note,
          'technique': tech,
        })
    else:
        man['not_applicable'].append({'property_id': pid, 'reason': 'monitor not built yet in this round (planned in DESIGN.md §3); no claim is made'})
hooks_file = f'{V}/tools/hook_commits.txt'
if os.path.exists(hooks_file):
    man['hooks']['source_commits'] = [l.strip() for l in open(hooks_file) if l.strip()]
json.dump(man, open(f'{V}/MANIFEST.json','w'), indent=1)
print('checks:', len(man['checks']), 'not_applicable:', len(man['not_applicable']))
