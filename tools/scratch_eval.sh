#!/bin/bash
# scratch_eval.sh <ugo-tree> <Cnn> [tier] — run one check against another ugo tree (e.g. a seeded worktree) from a scratch
# copy of /verif, without touching /repo or /verif. Preliminary only: the registered commands always build from /repo.
set -u
tree="$1"; p="$2"; tier="${3:-quick}"
s=/var/tmp/vs-$p-$$
rsync -a --exclude .git --exclude work --exclude bin --exclude evidence --exclude replay /verif/ $s/
sed -i "s#=> /repo#=> $tree#" $s/go.mod
sed -i "s#cd /repo &&#cd $tree \&\&#" $s/run.sh
out=$(cd $s && ./run.sh $p $tier 2>&1); rc=$?
nv=$(echo "$out" | grep -c '^VIOLATION')
first=$(echo "$out" | grep -m1 'fingerprint:' | cut -c1-200)
case $rc in
  1) echo "CAUGHT $p violations=$nv $first";;
  0) echo "MISSED $p $(echo "$out" | grep -c '^INCONCLUSIVE') inconclusive";;
  *) echo "BROKEN $p rc=$rc $(echo "$out" | tail -3 | tr '\n' ' ' | cut -c1-300)";;
esac
rm -rf $s
