#!/bin/bash
# runsome.sh <tier> <seed> <Cnn>... — like runall.sh for a list of checks.
tier=$1; export VERIF_SEED=$2; shift 2
cd "$(dirname "$0")/.."
for p in "$@"; do
  s=$(date +%s); out=$(./run.sh $p $tier 2>&1); rc=$?; e=$(( $(date +%s) - s ))
  echo "$p rc=$rc ${e}s $(echo "$out" | grep -E '^(OK|VIOLATION|BROKEN|INFRA)' | head -2 | tr '\n' ' ' | cut -c1-160)"
done
