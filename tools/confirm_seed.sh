#!/bin/bash
# confirm_seed.sh <Cnn> — confirm a seeded change in a scratch worktree: demo fails with it, passes without it, suite passes with it.
export GOFLAGS=-mod=mod GOPROXY=off GOSUMDB=off GOTOOLCHAIN=local
id=$1; d=/verif/seeded/$id; w=/tmp/confirm-$id
git -C /repo worktree add --detach $w HEAD -q || exit 3
cd $w
res="id=$id"
if git apply --check $d/patch.diff 2>/dev/null; then git apply $d/patch.diff; res="$res applies=yes"; else res="$res applies=NO"; fi
pkg=$(head -20 $d/demo_test.go.txt | grep -m1 '^package ' | awk '{print $2}')
dest=seed_demo_test.go
# the demo may live in a sub-package: agent_meta may say; default root
if grep -q '"demo_dir"' $d/agent_meta.json 2>/dev/null; then dest=$(jq -r .demo_dir $d/agent_meta.json)/seed_demo_test.go; fi
cp $d/demo_test.go.txt $dest
tagflag=""
grep -q 'go:build verif' $dest && tagflag="-tags verif"
if go test $tagflag -vet=off -count=1 -run 'TestSeedDemo' $(dirname ./$dest) >/tmp/confirm-$id.with.log 2>&1; then res="$res demo_with_patch=PASS(!)"; else res="$res demo_with_patch=fail"; fi
mv $dest /tmp/confirm-$id.demo.go
if go test -vet=off -count=1 ./... >/tmp/confirm-$id.suite.log 2>&1; then res="$res suite_with_patch=pass"; else res="$res suite_with_patch=FAIL"; fi
git checkout -q -- .
cp /tmp/confirm-$id.demo.go $dest
if go test $tagflag -vet=off -count=1 -run 'TestSeedDemo' $(dirname ./$dest) >/tmp/confirm-$id.without.log 2>&1; then res="$res demo_without_patch=pass"; else res="$res demo_without_patch=FAIL(!)"; fi
cd /; git -C /repo worktree remove --force $w
echo "$res"
