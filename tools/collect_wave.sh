#!/bin/bash
# collect_wave.sh <N> — copy the deliveries of wave N (/tmp/seed<N>-Cxx) into seeded/Cxx-w<N>/ and run the matching quick
# check against each agent's worktree from a scratch copy of /verif (does not touch /repo).
n=$1
cd /verif
for i in $(seq -w 1 20); do id=C$i; w=/tmp/seed$n-$id; d=seeded/$id-w$n
  if [ -f $w/seed.patch ] && [ -f $w/seed_meta.json ] && [ -f $w/seed_demo_test.go ]; then
    mkdir -p $d; cp $w/seed.patch $d/patch.diff; cp $w/seed_demo_test.go $d/demo_test.go.txt; cp $w/seed_meta.json $d/agent_meta.json
    if [ ! -f $d/first_result.txt ]; then timeout 600 tools/scratch_eval.sh $w $id > $d/first_result.txt 2>&1 || echo "TIMEOUT-OR-ERROR" >> $d/first_result.txt; fi
    echo "$id-w$n: $(cat $d/first_result.txt | cut -c1-180)"
  else echo "$id-w$n: pending"; fi
done
