#!/bin/bash
# mutant.sh <patch.diff> <Cnn> [<Cnn>...]  — apply a seeded change to /repo, run the quick checks, undo it.
# Prints one line per check: CAUGHT (exit 1 with VIOLATION) / MISSED (exit 0) / BROKEN (other).
set -u
patch="$1"; shift
cd /repo || exit 3
if ! git diff --quiet; then echo "repo has uncommitted changes"; exit 3; fi
if ! git apply --check "$patch" 2>/dev/null; then echo "PATCH DOES NOT APPLY: $patch"; exit 3; fi
git apply "$patch"
trap 'git -C /repo checkout -- . ; git -C /repo clean -fdq -e "*.orig" >/dev/null 2>&1' EXIT
for p in "$@"; do
  out=$(cd /verif && VERIF_TIER=${VERIF_TIER:-quick} ./run.sh "$p" "${VERIF_TIER:-quick}" 2>&1); rc=$?
  nv=$(echo "$out" | grep -c '^VIOLATION')
  first=$(echo "$out" | grep -m1 'fingerprint:' | cut -c1-160)
  case $rc in
    1) echo "CAUGHT $p violations=$nv $first";;
    0) echo "MISSED $p";;
    *) echo "BROKEN $p rc=$rc $(echo "$out" | tail -2 | tr '\n' ' ' | cut -c1-200)";;
  esac
done
