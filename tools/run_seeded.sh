#!/bin/bash
# run_seeded.sh [ids...] — run the matching quick check against every seeded change, log CAUGHT/MISSED.
cd /verif
ids="$@"; [ -z "$ids" ] && ids=$(ls seeded | grep '^C[0-9][0-9]$')
for id in $ids; do
  r=$(timeout 1500 tools/mutant.sh /verif/seeded/$id/patch.diff $id 2>&1 | tail -1)
  echo "$id: $r"
  git -C /repo checkout -q -- . 2>/dev/null
done
