#!/bin/bash
# runall.sh <tier> [seed] — run every registered check once, print a one-line summary each.
tier=${1:-quick}; export VERIF_SEED=${2:-1}
cd "$(dirname "$0")/.."
for p in $(jq -r '.checks[].property_id' MANIFEST.json); do
  s=$(date +%s); out=$(./run.sh $p $tier 2>&1); rc=$?; e=$(( $(date +%s) - s ))
  echo "$p rc=$rc ${e}s $(echo "$out" | grep -E '^(OK|VIOLATION|BROKEN|INFRA)' | head -2 | tr '\n' ' ' | cut -c1-160)"
done
