#!/bin/bash
# wave 2 seeds + reverts of fix commits
cd /verif
for d in $(ls -d seeded/C*-w2); do
  id=$(basename $d); prop=${id%-w2}
  r=$(timeout 1500 tools/mutant.sh /verif/$d/patch.diff $prop 2>&1 | tail -1)
  echo "$id: $r"
  git -C /repo checkout -q -- . 2>/dev/null
done
for f in seeded/reverts/*.fix.diff; do
  b=$(basename $f .fix.diff); prop=${b%%-*}
  cd /repo; if git apply -R --check /verif/$f 2>/dev/null; then git apply -R /verif/$f; else echo "revert $b: cannot apply"; cd /verif; continue; fi
  if ! go build ./... 2>/dev/null; then echo "revert $b: does not build alone"; git checkout -q -- .; cd /verif; continue; fi
  cd /verif
  out=$(timeout 1500 ./run.sh $prop quick 2>&1); rc=$?
  nv=$(echo "$out" | grep -c '^VIOLATION'); first=$(echo "$out" | grep -m1 'fingerprint:' | cut -c1-150)
  echo "revert $b: rc=$rc violations=$nv $first"
  git -C /repo checkout -q -- .
done
