#!/usr/bin/env python3
"""addfixed.py <prop> <commit> <what> — append a fixed entry to known_findings.json"""
import json,sys
p='/verif/known_findings.json'
d=json.load(open(p))
prop,commit,what=sys.argv[1],sys.argv[2],sys.argv[3]
d['fixed'].append({'property':prop,'commit':commit,'what':what,'line':f'fixed: property={prop} {commit} {what}'})
json.dump(d,open(p,'w'),indent=1)
